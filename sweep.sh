#!/bin/sh
# sweep.sh "<seeds>" "<props>" [tier]: runs the checks one after another and prints one line per run
TIER=${3:-quick}
for s in $1; do
  for p in $2; do
    out=$(VERIF_SEED=$s ./check $p --tier $TIER 2>&1)
    rc=$?
    echo "seed=$s $p rc=$rc $(echo "$out" | grep -E '^\[check .* tier' | sed 's/.*evaluations/evaluations/')"
    if [ $rc -ne 0 ]; then echo "$out" | grep -E "VIOLATION|INCONCLUSIVE" | cut -c1-400; fi
  done
done
