#!/bin/sh
# mutate.sh <ID[,ID..]> <file relative to repo> <python-expr old> <new>  — sensitivity run on a scratch copy
set -e
IDS=$1; FILE=$2; OLD=$3; NEW=$4
M=/tmp/mut-$$
rsync -a --exclude .git /repo/ $M/
python3 - "$M/$FILE" "$OLD" "$NEW" <<'PY'
import sys
p,old,new=sys.argv[1:4]
s=open(p).read()
assert s.count(old)>=1, "pattern not found"
s=s.replace(old,new,1)
open(p,'w').write(s)
PY
GO=/root/go/pkg/mod/golang.org/toolchain@v0.0.1-go1.24.0.linux-amd64/bin/go
( cd $M && GOFLAGS=-mod=mod GOPROXY=off GOSUMDB=off GOTOOLCHAIN=local $GO test -vet=off -count=1 ./... >/tmp/mut-$$.log 2>&1 && echo "suite: pass" || { echo "suite: FAIL (mutant invalid)"; tail -5 /tmp/mut-$$.log; } )
for ID in $(echo $IDS | tr , ' '); do
  VERIF_REPO=$M /verif/check $ID ${TIER:+--tier $TIER} 2>/dev/null | grep -E "^VIOLATION|^\[check" | cut -c1-220 || true
done
rm -rf $M /tmp/mut-$$.log /tmp/N0DE*
