"""Per-property run plans for ./check. Counts and sizes bound every run (never a per-case clock);
`timeout` is only the wall budget after which a worker is declared inconclusive (exit 2)."""

def plan(quick_checks, thorough_checks, tests="^(TestProp|TestExhaustive)$", shards=16, qtimeout=900, ttimeout=5400, **kw):
    d = {
        "quick": {"checks": quick_checks, "shards": shards, "tests": tests, "timeout": qtimeout},
        "thorough": {"checks": thorough_checks, "shards": shards, "tests": tests, "timeout": ttimeout},
    }
    d.update(kw)
    return d


PROPS = {
    "C06": dict(pkg="./props/c06", level="exploration", technique="property-based round trip (rapid) + exhaustive short strings",
                **plan(2000, 20000)),
}
PROPS["C07"] = dict(pkg="./props/c07", level="exploration", technique="differential against an independent canonical LZHUF codec (rapid), both directions",
                    **plan(1500, 20000, tests="^TestProp$"))
PROPS["C08"] = dict(pkg="./props/c08", level="exploration", technique="mutation-based generation of hostile streams (rapid) with termination/bound/verdict oracle; native fuzz in thorough",
                    hang_is_violation=True, memlimit_mb=4096,
                    **plan(4000, 60000, tests="^TestProp$"))
PROPS["C08"]["thorough"]["fuzz"] = {"target": "FuzzBytes", "seconds": 240}
