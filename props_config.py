"""Loads the per-property run plans (props/cNN/plan.json) for ./check and gen_manifest.py.

plan.json keys: pkg, level, technique, quick{checks,shards,tests,timeout[,env,shard_env]},
thorough{... [,fuzz{target,seconds}]}, optional race, race_is_violation, hang_is_violation,
memlimit_mb, helpers{name: go package}, shrinktime, replay_timeout, and manifest{text,note,design_ref}.
Counts and sizes bound every run (never a per-case clock); `timeout` is only the wall budget after
which a worker is declared inconclusive (exit 2)."""
import glob, json, os

ROOT = os.path.dirname(os.path.abspath(__file__))
WIP = set()
_w = os.path.join(ROOT, "wip.json")
if os.path.exists(_w):
    WIP = set(json.load(open(_w)))
PROPS = {}
for f in sorted(glob.glob(os.path.join(ROOT, "props", "c[0-9][0-9]", "plan.json"))):
    d = json.load(open(f))
    PROPS[os.path.basename(os.path.dirname(f)).upper()] = d
