#!/usr/bin/env python3
"""Regenerates MANIFEST.json from props_config.py + manifest_text.py (level texts)."""
import json, os, sys
ROOT = os.path.dirname(os.path.abspath(__file__))
sys.path.insert(0, ROOT)
from props_config import PROPS
from manifest_text import TEXT, NOT_APPLICABLE, HOOK_COMMITS

GO = "/root/go/pkg/mod/golang.org/toolchain@v0.0.1-go1.24.0.linux-amd64/bin/go"
checks = []
for pid in sorted(TEXT):
    cfg = PROPS[pid]
    t = TEXT[pid]
    checks.append({
        "property_id": pid,
        "quick_cmd": "./check %s --tier quick" % pid,
        "thorough_cmd": "./check %s --tier thorough" % pid,
        "evidence_file": "/verif/evidence/%s.json" % pid,
        "replay_cmd_template": "./check %s --replay {path}" % pid,
        "engine": "rapid-go",
        "level_claimed": {"category": cfg["level"], "text": t["text"], "design_ref": t["design_ref"]},
        "level_note": t["note"],
        "technique": cfg["technique"],
    })
m = {
    "version": 1,
    "setup_cmd": "./setup.sh",
    "hooks": {
        "guard": "verif",
        "enable": "go test -tags verif (the driver always passes -tags verif; no hook is currently needed, all checks use the exported API)",
        "baseline_off_cmd": "cd /repo && GOFLAGS=-mod=mod GOPROXY=off GOSUMDB=off GOTOOLCHAIN=local %s test -vet=off -count=1 ./..." % GO,
        "source_commits": HOOK_COMMITS,
        "add_only": True,
    },
    "engines": [{"name": "rapid-go", "path": "/verif/check", "serves_properties": sorted(TEXT),
                 "kind_free_text": "property-based testing with pgregory.net/rapid v1.3.0 (generators, state machines, shrinking), exhaustive enumeration of small finite sub-spaces, native go fuzzing in the thorough tier; python3 driver shards by seed over 16 worker processes and merges evidence"}],
    "checks": checks,
    "not_applicable": NOT_APPLICABLE,
    "notes": "Every check: exit 0 held / 1 VIOLATION line / 2 inconclusive. VERIF_SEED selects the per-worker rapid seeds. VERIF_REPO=<dir> checks a scratch copy instead of /repo (sensitivity runs only).",
}
json.dump(m, open(os.path.join(ROOT, "MANIFEST.json"), "w"), indent=1)
print("wrote MANIFEST.json with", len(checks), "checks")
