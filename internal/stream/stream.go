// Package stream provides the in-memory transports the session properties run over:
// Pair() — a buffered, never-blocking-on-write bidirectional byte stream implementing net.Conn
// with per-endpoint read schedules ("any segmentation"), per-direction cut points, byte-level
// tampering, optional pacing, a full transcript, a Close counter and a clock-free deadlock
// detector — and Scripted, a conn whose read side is a fixed byte string.
package stream

import (
	"bytes"
	"errors"
	"io"
	"net"
	"os"
	"sync"
	"sync/atomic"
	"time"
)

// ErrDeadlock is returned from Read when both endpoints are blocked reading and nothing is in
// flight: neither side can ever make progress.
var ErrDeadlock = errors.New("stream: both ends blocked in Read with nothing in flight (deadlock)")

// Edit is one in-transit alteration of a direction's byte stream at an absolute offset of the
// *original* (as written) stream.
type Edit struct {
	Off  int64  `json:"off"`
	Kind string `json:"kind"` // "sub" (replace byte by Val), "del" (drop byte), "ins" (insert Val before byte)
	Val  byte   `json:"val"`
}

// Dir is one direction of a pair.
type dir struct {
	buf       []byte // written (after tampering, within the cut) but not yet read
	written   []byte // transcript of everything the writer wrote (before tampering / cut)
	wrOff     int64  // == len(written)
	accepted  int64  // bytes that entered buf over time (after tampering, before the cut)
	delivered int64  // bytes handed to the reader
	limit     int64  // cut: deliver exactly this many bytes, then break the link; -1 = none
	edits     []Edit
	wclosed   bool // writer side closed its end
	peerGone  bool // the reader of this direction hung up: further writes fail (net.Pipe semantics)
}

type link struct {
	mu     sync.Mutex
	cond   *sync.Cond
	d      [2]dir // d[0]: A->B, d[1]: B->A
	broken bool   // link failure: both ends see EOF
	// blocked[i] is true while endpoint i waits in Read
	blocked  [2]bool
	deadlock bool
	Seq      *int64
}

// End is one endpoint; it implements net.Conn.
type End struct {
	l        *link
	idx      int   // 0 = A, 1 = B ; reads from d[1-idx], writes to d[idx]
	sched    []int // read schedule (cycled); empty = unlimited
	si       int
	closed   bool
	Closes   int32 // number of Close calls
	pace     []time.Duration
	pi       int
	nwrites  int
	txBuf    *int64
	flushes  *int32
	readGate func()
	hangUp   bool
}

// Pair returns the two connected endpoints.
func Pair() (*End, *End) {
	l := &link{}
	l.cond = sync.NewCond(&l.mu)
	l.d[0].limit, l.d[1].limit = -1, -1
	return &End{l: l, idx: 0}, &End{l: l, idx: 1}
}

// SetReadSchedule sets the chunk sizes successive Read calls are limited to.
func (e *End) SetReadSchedule(s []int) { e.sched = append([]int(nil), s...) }

// SetPacing makes every Write sleep for the next duration of the (cycled) list first.
func (e *End) SetPacing(p []time.Duration) { e.pace = p }

// CutAfter arranges that the peer receives exactly k bytes written by this endpoint; the link
// then fails (both directions report EOF, undelivered data is lost).
func (e *End) CutAfter(k int64) {
	e.l.mu.Lock()
	e.l.d[e.idx].limit = k
	e.l.mu.Unlock()
}

// Tamper installs in-transit alterations of the bytes written by this endpoint.
func (e *End) Tamper(edits []Edit) {
	e.l.mu.Lock()
	e.l.d[e.idx].edits = edits
	e.l.mu.Unlock()
}

// Written returns a copy of everything this endpoint wrote (before tampering and cuts).
func (e *End) Written() []byte {
	e.l.mu.Lock()
	defer e.l.mu.Unlock()
	return append([]byte(nil), e.l.d[e.idx].written...)
}

// Delivered returns how many bytes written by this endpoint were read by the peer.
func (e *End) Delivered() int64 {
	e.l.mu.Lock()
	defer e.l.mu.Unlock()
	return e.l.d[e.idx].delivered
}

// Broken reports whether the link failed (cut reached).
func (e *End) Broken() bool { e.l.mu.Lock(); defer e.l.mu.Unlock(); return e.l.broken }

// Deadlocked reports whether the deadlock detector fired.
func (e *End) Deadlocked() bool { e.l.mu.Lock(); defer e.l.mu.Unlock(); return e.l.deadlock }

// CloseCount returns how often Close was called on this endpoint.
func (e *End) CloseCount() int { return int(atomic.LoadInt32(&e.Closes)) }

func (e *End) Read(p []byte) (int, error) {
	if len(p) == 0 {
		return 0, nil
	}
	l := e.l
	l.mu.Lock()
	defer l.mu.Unlock()
	in := &l.d[1-e.idx]
	for {
		if e.closed {
			return 0, net.ErrClosed
		}
		if l.broken {
			return 0, io.EOF
		}
		if in.limit >= 0 && in.delivered >= in.limit {
			// the cut point: the link fails now, in both directions
			l.broken = true
			l.d[0].buf, l.d[1].buf = nil, nil
			l.cond.Broadcast()
			return 0, io.EOF
		}
		if len(in.buf) > 0 {
			break
		}
		if in.wclosed {
			return 0, io.EOF
		}
		if l.deadlock {
			return 0, ErrDeadlock
		}
		// about to block: if the peer is blocked too and has nothing to read, nobody can progress
		other := 1 - e.idx
		if l.blocked[other] && len(l.d[e.idx].buf) == 0 {
			l.deadlock = true
			l.cond.Broadcast()
			return 0, ErrDeadlock
		}
		l.blocked[e.idx] = true
		l.cond.Wait()
		l.blocked[e.idx] = false
	}
	n := len(p)
	if len(e.sched) > 0 {
		if c := e.sched[e.si%len(e.sched)]; c > 0 && c < n {
			n = c
		}
		e.si++
	}
	if n > len(in.buf) {
		n = len(in.buf)
	}
	if in.limit >= 0 && in.delivered+int64(n) > in.limit {
		n = int(in.limit - in.delivered)
	}
	copy(p, in.buf[:n])
	in.buf = in.buf[n:]
	in.delivered += int64(n)
	return n, nil
}

func (e *End) Write(p []byte) (int, error) {
	if len(e.pace) > 0 {
		d := e.pace[e.pi%len(e.pace)]
		e.pi++
		if d > 0 {
			time.Sleep(d)
		}
	}
	l := e.l
	l.mu.Lock()
	defer l.mu.Unlock()
	if e.closed {
		return 0, net.ErrClosed
	}
	out := &l.d[e.idx]
	if out.peerGone {
		out.written = append(out.written, p...)
		out.wrOff += int64(len(p))
		return 0, io.ErrClosedPipe
	}
	if l.broken {
		// like a dead radio link: the local TNC keeps accepting bytes for a while
		out.written = append(out.written, p...)
		out.wrOff += int64(len(p))
		return len(p), nil
	}
	for _, b := range p {
		off := out.wrOff
		out.written = append(out.written, b)
		out.wrOff++
		drop := false
		for _, ed := range out.edits {
			if ed.Off != off {
				continue
			}
			switch ed.Kind {
			case "sub":
				b = ed.Val
			case "del":
				drop = true
			case "ins":
				out.buf = append(out.buf, ed.Val)
				out.accepted++
			}
		}
		if !drop {
			out.buf = append(out.buf, b)
			out.accepted++
		}
	}
	if e.txBuf != nil {
		atomic.AddInt64(e.txBuf, int64(len(p)))
	}
	l.cond.Broadcast()
	return len(p), nil
}

// HangUpOnClose makes Close of this end behave like hanging up a synchronous link (net.Pipe, a telnet connection
// after the reset has come back): what this end wrote before stays readable for the other end, but every Write of
// the other end fails from then on with io.ErrClosedPipe instead of vanishing silently.
func (e *End) HangUpOnClose() { e.hangUp = true }

func (e *End) Close() error {
	atomic.AddInt32(&e.Closes, 1)
	l := e.l
	l.mu.Lock()
	defer l.mu.Unlock()
	if e.closed {
		return nil
	}
	e.closed = true
	l.d[e.idx].wclosed = true
	if e.hangUp {
		l.d[1-e.idx].peerGone = true
	}
	l.cond.Broadcast()
	return nil
}

type addr string

func (a addr) Network() string { return "mem" }
func (a addr) String() string  { return string(a) }

func (e *End) LocalAddr() net.Addr                { return addr("local") }
func (e *End) RemoteAddr() net.Addr               { return addr("remote") }
func (e *End) SetDeadline(t time.Time) error      { return nil }
func (e *End) SetReadDeadline(t time.Time) error  { return nil }
func (e *End) SetWriteDeadline(t time.Time) error { return nil }

// Modem wraps an End with the optional transport.Flusher and transport.TxBuffer interfaces:
// written bytes sit in a simulated transmit buffer that drains when Flush is called.
type Modem struct {
	*End
	buffered int64
	Flushes  int32
	// Quarters is the part (in quarters, 1..4) of the bytes written since the last Flush that the modem
	// reports as still queued; 0 means 2 (half). 4 models a modem that transmits nothing until it is
	// flushed: its queue (which also holds the frame header and block framing bytes) is then always
	// larger than the number of message bytes handed over so far.
	Quarters int
	// QueryDelay is how long TxBufferLen takes (a modem answers the buffer query over its command link, and
	// the query may have to wait for a command in progress).
	QueryDelay time.Duration
}

// NewModem wraps e.
func NewModem(e *End) *Modem {
	m := &Modem{End: e}
	e.txBuf = &m.buffered
	return m
}

func (m *Modem) Flush() error {
	atomic.AddInt32(&m.Flushes, 1)
	atomic.StoreInt64(&m.buffered, 0)
	return nil
}

func (m *Modem) TxBufferLen() int {
	if m.QueryDelay > 0 {
		time.Sleep(m.QueryDelay)
	}
	q := m.Quarters
	if q <= 0 || q > 4 {
		q = 2
	}
	return int(atomic.LoadInt64(&m.buffered) * int64(q) / 4)
}

// FlushOnly wraps an End with transport.Flusher only (no TxBufferLen), like the AX.25/AGWPE connections:
// Flush blocks for FlushTime (the link layer needs that long to get the queued frames acknowledged).
type FlushOnly struct {
	*End
	FlushTime time.Duration
	Flushes   int32
}

func (f *FlushOnly) Flush() error {
	atomic.AddInt32(&f.Flushes, 1)
	if f.FlushTime > 0 {
		time.Sleep(f.FlushTime)
	}
	return nil
}

// Scripted is a net.Conn whose read side is a fixed byte string delivered with a read schedule and
// whose write side is recorded and otherwise ignored.
type Scripted struct {
	mu     sync.Mutex
	in     []byte
	pos    int
	sched  []int
	si     int
	Out    []byte
	Closes int32
	closed bool

	// StallOnEcho: the remote stops reading the moment the Session starts to report an error to it (a Write that
	// begins with "*** "): its window is full, that Write cannot complete. With a write deadline set on the
	// connection the Write fails with a timeout at once (the deadline is fast-forwarded, nobody waits a minute);
	// without one it blocks until the connection is closed.
	StallOnEcho bool
	Stalled     bool // such a Write happened
	wdeadline   time.Time
	gone        chan struct{}
}

func NewScripted(in []byte, sched []int) *Scripted {
	return &Scripted{in: in, sched: sched, gone: make(chan struct{})}
}

func (s *Scripted) Read(p []byte) (int, error) {
	s.mu.Lock()
	defer s.mu.Unlock()
	if s.closed {
		return 0, net.ErrClosed
	}
	if len(p) == 0 {
		return 0, nil
	}
	if s.pos >= len(s.in) {
		return 0, io.EOF
	}
	n := len(p)
	if len(s.sched) > 0 {
		if c := s.sched[s.si%len(s.sched)]; c > 0 && c < n {
			n = c
		}
		s.si++
	}
	if n > len(s.in)-s.pos {
		n = len(s.in) - s.pos
	}
	copy(p, s.in[s.pos:s.pos+n])
	s.pos += n
	return n, nil
}

// Consumed returns how many script bytes were read.
func (s *Scripted) Consumed() int { s.mu.Lock(); defer s.mu.Unlock(); return s.pos }

func (s *Scripted) Write(p []byte) (int, error) {
	s.mu.Lock()
	if s.StallOnEcho && !s.closed && bytes.HasPrefix(p, []byte("*** ")) {
		s.Stalled = true
		dl := s.wdeadline
		s.mu.Unlock()
		if !dl.IsZero() {
			return 0, os.ErrDeadlineExceeded
		}
		<-s.gone
		return 0, net.ErrClosed
	}
	defer s.mu.Unlock()
	if s.closed {
		return 0, net.ErrClosed
	}
	if len(s.Out) < 1<<22 {
		s.Out = append(s.Out, p...)
	}
	return len(p), nil
}

func (s *Scripted) Close() error {
	atomic.AddInt32(&s.Closes, 1)
	s.mu.Lock()
	if !s.closed && s.gone != nil {
		close(s.gone)
	}
	s.closed = true
	s.mu.Unlock()
	return nil
}
func (s *Scripted) setWDeadline(t time.Time) { s.mu.Lock(); s.wdeadline = t; s.mu.Unlock() }
func (s *Scripted) CloseCount() int                    { return int(atomic.LoadInt32(&s.Closes)) }
func (s *Scripted) LocalAddr() net.Addr                { return addr("local") }
func (s *Scripted) RemoteAddr() net.Addr               { return addr("remote") }
func (s *Scripted) SetDeadline(t time.Time) error      { s.setWDeadline(t); return nil }
func (s *Scripted) SetReadDeadline(t time.Time) error  { return nil }
func (s *Scripted) SetWriteDeadline(t time.Time) error { s.setWDeadline(t); return nil }
