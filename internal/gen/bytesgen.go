// Package gen holds rapid generators shared by several property packages.
package gen

import (
	"io"
	"os"
	"path/filepath"
	"sync"

	"pgregory.net/rapid"
)

// splitmix64 expands a rapid-drawn seed into bulk content deterministically: large inputs are a
// pure function of (seed, parameters), which rapid draws and shrinks; the expanded bytes are
// stored in the case, so a replay never depends on this function.
type SM struct{ s uint64 }

func NewSM(seed uint64) *SM { return &SM{seed} }
func (r *SM) Next() uint64 {
	r.s += 0x9e3779b97f4a7c15
	z := r.s
	z = (z ^ (z >> 30)) * 0xbf58476d1ce4e5b9
	z = (z ^ (z >> 27)) * 0x94d049bb133111eb
	return z ^ (z >> 31)
}
func (r *SM) Intn(n int) int {
	if n <= 0 {
		return 0
	}
	return int(r.Next() % uint64(n))
}

var (
	goldenOnce sync.Once
	golden     [][]byte
)

// Golden returns the plain text golden files of the repository (used as realistic text).
func Golden() [][]byte {
	goldenOnce.Do(func() {
		root := os.Getenv("VERIF_REPO")
		if root == "" {
			root = "/repo"
		}
		for _, n := range []string{"gettysburg.txt", "LPE5NXDVLVSQ.b2f", "e.txt", "Mark.Twain-Tom.Sawyer.txt"} {
			if b, err := os.ReadFile(filepath.Join(root, "lzhuf/testdata", n)); err == nil {
				golden = append(golden, b)
			}
		}
		if len(golden) == 0 {
			golden = [][]byte{[]byte("Four score and seven years ago our fathers brought forth on this continent a new nation")}
		}
	})
	return golden
}

// SizeClass draws a size from classes {0, tiny, small, around the 60/2048 boundaries, medium, large<=max}.
func SizeClass(t *rapid.T, max int, label string) int {
	cls := rapid.IntRange(0, 9).Draw(t, label+"_cls")
	rng := func(lo, hi int) int {
		if hi > max {
			hi = max
		}
		if lo > hi {
			lo = hi
		}
		return rapid.IntRange(lo, hi).Draw(t, label)
	}
	switch cls {
	case 0:
		return rng(0, 3)
	case 1, 2:
		return rng(1, 70)
	case 3:
		return rng(55, 130)
	case 4, 5:
		return rng(100, 3000)
	case 6:
		return rng(1980, 2200)
	case 7, 8:
		return rng(2000, 20000)
	default:
		return rng(20000, max)
	}
}

// Bytes draws a byte string from the LZHUF-relevant families. The returned label names the family.
func Bytes(t *rapid.T, max int) ([]byte, string) {
	fam := rapid.IntRange(0, 10).Draw(t, "family")
	switch fam {
	case 10: // sparse / zero-padded data: long runs of one filler byte with single marker bytes in between
		n := rapid.IntRange(minInt(200, max), minInt(max, 24000)).Draw(t, "n")
		fill := rapid.SampledFrom([]byte{0, 0, 0, ' ', 0xff}).Draw(t, "fill")
		b := make([]byte, n)
		for i := range b {
			b[i] = fill
		}
		mark := func(i int) {
			if i >= 0 && i < n {
				b[i] = fill ^ byte(1+i%7)
			}
		}
		if rapid.Bool().Draw(t, "aligned") {
			// markers at fixed offsets modulo the 2048 byte window, around the places where the codec's ring
			// buffer wraps (0, 2047), where its 60 byte look-ahead ends (59..61) and where both meet (117..119)
			r := rapid.SampledFrom([]int{117, 118, 119, 58, 59, 60, 61, 0, 1, 2046, 2047, -1}).Draw(t, "residue")
			if r < 0 {
				r = rapid.IntRange(0, 2047).Draw(t, "residue_any")
			}
			for i := r; i < n; i += 2048 {
				mark(i)
			}
			if rapid.Bool().Draw(t, "second_marker") {
				for i := r + rapid.IntRange(1, 3).Draw(t, "gap"); i < n; i += 2048 {
					mark(i)
				}
			}
		} else {
			// a marker every p bytes, p odd, so that the marker offsets walk through the residues modulo 2048
			p := rapid.SampledFrom([]int{61, 63, 65, 67, 121, 127, 129, 255, 257}).Draw(t, "period")
			for i := rapid.IntRange(0, p-1).Draw(t, "base"); i < n; i += p {
				mark(i)
			}
		}
		return b, "sparse"
	case 0: // fully rapid-drawn small strings (best shrinking)
		return rapid.SliceOfN(rapid.Byte(), 0, 300).Draw(t, "raw"), "raw"
	case 1: // small alphabet, rapid-drawn
		k := rapid.IntRange(1, 4).Draw(t, "alpha")
		return rapid.SliceOfN(rapid.ByteRange('a', byte('a'+k-1)), 0, 400).Draw(t, "small_alpha"), "small_alphabet"
	case 2: // uniform random
		n := SizeClass(t, max, "n")
		sm := NewSM(rapid.Uint64().Draw(t, "seed"))
		b := make([]byte, n)
		for i := range b {
			b[i] = byte(sm.Next())
		}
		return b, "uniform"
	case 3: // low entropy
		n := SizeClass(t, max, "n")
		k := rapid.IntRange(1, 16).Draw(t, "alpha")
		sm := NewSM(rapid.Uint64().Draw(t, "seed"))
		b := make([]byte, n)
		for i := range b {
			b[i] = byte('A' + sm.Intn(k))
		}
		return b, "low_entropy"
	case 4: // period-p repeats around 1..70 and 2040..2060
		n := SizeClass(t, max, "n")
		var p int
		if rapid.Bool().Draw(t, "longperiod") {
			p = rapid.IntRange(1980, 2060).Draw(t, "period")
		} else {
			p = rapid.IntRange(1, 70).Draw(t, "period")
		}
		sm := NewSM(rapid.Uint64().Draw(t, "seed"))
		unit := make([]byte, p)
		for i := range unit {
			unit[i] = byte(sm.Next())
		}
		b := make([]byte, n)
		for i := range b {
			b[i] = unit[i%p]
		}
		// optional single disturbance
		if n > 0 && rapid.Bool().Draw(t, "disturb") {
			b[rapid.IntRange(0, n-1).Draw(t, "dpos")] ^= 0x55
		}
		return b, "periodic"
	case 5: // runs
		nruns := rapid.IntRange(1, 40).Draw(t, "nruns")
		var b []byte
		for i := 0; i < nruns && len(b) < max; i++ {
			l := rapid.IntRange(1, 200).Draw(t, "runlen")
			c := rapid.Byte().Draw(t, "runbyte")
			for j := 0; j < l; j++ {
				b = append(b, c)
			}
		}
		return b, "runs"
	case 6: // a match of length 58..61 at distance d near 1, 59..61, 1986..1990, 2047..2049
		l := rapid.IntRange(56, 63).Draw(t, "mlen")
		d := rapid.SampledFrom([]int{1, 2, 3, 58, 59, 60, 61, 62, 1986, 1987, 1988, 1989, 1990, 2046, 2047, 2048, 2049, 2050}).Draw(t, "mdist")
		sm := NewSM(rapid.Uint64().Draw(t, "seed"))
		pre := rapid.IntRange(0, 80).Draw(t, "pre")
		b := make([]byte, 0, pre+d+l+10)
		for i := 0; i < pre; i++ {
			b = append(b, byte(sm.Next()))
		}
		start := len(b)
		for i := 0; i < d; i++ {
			// a high entropy filler so that no other match interferes
			b = append(b, byte(sm.Next()))
		}
		for i := 0; i < l; i++ {
			b = append(b, b[start+i%maxInt(d, 1)])
		}
		tail := rapid.IntRange(0, 70).Draw(t, "tail")
		for i := 0; i < tail; i++ {
			b = append(b, byte(sm.Next()))
		}
		return b, "boundary_match"
	case 7: // text from the golden files with splices
		g := Golden()
		var b []byte
		pieces := rapid.IntRange(1, 4).Draw(t, "pieces")
		for i := 0; i < pieces; i++ {
			src := g[rapid.IntRange(0, len(g)-1).Draw(t, "src")]
			n := SizeClass(t, minInt(max, len(src)), "n")
			off := rapid.IntRange(0, len(src)-n).Draw(t, "off")
			b = append(b, src[off:off+n]...)
		}
		if len(b) > max {
			b = b[:max]
		}
		return b, "golden_text"
	case 8: // > 40 KiB of high entropy literals to force the 0x8000 frequency rebuild
		n := rapid.IntRange(33000, maxInt(33001, minInt(max, 90000))).Draw(t, "n")
		if n > max {
			n = max
		}
		sm := NewSM(rapid.Uint64().Draw(t, "seed"))
		b := make([]byte, n)
		for i := range b {
			b[i] = byte(sm.Next())
		}
		return b, "rebuild"
	default: // mixture: alternating compressible and incompressible segments
		segs := rapid.IntRange(2, 6).Draw(t, "segs")
		sm := NewSM(rapid.Uint64().Draw(t, "seed"))
		var b []byte
		for i := 0; i < segs; i++ {
			n := rapid.IntRange(1, 3000).Draw(t, "segn")
			if i%2 == 0 {
				c := byte(sm.Next())
				for j := 0; j < n; j++ {
					b = append(b, c+byte(j%3))
				}
			} else {
				for j := 0; j < n; j++ {
					b = append(b, byte(sm.Next()))
				}
			}
		}
		if len(b) > max {
			b = b[:max]
		}
		return b, "mixture"
	}
}

// Schedule draws a chunk-size schedule (cycled by the consumer). It includes all-1-byte,
// sizes around 59/60/61, zero-length entries and large buffers.
func Schedule(t *rapid.T, label string) []int {
	switch rapid.IntRange(0, 5).Draw(t, label+"_kind") {
	case 0:
		return []int{1}
	case 1:
		return []int{1 << 20}
	case 2:
		return []int{rapid.SampledFrom([]int{2, 3, 7, 59, 60, 61, 255, 256, 1000, 2048, 4096}).Draw(t, label+"_fixed")}
	default:
		s := rapid.SliceOfN(rapid.OneOf(
			rapid.IntRange(0, 4),
			rapid.IntRange(55, 65),
			rapid.IntRange(1, 300),
			rapid.IntRange(1000, 5000),
		), 1, 8).Draw(t, label)
		for _, x := range s {
			if x > 0 {
				return s
			}
		}
		return append(s, 1) // a schedule must make progress
	}
}

func minInt(a, b int) int {
	if a < b {
		return a
	}
	return b
}
func maxInt(a, b int) int {
	if a > b {
		return a
	}
	return b
}

// Source is an io.Reader over Data that delivers it the way a socket, pipe or serial line does: in
// pieces of the scheduled sizes (Sched is cycled; entries <= 0 count as 1; an empty schedule delivers
// everything the caller asks for), never more than the caller's buffer. If FaultAt >= 0, the read
// that would start at that offset fails once with ErrTransient without consuming anything (a read
// deadline, EINTR); the data continues afterwards.
type Source struct {
	Data    []byte
	Sched   []int
	FaultAt int
	// EOFWithData: the read that delivers the last bytes returns them together with io.EOF (io.Reader allows it;
	// iotest.DataErrReader, some network and archive readers do it)
	EOFWithData bool
	pos, i      int
	faulted bool
	Calls   int
}

// ErrTransient is the error of the injected read fault.
var ErrTransient = errTransient{}

type errTransient struct{}

func (errTransient) Error() string   { return "injected transient read error" }
func (errTransient) Timeout() bool   { return true }
func (errTransient) Temporary() bool { return true }

// NewSource returns a Source without a fault.
func NewSource(data []byte, sched []int) *Source { return &Source{Data: data, Sched: sched, FaultAt: -1} }

func (s *Source) Read(p []byte) (int, error) {
	s.Calls++
	if len(p) == 0 {
		return 0, nil
	}
	if s.FaultAt >= 0 && !s.faulted && s.pos >= s.FaultAt {
		s.faulted = true
		return 0, ErrTransient
	}
	if s.pos >= len(s.Data) {
		return 0, io.EOF
	}
	n := len(p)
	if len(s.Sched) > 0 {
		c := s.Sched[s.i%len(s.Sched)]
		s.i++
		if c <= 0 {
			c = 1
		}
		if c < n {
			n = c
		}
	}
	if s.FaultAt >= 0 && !s.faulted && s.pos < s.FaultAt && s.pos+n > s.FaultAt {
		n = s.FaultAt - s.pos // stop in front of the fault position
	}
	if n > len(s.Data)-s.pos {
		n = len(s.Data) - s.pos
	}
	copy(p, s.Data[s.pos:s.pos+n])
	s.pos += n
	if s.EOFWithData && s.pos >= len(s.Data) && n > 0 {
		return n, io.EOF
	}
	return n, nil
}

// Faulted reports whether the injected fault was delivered.
func (s *Source) Faulted() bool { return s.faulted }

// SourceSchedule draws a delivery schedule for a Source: nil (everything at once, as bytes.Reader does),
// all 1-byte, short pieces at the start (inside the container header) and mixed sizes.
func SourceSchedule(t *rapid.T, label string) []int {
	switch rapid.IntRange(0, 5).Draw(t, label+"_kind") {
	case 0, 1:
		return nil
	case 2:
		return []int{1}
	case 3:
		// a short first piece (1..5 bytes: inside the 4/6 byte header), then large pieces
		return []int{rapid.IntRange(1, 5).Draw(t, label+"_first"), 1 << 20, 1 << 20, 1 << 20, 1 << 20, 1 << 20, 1 << 20, 1 << 20}
	default:
		return rapid.SliceOfN(rapid.SampledFrom([]int{1, 2, 3, 4, 5, 7, 60, 100, 1000, 4095, 4096, 4097}), 1, 6).Draw(t, label)
	}
}

// A schedule whose first entry is EOFMark asks for a Source that returns its last bytes together with io.EOF
// (the remaining entries are the delivery schedule; see SourceFor).
const EOFMark = -7

// SourceFor builds the Source for a schedule drawn by SourceScheduleEOF.
func SourceFor(data []byte, sched []int) *Source {
	if len(sched) > 0 && sched[0] == EOFMark {
		s := NewSource(data, sched[1:])
		s.EOFWithData = true
		return s
	}
	return NewSource(data, sched)
}

// SourceScheduleEOF is SourceSchedule plus, in a fifth of the non-nil cases, the data-with-EOF mode.
func SourceScheduleEOF(t *rapid.T, label string) []int {
	s := SourceSchedule(t, label)
	if rapid.IntRange(0, 4).Draw(t, label+"_eofdata") == 0 {
		if s == nil {
			s = []int{1 << 20}
		}
		return append([]int{EOFMark}, s...)
	}
	return s
}
