// Package msggen generates Winlink messages that are valid for fbb.Message.Validate, as a
// JSON-serialisable specification from which the *fbb.Message is built deterministically.
package msggen

import (
	"sort"
	"bytes"
	"fmt"
	"strings"
	"time"

	"github.com/la5nta/wl2k-go/fbb"
	"pgregory.net/rapid"

	"verif/internal/gen"
)

type FileSpec struct {
	Name string `json:"name"`
	Data []byte `json:"data"`
}

// Spec describes one message. If RawBody is non-nil the message is built by parsing rendered
// bytes (arbitrary body bytes); otherwise through the public setters with Body as text.
type Spec struct {
	MID     string     `json:"mid"`
	From    string     `json:"from"`
	To      []string   `json:"to"`
	Cc      []string   `json:"cc,omitempty"`
	Subject string     `json:"subject"`
	Body    string     `json:"body,omitempty"`
	RawBody []byte     `json:"raw_body,omitempty"`
	Files   []FileSpec `json:"files,omitempty"`
	Minute  int64      `json:"minute"` // minutes since 2000-01-01 00:00 UTC
	Type    string     `json:"type,omitempty"`
	Tuned   string     `json:"tuned,omitempty"` // information: the compressed-size boundary the content was padded to
}

var epoch = time.Date(2000, 1, 1, 0, 0, 0, 0, time.UTC)

// Build constructs the message.
func (s Spec) Build() (*fbb.Message, error) {
	t := fbb.MsgType(s.Type)
	m := fbb.NewMessage(t, s.From)
	m.Header.Set("Mid", s.MID)
	m.SetDate(epoch.Add(time.Duration(s.Minute) * time.Minute))
	m.AddTo(s.To...)
	m.AddCc(s.Cc...)
	m.SetSubject(s.Subject)
	if s.RawBody == nil {
		if err := m.SetBody(s.Body); err != nil {
			return nil, err
		}
		for _, f := range s.Files {
			m.AddFile(fbb.NewFile(f.Name, f.Data))
		}
		return m, nil
	}
	// arbitrary body bytes: render the wire format ourselves and let the library parse it
	for _, f := range s.Files {
		m.AddFile(fbb.NewFile(f.Name, f.Data))
	}
	m.Header.Set("Body", fmt.Sprint(len(s.RawBody)))
	var hdr bytes.Buffer
	if err := m.Header.Write(&hdr); err != nil {
		return nil, err
	}
	var buf bytes.Buffer
	buf.Write(hdr.Bytes())
	buf.WriteString("\r\n")
	buf.Write(s.RawBody)
	if len(s.Files) > 0 {
		buf.WriteString("\r\n")
	}
	for _, f := range s.Files {
		buf.Write(f.Data)
		buf.WriteString("\r\n")
	}
	p := new(fbb.Message)
	if err := p.ReadFrom(bytes.NewReader(buf.Bytes())); err != nil {
		return nil, fmt.Errorf("parse of rendered message: %v", err)
	}
	return p, nil
}

const alnum = "ABCDEFGHIJKLMNOPQRSTUVWXYZ0123456789"

// MID draws a 1..12 character alphanumeric identifier, unique within used.
func MID(t *rapid.T, used map[string]bool) string {
	// every sixth identifier (when there is one to copy) differs from an earlier one of the scenario only in the
	// case of its letters: identifiers are compared byte by byte, "abc123" and "ABC123" are two messages
	if len(used) > 0 && rapid.IntRange(0, 5).Draw(t, "mid_casevariant") == 0 {
		var keys []string
		for k := range used {
			keys = append(keys, k)
		}
		sort.Strings(keys)
		k := keys[rapid.IntRange(0, len(keys)-1).Draw(t, "mid_of")]
		for _, v := range []string{strings.ToLower(k), strings.ToUpper(k), strings.ToLower(k[:1]) + k[1:]} {
			if !used[v] {
				used[v] = true
				return v
			}
		}
	}
	for try := 0; ; try++ {
		var n int
		switch rapid.IntRange(0, 3).Draw(t, "midlen_cls") {
		case 0:
			n = rapid.IntRange(1, 2).Draw(t, "midlen")
		case 1:
			n = 12
		default:
			n = rapid.IntRange(3, 12).Draw(t, "midlen")
		}
		b := make([]byte, n)
		for i := range b {
			b[i] = alnum[rapid.IntRange(0, len(alnum)-1).Draw(t, "midch")]
		}
		if try > 20 {
			b = []byte(fmt.Sprintf("U%d", len(used)))
		}
		if !used[string(b)] {
			used[string(b)] = true
			return string(b)
		}
	}
}

var precedence = []string{"", "", "", "//WL2K Z/ ", "//WL2K O/ ", "//WL2K P/ ", "//WL2K R/ "}

func latin1Rune(t *rapid.T, label string) rune {
	if rapid.Bool().Draw(t, label+"_hi") {
		return rune(rapid.IntRange(0xA1, 0xFF).Draw(t, label))
	}
	return rune(rapid.IntRange(0x21, 0x7E).Draw(t, label))
}

// Text draws a short header text (subject / file name) over Latin-1: printable ASCII and
// 0xA1..0xFF, no leading/trailing white space, no literal "=?" (RFC 2047 marker).
func Text(t *rapid.T, label string, maxRunes int, density int) string {
	var n int
	switch rapid.IntRange(0, 3).Draw(t, label+"_cls") {
	case 0:
		n = 1
	case 1:
		n = maxRunes
	default:
		n = rapid.IntRange(1, maxRunes).Draw(t, label+"_n")
	}
	var sb strings.Builder
	for i := 0; i < n; i++ {
		var r rune
		switch {
		case density == 0:
			r = rune(rapid.IntRange(0x21, 0x7E).Draw(t, label+"_c"))
		case density == 100:
			r = rune(rapid.IntRange(0xA1, 0xFF).Draw(t, label+"_c"))
		default:
			r = latin1Rune(t, label+"_c")
		}
		if i > 0 && i < n-1 && rapid.IntRange(0, 7).Draw(t, label+"_sp") == 0 {
			r = ' '
		}
		sb.WriteRune(r)
	}
	s := strings.ReplaceAll(sb.String(), "=?", "=.")
	return s
}

// Gen draws one valid message spec. from/to are callsigns; big bounds attachment/body sizes.
func Gen(t *rapid.T, used map[string]bool, from string, to string, big int) Spec {
	s := Spec{MID: MID(t, used), From: from, To: []string{to}, Minute: int64(rapid.IntRange(0, 20*365*24*60).Draw(t, "minute"))}
	if rapid.IntRange(0, 4).Draw(t, "extra_rcpt") == 0 {
		s.To = append(s.To, rapid.SampledFrom([]string{"LA1B", "N0CALL-7", "user@example.com", "SMTP:a@b.no"}).Draw(t, "to2"))
	}
	if rapid.IntRange(0, 5).Draw(t, "has_cc") == 0 {
		s.Cc = []string{rapid.SampledFrom([]string{"LA5NTA", "w1aw@winlink.org", "x@y.org"}).Draw(t, "cc")}
	}
	dens := rapid.SampledFrom([]int{0, 0, 50, 100}).Draw(t, "subj_density")
	prec := rapid.SampledFrom(precedence).Draw(t, "precedence")
	// subject: fits the 128 byte header limit after Q-encoding
	maxRunes := 100
	if dens > 0 {
		maxRunes = 45
	}
	// a subject that ends in digits looks, at the end of the transfer's title field, like the offset field behind it
	suffix := ""
	if rapid.IntRange(0, 7).Draw(t, "subj_digits") == 0 {
		suffix = rapid.SampledFrom([]string{" 0", "0", " 00", " 100", "-0", " 7", " 0 0"}).Draw(t, "subj_suffix")
	}
	for {
		s.Subject = prec + Text(t, "subject", maxRunes, dens) + suffix
		probe := fbb.NewMessage(fbb.Private, from)
		probe.SetSubject(s.Subject)
		if l := len(probe.Header.Get("Subject")); l > 0 && l <= 128 {
			break
		}
		maxRunes = maxRunes * 9 / 10
		if maxRunes < 1 {
			s.Subject = "x"
			break
		}
	}
	// body
	switch rapid.IntRange(0, 4).Draw(t, "body_kind") {
	case 4: // a table / indented text: runs of blanks (the LZHUF window starts out filled with blanks)
		rows := rapid.IntRange(1, 12).Draw(t, "rows")
		var sb strings.Builder
		for i := 0; i < rows; i++ {
			cols := rapid.IntRange(1, 4).Draw(t, "cols")
			sb.WriteString(strings.Repeat(" ", rapid.IntRange(0, 12).Draw(t, "indent")))
			for j := 0; j < cols; j++ {
				sb.WriteString(rapid.SampledFrom([]string{"Station", "Band", "Report", "LA1B", "59", "20m", "x", "QTH"}).Draw(t, "cell"))
				sb.WriteString(strings.Repeat(" ", rapid.IntRange(2, 70).Draw(t, "gap")))
			}
			sb.WriteString("|\r\n")
		}
		s.Body = sb.String()
	case 0: // short text
		s.Body = rapid.StringMatching(`[ -~]{1,80}`).Draw(t, "body")
		if strings.TrimSpace(s.Body) == "" {
			s.Body = "x"
		}
	case 1: // multi-line Latin-1 text
		lines := rapid.IntRange(1, 30).Draw(t, "lines")
		var sb strings.Builder
		for i := 0; i < lines; i++ {
			n := rapid.IntRange(0, 120).Draw(t, "linelen")
			for j := 0; j < n; j++ {
				if rapid.IntRange(0, 9).Draw(t, "hi") == 0 {
					sb.WriteRune(rune(rapid.IntRange(0xA1, 0xFF).Draw(t, "r")))
				} else {
					sb.WriteRune(rune(rapid.IntRange(0x20, 0x7E).Draw(t, "r")))
				}
			}
			sb.WriteString(rapid.SampledFrom([]string{"\n", "\r\n"}).Draw(t, "nl"))
		}
		s.Body = sb.String() + "end"
	case 2: // arbitrary bytes
		b, _ := gen.Bytes(t, big)
		if len(b) == 0 {
			b = []byte{0}
		}
		s.RawBody = b
	default: // larger text from the golden files
		g := gen.Golden()
		src := g[rapid.IntRange(0, len(g)-1).Draw(t, "gsrc")]
		n := rapid.IntRange(1, minInt(len(src), big)).Draw(t, "gn")
		off := rapid.IntRange(0, len(src)-n).Draw(t, "goff")
		s.RawBody = append([]byte(nil), src[off:off+n]...)
	}
	// attachments
	nf := rapid.SampledFrom([]int{0, 0, 0, 1, 1, 2, 3}).Draw(t, "nfiles")
	for i := 0; i < nf; i++ {
		var data []byte
		switch rapid.IntRange(0, 4).Draw(t, "file_kind") {
		case 0:
			data = []byte{}
		case 1:
			data = []byte("\r\n\x00\xff\r\n")
		default:
			data, _ = gen.Bytes(t, big)
		}
		name := Text(t, "fname", 40, rapid.SampledFrom([]int{0, 0, 50, 100}).Draw(t, "fname_density"))
		name = strings.ReplaceAll(name, "/", "_")
		s.Files = append(s.Files, FileSpec{Name: name, Data: data})
	}
	// a zero-padded attachment whose marker bytes sit at chosen offsets of the SERIALISED message modulo the 2048
	// byte LZHUF window (the places where the codec's ring buffer wraps and where its look-ahead ends)
	if big >= 3000 && rapid.IntRange(0, 9).Draw(t, "sparse_file") == 0 {
		n := rapid.IntRange(2200, minInt(big, 9000)).Draw(t, "sparse_n")
		fill := rapid.SampledFrom([]byte{0, 0, ' '}).Draw(t, "sparse_fill")
		r := rapid.SampledFrom([]int{117, 118, 119, 59, 60, 61, 0, 1, 2047}).Draw(t, "sparse_residue")
		two := rapid.Bool().Draw(t, "sparse_two")
		s.Files = append(s.Files, FileSpec{Name: "padded.bin", Data: make([]byte, n)})
		if m, err := s.Build(); err == nil {
			if ser, err := m.Bytes(); err == nil {
				off := len(ser) - 2 - n // the last file is followed by CRLF only
				data := make([]byte, n)
				for i := range data {
					data[i] = fill
				}
				for i := ((r-off)%2048 + 2048) % 2048; i < n; i += 2048 {
					data[i] = fill ^ 1
					if two && i+2 < n {
						data[i+2] = fill ^ 2
					}
				}
				s.Files[len(s.Files)-1].Data = data
			}
		}
	}
	// size boundaries of the transfer: the sender cuts the compressed message into blocks of 125 bytes (other
	// implementations use up to 256), the LZHUF reader pulls its input in 4096 byte fills. In a fifth of the
	// messages the content is padded (deterministically, the result is part of the Spec) until the LZHUF
	// compressed size sits exactly on such a boundary.
	if k := rapid.IntRange(0, 14).Draw(t, "size_boundary"); k < 3 {
		tgt := [][2]int{{125, 0}, {125, 1}, {125, 124}}[rapid.IntRange(0, 2).Draw(t, "boundary_kind")]
		if k == 0 {
			tgt = [][2]int{{256, 0}, {250, 0}, {4096, 6}, {4096, 5}}[rapid.IntRange(0, 3).Draw(t, "boundary_kind2")]
		}
		if tgt[0] <= big || big >= 1000 {
			s.Tune(tgt[0], tgt[1])
		}
	}
	return s
}

// CompressedSize is the LZHUF-compressed size of the message as the library proposes it (0 on error).
func (s Spec) CompressedSize() int {
	m, err := s.Build()
	if err != nil {
		return 0
	}
	p, err := m.Proposal(fbb.Wl2kProposal)
	if err != nil {
		return 0
	}
	return p.CompressedSize()
}

// Tune pads the body with incompressible printable bytes until CompressedSize() % mod == res (best effort:
// a few compress-and-adjust rounds; each padding byte adds about one compressed byte). Deterministic.
func (s *Spec) Tune(mod, res int) bool {
	x := uint64(len(s.MID))*0x9E3779B97F4A7C15 + uint64(mod)*31 + uint64(res)
	for _, c := range []byte(s.MID) {
		x = x*1099511628211 + uint64(c)
	}
	next := func() byte {
		x ^= x << 13
		x ^= x >> 7
		x ^= x << 17
		return byte('!' + x%94) // printable ASCII without space: valid in a text body and in raw bytes
	}
	for round := 0; round < 60; round++ {
		c := s.CompressedSize()
		if c == 0 {
			return false
		}
		d := ((res-c)%mod + mod) % mod
		if d == 0 {
			s.Tuned = fmt.Sprintf("csize%%%d==%d", mod, res)
			return true
		}
		n := d * 9 / 10
		if n < 1 {
			n = 1
		}
		pad := make([]byte, n)
		for i := range pad {
			pad[i] = next()
		}
		if s.RawBody != nil {
			s.RawBody = append(s.RawBody, pad...)
		} else {
			// keep text lines short (SetBody wraps at 1000 bytes, which would add CRLFs)
			if len(s.Body) > 0 && !strings.HasSuffix(s.Body, "\n") {
				s.Body += "\n"
			}
			for len(pad) > 0 {
				k := minInt(len(pad), 70)
				s.Body += string(pad[:k])
				pad = pad[k:]
				if len(pad) > 0 {
					s.Body += "\n"
				}
			}
		}
	}
	return false
}

func minInt(a, b int) int {
	if a < b {
		return a
	}
	return b
}
