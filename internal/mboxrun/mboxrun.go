// Package mboxrun starts the cmd/mboxop helper (one mailbox operation in its own process) for
// the mailbox properties and provides their scratch directories on tmpfs.
package mboxrun

import (
	"bytes"
	"encoding/json"
	"fmt"
	"os"
	"os/exec"
	"path/filepath"
	"sync"
)

// Spec mirrors cmd/mboxop.Spec.
type Spec struct {
	Chroot   string `json:"chroot,omitempty"`
	Mbox     string `json:"mbox"`
	SendOnly bool   `json:"send_only,omitempty"`
	Prepare  bool   `json:"prepare,omitempty"`
	Op       string `json:"op"`
	Msg      []byte `json:"msg,omitempty"`
	MID      string `json:"mid,omitempty"`
	Folder   string `json:"folder,omitempty"`
	Unread   bool   `json:"unread,omitempty"`
	Rejected bool   `json:"rejected,omitempty"`
	Ext      string `json:"ext,omitempty"` // set_unread: spelling of the stored file's extension (default ".b2f")
	// FirstMbox: the handler is created and prepared for this mailbox first and then pointed at Mbox through its
	// exported MBoxPath field (one long-lived handler serving several call signs)
	FirstMbox string `json:"first_mbox,omitempty"`
	// Msg2 (process_inbound): a second message handed over in the same ProcessInbound call, after Msg
	Msg2 []byte `json:"msg2,omitempty"`
}

// Result mirrors cmd/mboxop.Result plus what the parent saw of the process.
type Result struct {
	Returned   bool   `json:"returned"`
	ParseErr   string `json:"parse_err,omitempty"`
	PrepareErr string `json:"prepare_err,omitempty"`
	Err        string `json:"err,omitempty"`
	Answer     string `json:"answer,omitempty"`
	Panic      string `json:"panic,omitempty"`

	Exit   int    `json:"-"` // exit status (-1: killed by a signal)
	Output string `json:"-"` // stdout+stderr
}

var (
	once    sync.Once
	binPath string
	binErr  error
)

// Helper returns the path of the mboxop binary: the one the driver built from the current tree
// (VERIF_HELPER_MBOXOP) or, when a test is started by hand, one built now into a temp dir.
func Helper() (string, error) {
	once.Do(func() {
		if p := os.Getenv("VERIF_HELPER_MBOXOP"); p != "" {
			binPath = p
			return
		}
		root := os.Getenv("VERIF_ROOT")
		if root == "" {
			root = "/verif"
		}
		dir, err := os.MkdirTemp("", "mboxop-")
		if err != nil {
			binErr = err
			return
		}
		gobin := "/root/go/pkg/mod/golang.org/toolchain@v0.0.1-go1.24.0.linux-amd64/bin/go"
		if _, err := os.Stat(gobin); err != nil {
			gobin = "go"
		}
		cmd := exec.Command(gobin, "build", "-o", filepath.Join(dir, "mboxop"), "./cmd/mboxop")
		cmd.Dir = root
		cmd.Env = append(os.Environ(), "GOFLAGS=-mod=mod", "GOPROXY=off", "GOSUMDB=off", "GOTOOLCHAIN=local")
		if out, err := cmd.CombinedOutput(); err != nil {
			binErr = fmt.Errorf("cannot build cmd/mboxop: %v\n%s", err, out)
			return
		}
		binPath = filepath.Join(dir, "mboxop")
	})
	return binPath, binErr
}

// WriteSpec stores the spec where the helper will read it.
func WriteSpec(path string, s Spec) error {
	b, err := json.Marshal(s)
	if err != nil {
		return err
	}
	return os.WriteFile(path, b, 0o644)
}

// Run executes the helper on specPath, optionally behind a wrapper command (strace ...).
func Run(specPath string, wrapper ...string) (Result, error) {
	var res Result
	bin, err := Helper()
	if err != nil {
		return res, err
	}
	argv := append(append([]string{}, wrapper...), bin, specPath)
	cmd := exec.Command(argv[0], argv[1:]...)
	var out, errb bytes.Buffer
	cmd.Stdout = &out
	cmd.Stderr = &errb
	cmd.Dir = filepath.Dir(specPath)
	err = cmd.Run()
	if cmd.ProcessState == nil {
		return res, fmt.Errorf("helper did not start: %v", err)
	}
	if _, ok := err.(*exec.ExitError); err != nil && !ok {
		return res, fmt.Errorf("helper did not start: %v", err)
	}
	res.Exit = cmd.ProcessState.ExitCode()
	res.Output = out.String() + errb.String()
	trimmed := bytes.TrimSpace(out.Bytes())
	line := trimmed[bytes.LastIndexByte(trimmed, '\n')+1:]
	var r Result
	if len(line) > 0 && json.Unmarshal(line, &r) == nil {
		r.Exit, r.Output = res.Exit, res.Output
		res = r
	}
	if res.Exit == 3 {
		return res, fmt.Errorf("helper rejected the spec: %s", res.Output)
	}
	return res, nil
}

// TempBase makes a fresh scratch directory, on /dev/shm when there is one.
func TempBase(prefix string) (string, error) {
	parent := ""
	if st, err := os.Stat("/dev/shm"); err == nil && st.IsDir() {
		parent = "/dev/shm"
	}
	return os.MkdirTemp(parent, prefix)
}
