// Package fstrace records the file-system system calls of a child process with strace, keeps the
// calls that touch one directory tree, and replays them — completely or up to any point, with
// any prefix of a write — onto an in-memory copy of that tree. It is the fault injector of C11:
// a process that dies leaves exactly the effects of a prefix of its system calls (the kernel
// applies them in order; a write may be cut short).
//
// The replayer understands open/openat/creat (O_CREAT, O_TRUNC, O_APPEND, O_EXCL), read, pread64,
// lseek, write, pwrite64, writev, close, dup*, rename*, unlink*, mkdir*, rmdir, truncate, ftruncate,
// link*, fsync, fdatasync, copy_file_range and sendfile. Anything else that would change the tree
// (symlink, fallocate, O_TMPFILE, RENAME_EXCHANGE, ...) is reported as an error, never ignored.
package fstrace

import (
	"syscall"
	"bufio"
	"fmt"
	"os"
	"path"
	"path/filepath"
	"regexp"
	"sort"
	"strconv"
	"strings"
)

// Syscalls is the -e trace= set.
const Syscalls = "open,openat,openat2,creat,read,pread64,write,pwrite64,writev,pwritev,pwritev2,lseek,close,dup,dup2,dup3,rename,renameat,renameat2,unlink,unlinkat,mkdir,mkdirat,rmdir,truncate,ftruncate,link,linkat,symlink,symlinkat,fsync,fdatasync,copy_file_range,sendfile,fallocate,mknod,mknodat,chdir,fchdir,clone,clone3,fork,vfork"

// Command returns the strace argv prefix that writes the trace to out.
func Command(out string) []string {
	return []string{"strace", "-f", "-ttt", "-y", "-xx", "-s", "1048576", "-o", out, "-e", "trace=" + Syscalls}
}

// Event is one successful system call on the tree.
type Event struct {
	Name     string
	Path     string // cleaned absolute path of the (first) file operand ("" for pure fd calls)
	Path2    string // second path operand (rename, link)
	FD       int    // fd operand, or the fd returned by open/dup
	FD2      int    // second fd (dup2 target, copy source)
	Flags    string // open flags / unlinkat flags / renameat2 flags
	Data     []byte // bytes written (already cut to the count the kernel reported)
	Off      int64  // explicit offset (pwrite64, pread64), length (truncate), result (lseek)
	HasOff   bool
	Ret      int64
	Line     int
	Split    bool // was logged as <unfinished ...>/<... resumed>
	Mutating bool // changes the tree (set by the replayer's classification)
}

func (e Event) String() string {
	s := e.Name + "("
	if e.Path != "" {
		s += e.Path
	} else {
		s += fmt.Sprintf("fd %d", e.FD)
	}
	if e.Path2 != "" {
		s += " -> " + e.Path2
	}
	if e.Flags != "" {
		s += ", " + e.Flags
	}
	if e.Data != nil {
		s += fmt.Sprintf(", %d bytes", len(e.Data))
	}
	return s + ")"
}

var lineRe = regexp.MustCompile(`^(\d+)\s+\d+\.\d+\s+(.*)$`)
var resumedRe = regexp.MustCompile(`^<\.\.\. (\w+) resumed>(.*)$`)

type rawCall struct {
	name  string
	args  []string
	ret   string
	line  int
	split bool
}

// splitArgs splits at top-level ", " (strings and <...> annotations are hex-escaped by -xx, so
// quotes and angle brackets nest trivially).
func splitArgs(s string) []string {
	var out []string
	depth, inq, inang := 0, false, false
	start := 0
	for i := 0; i < len(s); i++ {
		c := s[i]
		switch {
		case inq:
			if c == '\\' {
				i++
			} else if c == '"' {
				inq = false
			}
		case inang:
			if c == '>' {
				inang = false
			}
		case c == '"':
			inq = true
		case c == '<':
			inang = true
		case c == '[' || c == '{' || c == '(':
			depth++
		case c == ']' || c == '}' || c == ')':
			depth--
		case c == ',' && depth == 0:
			out = append(out, strings.TrimSpace(s[start:i]))
			start = i + 1
		}
	}
	if strings.TrimSpace(s[start:]) != "" || len(out) > 0 {
		out = append(out, strings.TrimSpace(s[start:]))
	}
	return out
}

func unhex(s string) ([]byte, error) {
	s = strings.TrimSpace(s)
	if strings.HasSuffix(s, "...") {
		return nil, fmt.Errorf("string truncated by strace: %.40s", s)
	}
	if len(s) < 2 || s[0] != '"' || s[len(s)-1] != '"' {
		return nil, fmt.Errorf("not a string: %.40s", s)
	}
	return unhexBody(s[1 : len(s)-1])
}

func unhexBody(s string) ([]byte, error) {
	out := make([]byte, 0, len(s)/4)
	for i := 0; i < len(s); {
		if s[i] == '\\' && i+3 < len(s)+0 && s[i+1] == 'x' {
			v, err := strconv.ParseUint(s[i+2:i+4], 16, 8)
			if err != nil {
				return nil, err
			}
			out = append(out, byte(v))
			i += 4
			continue
		}
		out = append(out, s[i])
		i++
	}
	return out, nil
}

// fdArg decodes `5<\x2f...>` or `AT_FDCWD<...>`; fd is -100 for AT_FDCWD.
func fdArg(s string) (fd int, p string, err error) {
	i := strings.IndexByte(s, '<')
	num := s
	if i >= 0 {
		num = s[:i]
		j := strings.LastIndexByte(s, '>')
		if j < i {
			return 0, "", fmt.Errorf("bad fd annotation %.40s", s)
		}
		b, err := unhexBody(s[i+1 : j])
		if err != nil {
			return 0, "", err
		}
		p = strings.TrimSuffix(string(b), " (deleted)")
	}
	if num == "AT_FDCWD" {
		return -100, p, nil
	}
	fd, err = strconv.Atoi(num)
	return fd, p, err
}

func under(root, p string) bool { return p == root || strings.HasPrefix(p, root+"/") }

// Parse reads an strace log and returns the successful calls that name a path under root or
// act on a descriptor of such a path, in log order. cwd is the working directory the traced
// command started in (relative operands of the non-*at calls are resolved against it; chdir is
// followed per process, children inherit at fork).
func Parse(tracePath, root, cwd string) ([]Event, []string, error) {
	return ParseAlias(tracePath, root, cwd, nil)
}

// ParseAlias is Parse for a tree in which directories are symbolic links to directories outside the root: alias
// maps such an outside directory to the path under root it is reached by (strace -y annotates descriptors with the
// resolved path; the program's own path operands stay as written).
func ParseAlias(tracePath, root, cwd string, alias map[string]string) ([]Event, []string, error) {
	root = path.Clean(root)
	f, err := os.Open(tracePath)
	if err != nil {
		return nil, nil, err
	}
	defer f.Close()
	sc := bufio.NewScanner(f)
	sc.Buffer(make([]byte, 1<<20), 64<<20)
	pending := map[string]string{}
	var events []Event
	var notes []string
	ln := 0
	cwds := map[string]string{}
	for sc.Scan() {
		ln++
		m := lineRe.FindStringSubmatch(sc.Text())
		if m == nil {
			continue
		}
		pid, body := m[1], m[2]
		if strings.HasPrefix(body, "+++") || strings.HasPrefix(body, "---") {
			continue
		}
		split := false
		if strings.HasSuffix(body, "<unfinished ...>") {
			pending[pid] = strings.TrimSuffix(body, "<unfinished ...>")
			continue
		}
		if r := resumedRe.FindStringSubmatch(body); r != nil {
			body = pending[pid] + r[2]
			delete(pending, pid)
			split = true
		}
		open := strings.IndexByte(body, '(')
		eq := strings.LastIndex(body, ") = ")
		if open < 0 || eq < open {
			continue
		}
		rc := rawCall{name: body[:open], args: splitArgs(body[open+1 : eq]), ret: strings.TrimSpace(body[eq+4:]), line: ln, split: split}
		if strings.HasPrefix(rc.ret, "-1 ") || strings.HasPrefix(rc.ret, "?") {
			continue // failed: no effect
		}
		if _, seen := cwds[pid]; !seen {
			cwds[pid] = cwd
		}
		switch rc.name {
		case "clone", "clone3", "fork", "vfork":
			cwds[strconv.FormatInt(retNum(rc.ret), 10)] = cwds[pid]
			continue
		case "chdir":
			if len(rc.args) == 1 {
				if b, err := unhex(rc.args[0]); err == nil {
					cwds[pid] = resolve(cwds[pid], string(b))
				}
			}
			continue
		case "fchdir":
			if len(rc.args) == 1 {
				if _, p, err := fdArg(rc.args[0]); err == nil && p != "" {
					cwds[pid] = p
				}
			}
			continue
		}
		ev, ok, err := decode(rc, root, cwds[pid], alias)
		if err != nil {
			return nil, notes, fmt.Errorf("trace line %d (%s): %v", ln, rc.name, err)
		}
		if ok {
			if split {
				notes = append(notes, fmt.Sprintf("line %d: %s was logged unfinished/resumed", ln, rc.name))
			}
			events = append(events, ev)
		}
	}
	return events, notes, sc.Err()
}

func retNum(s string) int64 {
	if i := strings.IndexAny(s, "< "); i >= 0 {
		s = s[:i]
	}
	v, _ := strconv.ParseInt(s, 0, 64)
	return v
}

func resolve(dir, p string) string {
	if strings.HasPrefix(p, "/") {
		return path.Clean(p)
	}
	return path.Clean(dir + "/" + p)
}

func decode(rc rawCall, root, cwd string, alias map[string]string) (ev Event, keep bool, err error) {
	canon := func(p string) string {
		for out, in := range alias {
			if under(out, p) {
				return in + p[len(out):]
			}
		}
		return p
	}
	ev = Event{Name: rc.name, Ret: retNum(rc.ret), Line: rc.line, Split: rc.split, FD: -1, FD2: -1}
	a := rc.args
	need := func(n int) error {
		if len(a) < n {
			return fmt.Errorf("expected %d arguments, got %d", n, len(a))
		}
		return nil
	}
	pathAt := func(dirArg, pArg string) (string, error) {
		_, dir, err := fdArg(dirArg)
		if err != nil {
			return "", err
		}
		b, err := unhex(pArg)
		if err != nil {
			return "", err
		}
		return resolve(canon(dir), string(b)), nil
	}
	plain := func(pArg string) (string, error) {
		b, err := unhex(pArg)
		if err != nil {
			return "", err
		}
		if !strings.HasPrefix(string(b), "/") && cwd == "" {
			return "", fmt.Errorf("relative path %q without a directory descriptor", b)
		}
		return resolve(cwd, string(b)), nil
	}
	fdOnly := func(arg string) (bool, error) {
		fd, p, err := fdArg(arg)
		if err != nil {
			return false, err
		}
		ev.FD, ev.Path = fd, ""
		return under(root, canon(p)), nil
	}
	switch rc.name {
	case "openat", "openat2":
		if err = need(3); err != nil {
			return
		}
		if ev.Path, err = pathAt(a[0], a[1]); err != nil {
			return
		}
		ev.Flags = a[2]
		ev.FD = int(ev.Ret)
		return ev, under(root, ev.Path), nil
	case "open":
		if err = need(2); err != nil {
			return
		}
		if ev.Path, err = plain(a[0]); err != nil {
			// a relative open: only relevant if the result is under root
			if _, p, e2 := fdArg(rc.ret); e2 == nil && !under(root, p) {
				return ev, false, nil
			}
			return
		}
		ev.Flags, ev.FD = a[1], int(ev.Ret)
		return ev, under(root, ev.Path), nil
	case "creat":
		if ev.Path, err = plain(a[0]); err != nil {
			return
		}
		ev.Name, ev.Flags, ev.FD = "open", "O_WRONLY|O_CREAT|O_TRUNC", int(ev.Ret)
		return ev, under(root, ev.Path), nil
	case "read", "pread64":
		if err = need(3); err != nil {
			return
		}
		if keep, err = fdOnly(a[0]); err != nil || !keep {
			return ev, false, err
		}
		if rc.name == "pread64" {
			if err = need(4); err != nil {
				return
			}
			ev.Off, _ = strconv.ParseInt(a[3], 0, 64)
			ev.HasOff = true
		}
		return ev, true, nil
	case "write", "pwrite64":
		if err = need(3); err != nil {
			return
		}
		if keep, err = fdOnly(a[0]); err != nil || !keep {
			return ev, false, err
		}
		if ev.Data, err = unhex(a[1]); err != nil {
			return
		}
		if int64(len(ev.Data)) < ev.Ret {
			return ev, false, fmt.Errorf("write of %d bytes logged with %d", ev.Ret, len(ev.Data))
		}
		ev.Data = ev.Data[:ev.Ret]
		if rc.name == "pwrite64" {
			if err = need(4); err != nil {
				return
			}
			ev.Off, _ = strconv.ParseInt(a[3], 0, 64)
			ev.HasOff = true
		}
		return ev, true, nil
	case "writev", "pwritev", "pwritev2":
		if keep, err = fdOnly(a[0]); err != nil || !keep {
			return ev, false, err
		}
		if rc.name != "writev" {
			return ev, false, fmt.Errorf("%s is not modelled", rc.name)
		}
		for _, q := range regexp.MustCompile(`iov_base="((?:\\x[0-9a-f]{2})*)"(\.\.\.)?`).FindAllStringSubmatch(a[1], -1) {
			if q[2] != "" {
				return ev, false, fmt.Errorf("iov truncated by strace")
			}
			b, e2 := unhexBody(q[1])
			if e2 != nil {
				return ev, false, e2
			}
			ev.Data = append(ev.Data, b...)
		}
		if int64(len(ev.Data)) < ev.Ret {
			return ev, false, fmt.Errorf("writev of %d bytes logged with %d", ev.Ret, len(ev.Data))
		}
		ev.Name, ev.Data = "write", ev.Data[:ev.Ret]
		return ev, true, nil
	case "lseek":
		if keep, err = fdOnly(a[0]); err != nil || !keep {
			return ev, false, err
		}
		ev.Off, ev.HasOff = ev.Ret, true
		return ev, true, nil
	case "close", "fsync", "fdatasync":
		if keep, err = fdOnly(a[0]); err != nil || !keep {
			return ev, false, err
		}
		return ev, true, nil
	case "dup", "dup2", "dup3":
		if keep, err = fdOnly(a[0]); err != nil || !keep {
			return ev, false, err
		}
		ev.Name, ev.FD2, ev.FD = "dup", ev.FD, int(ev.Ret)
		return ev, true, nil
	case "ftruncate":
		if err = need(2); err != nil {
			return
		}
		if keep, err = fdOnly(a[0]); err != nil || !keep {
			return ev, false, err
		}
		ev.Off, _ = strconv.ParseInt(a[1], 0, 64)
		return ev, true, nil
	case "truncate":
		if err = need(2); err != nil {
			return
		}
		if ev.Path, err = plain(a[0]); err != nil {
			return
		}
		ev.Off, _ = strconv.ParseInt(a[1], 0, 64)
		return ev, under(root, ev.Path), nil
	case "rename", "link":
		if err = need(2); err != nil {
			return
		}
		if ev.Path, err = plain(a[0]); err != nil {
			return
		}
		if ev.Path2, err = plain(a[1]); err != nil {
			return
		}
		return ev, under(root, ev.Path) || under(root, ev.Path2), nil
	case "renameat", "renameat2", "linkat":
		if err = need(4); err != nil {
			return
		}
		if ev.Path, err = pathAt(a[0], a[1]); err != nil {
			return
		}
		if ev.Path2, err = pathAt(a[2], a[3]); err != nil {
			return
		}
		if len(a) > 4 {
			ev.Flags = a[4]
		}
		if rc.name == "linkat" {
			ev.Name = "link"
		} else {
			ev.Name = "rename"
		}
		return ev, under(root, ev.Path) || under(root, ev.Path2), nil
	case "unlink", "rmdir", "mkdir":
		if ev.Path, err = plain(a[0]); err != nil {
			return
		}
		return ev, under(root, ev.Path), nil
	case "unlinkat":
		if err = need(3); err != nil {
			return
		}
		if ev.Path, err = pathAt(a[0], a[1]); err != nil {
			return
		}
		ev.Name = "unlink"
		if strings.Contains(a[2], "AT_REMOVEDIR") {
			ev.Name = "rmdir"
		}
		return ev, under(root, ev.Path), nil
	case "mkdirat":
		if err = need(2); err != nil {
			return
		}
		if ev.Path, err = pathAt(a[0], a[1]); err != nil {
			return
		}
		ev.Name = "mkdir"
		return ev, under(root, ev.Path), nil
	case "copy_file_range":
		// copy_file_range(in, offin, out, offout, len, flags)
		if err = need(6); err != nil {
			return
		}
		fdin, pin, e1 := fdArg(a[0])
		fdout, pout, e2 := fdArg(a[2])
		if e1 != nil || e2 != nil {
			return ev, false, fmt.Errorf("bad descriptors")
		}
		if !under(root, pout) {
			return ev, false, nil
		}
		if !under(root, pin) || a[1] != "NULL" || a[3] != "NULL" {
			return ev, false, fmt.Errorf("copy_file_range form not modelled: %v", a)
		}
		ev.Name, ev.FD, ev.FD2 = "copy", fdout, fdin
		return ev, true, nil
	case "sendfile":
		// sendfile(out, in, offset, count)
		if err = need(4); err != nil {
			return
		}
		fdout, pout, e1 := fdArg(a[0])
		fdin, pin, e2 := fdArg(a[1])
		if e1 != nil || e2 != nil {
			return ev, false, fmt.Errorf("bad descriptors")
		}
		if !under(root, pout) {
			return ev, false, nil
		}
		if !under(root, pin) || a[2] != "NULL" {
			return ev, false, fmt.Errorf("sendfile form not modelled: %v", a)
		}
		ev.Name, ev.FD, ev.FD2 = "copy", fdout, fdin
		return ev, true, nil
	case "symlink", "symlinkat", "fallocate", "mknod", "mknodat":
		// only an error if it concerns the tree
		for _, arg := range a {
			if strings.HasPrefix(arg, `"`) {
				if b, e := unhex(arg); e == nil && under(root, resolve("/", string(b))) {
					return ev, false, fmt.Errorf("%s on the tree is not modelled", rc.name)
				}
			} else if _, p, e := fdArg(arg); e == nil && p != "" && under(root, p) {
				return ev, false, fmt.Errorf("%s on the tree is not modelled", rc.name)
			}
		}
		return ev, false, nil
	}
	return ev, false, nil
}

// ---- the tree ---------------------------------------------------------------------------------------

// Node is a regular file (hard links share a node). Data is never modified in place.
type Node struct {
	Data []byte
	Orig string // path (relative to the root) of the unmodified original in the pre-state, "" once written
}

// FS is a directory tree: relative path -> node, and the set of directories ("" is the root).
type FS struct {
	Files map[string]*Node
	Dirs  map[string]bool
}

// Load reads a real directory tree. A missing root gives an empty FS without the root directory.
func Load(root string) (*FS, error) {
	fs := &FS{Files: map[string]*Node{}, Dirs: map[string]bool{}}
	if _, err := os.Lstat(root); os.IsNotExist(err) {
		return fs, nil
	}
	byIno := map[uint64]*Node{} // names that are hard links to one file share a node
	err := filepath.Walk(root, func(p string, info os.FileInfo, err error) error {
		if err != nil {
			return err
		}
		rel, _ := filepath.Rel(root, p)
		if rel == "." {
			rel = ""
		}
		switch {
		case info.IsDir():
			fs.Dirs[rel] = true
		case info.Mode().IsRegular():
			if st, ok := info.Sys().(*syscall.Stat_t); ok && st.Nlink > 1 {
				if n := byIno[st.Ino]; n != nil {
					fs.Files[rel] = n
					return nil
				}
				b, err := os.ReadFile(p)
				if err != nil {
					return err
				}
				n := &Node{Data: b, Orig: rel}
				byIno[st.Ino] = n
				fs.Files[rel] = n
				return nil
			}
			b, err := os.ReadFile(p)
			if err != nil {
				return err
			}
			fs.Files[rel] = &Node{Data: b, Orig: rel}
		case info.Mode()&os.ModeSymlink != 0:
			// a folder that is a symbolic link to a directory elsewhere (another disk): its content is part of the tree
			ti, err := os.Stat(p)
			if err != nil || !ti.IsDir() {
				return fmt.Errorf("%s: symbolic link that does not lead to a directory", p)
			}
			fs.Dirs[rel] = true
			ents, err := os.ReadDir(p)
			if err != nil {
				return err
			}
			for _, e := range ents {
				if !e.Type().IsRegular() {
					return fmt.Errorf("%s/%s: unsupported entry behind a symbolic link", p, e.Name())
				}
				b, err := os.ReadFile(filepath.Join(p, e.Name()))
				if err != nil {
					return err
				}
				r := filepath.Join(rel, e.Name())
				fs.Files[r] = &Node{Data: b, Orig: r}
			}
		default:
			return fmt.Errorf("%s: unsupported file type %v", p, info.Mode())
		}
		return nil
	})
	return fs, err
}

// Snapshot is an immutable picture of a tree.
type Snapshot struct {
	Files map[string]Node
	Dirs  []string
	// Links: names that are further hard links of another name's file (alias -> the alphabetically first name)
	Links map[string]string
}

func (fs *FS) Snapshot() Snapshot {
	s := Snapshot{Files: make(map[string]Node, len(fs.Files))}
	first := map[*Node]string{}
	for p, n := range fs.Files {
		s.Files[p] = *n
		if q, ok := first[n]; !ok || p < q {
			first[n] = p
		}
	}
	for p, n := range fs.Files {
		if q := first[n]; q != p {
			if s.Links == nil {
				s.Links = map[string]string{}
			}
			s.Links[p] = q
		}
	}
	for d := range fs.Dirs {
		s.Dirs = append(s.Dirs, d)
	}
	sort.Strings(s.Dirs)
	return s
}

// Equal compares the content of two snapshots; the description names the first difference.
func (s Snapshot) Equal(o Snapshot) (bool, string) {
	if fmt.Sprint(s.Dirs) != fmt.Sprint(o.Dirs) {
		return false, fmt.Sprintf("directories %v vs %v", s.Dirs, o.Dirs)
	}
	for p, n := range s.Files {
		m, ok := o.Files[p]
		if !ok {
			return false, fmt.Sprintf("file %q only on one side", p)
		}
		if string(n.Data) != string(m.Data) {
			return false, fmt.Sprintf("file %q differs (%d vs %d bytes)", p, len(n.Data), len(m.Data))
		}
	}
	for p := range o.Files {
		if _, ok := s.Files[p]; !ok {
			return false, fmt.Sprintf("file %q only on one side", p)
		}
	}
	return true, ""
}

// Materialise writes the snapshot to dir (which must not exist). Unmodified files are hard-linked
// from pool (a copy of the pre-state) when pool != "".
func (s Snapshot) Materialise(dir, pool string) error {
	for _, d := range s.Dirs { // sorted: parents first
		if err := os.Mkdir(filepath.Join(dir, d), 0o755); err != nil {
			return err
		}
	}
	for p, n := range s.Files {
		if _, alias := s.Links[p]; alias && pool == "" {
			continue
		}
		dst := filepath.Join(dir, p)
		if n.Orig != "" && pool != "" {
			if err := os.Link(filepath.Join(pool, n.Orig), dst); err == nil {
				continue
			}
		}
		if err := os.WriteFile(dst, n.Data, 0o644); err != nil {
			return err
		}
	}
	if pool == "" {
		// without a pool the tree is self-contained and keeps its hard links (a later in-place write through one
		// name is seen through the other, as on the real file system)
		for p, q := range s.Links {
			if err := os.Link(filepath.Join(dir, q), filepath.Join(dir, p)); err != nil {
				return err
			}
		}
	}
	return nil
}

type openFile struct {
	node   *Node // nil for directories
	off    int64
	append bool
}

// Replayer applies events to a tree.
type Replayer struct {
	Root string
	FS   *FS
	fds  map[int]*openFile
}

func NewReplayer(root string, pre *FS) *Replayer {
	cp := &FS{Files: map[string]*Node{}, Dirs: map[string]bool{}}
	seen := map[*Node]*Node{}
	for p, n := range pre.Files {
		if seen[n] == nil {
			c := *n
			seen[n] = &c
		}
		cp.Files[p] = seen[n]
	}
	for d := range pre.Dirs {
		cp.Dirs[d] = true
	}
	return &Replayer{Root: path.Clean(root), FS: cp, fds: map[int]*openFile{}}
}

func (r *Replayer) rel(p string) (string, bool) {
	if p == r.Root {
		return "", true
	}
	if strings.HasPrefix(p, r.Root+"/") {
		return p[len(r.Root)+1:], true
	}
	return "", false
}

func parentOf(rel string) string {
	if i := strings.LastIndexByte(rel, '/'); i >= 0 {
		return rel[:i]
	}
	return ""
}

func writeAt(old []byte, off int64, data []byte) []byte {
	end := off + int64(len(data))
	n := int64(len(old))
	if end > n {
		n = end
	}
	out := make([]byte, n)
	copy(out, old)
	copy(out[off:], data)
	return out
}

// Mutates reports whether the event can change the tree (used to place crash points).
func (r *Replayer) Mutates(e Event) bool {
	switch e.Name {
	case "openat", "openat2", "open":
		return strings.Contains(e.Flags, "O_CREAT") || strings.Contains(e.Flags, "O_TRUNC")
	case "write", "pwrite64", "copy":
		return e.Ret > 0
	case "rename", "unlink", "mkdir", "rmdir", "truncate", "ftruncate", "link":
		return true
	}
	return false
}

// WriteTarget returns the current content of the file a write-like event goes to and the offset
// the data lands at (for choosing interesting prefix lengths).
func (r *Replayer) WriteTarget(e Event) (cur []byte, off int64, ok bool) {
	of := r.fds[e.FD]
	if of == nil || of.node == nil {
		return nil, 0, false
	}
	off = of.off
	if e.HasOff {
		off = e.Off
	}
	if of.append {
		off = int64(len(of.node.Data))
	}
	return of.node.Data, off, true
}

// Payload returns the bytes a write-like event transfers (for copy: read from the source).
func (r *Replayer) Payload(e Event) []byte {
	if e.Name != "copy" {
		return e.Data
	}
	src := r.fds[e.FD2]
	if src == nil || src.node == nil {
		return nil
	}
	end := src.off + e.Ret
	if end > int64(len(src.node.Data)) {
		end = int64(len(src.node.Data))
	}
	if src.off > end {
		return nil
	}
	return src.node.Data[src.off:end]
}

// Apply performs the event. For write-like events upto >= 0 transfers only the first upto bytes
// (the state a process killed inside the call can leave) — after that the replayer must not be
// advanced further.
func (r *Replayer) Apply(e Event, upto int) error {
	fs := r.FS
	switch e.Name {
	case "openat", "openat2", "open":
		if strings.Contains(e.Flags, "O_TMPFILE") {
			return fmt.Errorf("O_TMPFILE is not modelled")
		}
		rel, ok := r.rel(e.Path)
		if !ok {
			return fmt.Errorf("open outside the root: %s", e.Path)
		}
		if fs.Dirs[rel] {
			r.fds[e.FD] = &openFile{}
			return nil
		}
		n := fs.Files[rel]
		if n == nil {
			if !strings.Contains(e.Flags, "O_CREAT") {
				return fmt.Errorf("open of %q succeeded in the trace but the file is not in the model", rel)
			}
			if !fs.Dirs[parentOf(rel)] {
				return fmt.Errorf("create %q: parent directory missing in the model", rel)
			}
			n = &Node{}
			fs.Files[rel] = n
		} else if strings.Contains(e.Flags, "O_TRUNC") && (strings.Contains(e.Flags, "O_WRONLY") || strings.Contains(e.Flags, "O_RDWR")) {
			n.Data, n.Orig = nil, ""
		}
		r.fds[e.FD] = &openFile{node: n, append: strings.Contains(e.Flags, "O_APPEND")}
	case "read", "pread64":
		if of := r.fds[e.FD]; of != nil && !e.HasOff {
			of.off += e.Ret
		}
	case "lseek":
		if of := r.fds[e.FD]; of != nil {
			of.off = e.Off
		}
	case "write", "pwrite64", "copy":
		of := r.fds[e.FD]
		if of == nil || of.node == nil {
			return fmt.Errorf("%s on descriptor %d that the model does not know", e.Name, e.FD)
		}
		data := r.Payload(e)
		if e.Name == "copy" && int64(len(data)) != e.Ret {
			return fmt.Errorf("copy of %d bytes: the model's source has only %d", e.Ret, len(data))
		}
		full := len(data)
		if upto >= 0 && upto < len(data) {
			data = data[:upto]
		}
		_, off, _ := r.WriteTarget(e)
		if len(data) > 0 {
			of.node.Data, of.node.Orig = writeAt(of.node.Data, off, data), ""
		}
		if !e.HasOff {
			of.off = off + int64(len(data))
		}
		if e.Name == "copy" && len(data) == full {
			r.fds[e.FD2].off += e.Ret
		}
	case "close":
		delete(r.fds, e.FD)
	case "dup":
		if of := r.fds[e.FD2]; of != nil {
			r.fds[e.FD] = of
		}
	case "fsync", "fdatasync":
	case "ftruncate", "truncate":
		var n *Node
		if e.Name == "ftruncate" {
			if of := r.fds[e.FD]; of != nil {
				n = of.node
			}
		} else if rel, ok := r.rel(e.Path); ok {
			n = fs.Files[rel]
		}
		if n == nil {
			return fmt.Errorf("%s on a file the model does not know", e.Name)
		}
		out := make([]byte, e.Off)
		copy(out, n.Data)
		n.Data, n.Orig = out, ""
	case "mkdir":
		rel, ok := r.rel(e.Path)
		if !ok {
			return nil // a parent of the root is created: not part of the tree
		}
		if rel != "" && !fs.Dirs[parentOf(rel)] {
			return fmt.Errorf("mkdir %q: parent missing in the model", rel)
		}
		fs.Dirs[rel] = true
	case "rmdir":
		rel, ok := r.rel(e.Path)
		if !ok {
			return fmt.Errorf("rmdir outside the root")
		}
		delete(fs.Dirs, rel)
	case "unlink":
		rel, ok := r.rel(e.Path)
		if !ok {
			return fmt.Errorf("unlink outside the root")
		}
		if fs.Files[rel] == nil {
			return fmt.Errorf("unlink %q: not in the model", rel)
		}
		delete(fs.Files, rel)
	case "link":
		a, ok1 := r.rel(e.Path)
		b, ok2 := r.rel(e.Path2)
		if !ok1 || !ok2 {
			return fmt.Errorf("link across the root boundary is not modelled")
		}
		if fs.Files[a] == nil {
			return fmt.Errorf("link %q: not in the model", a)
		}
		fs.Files[b] = fs.Files[a]
	case "rename":
		if strings.Contains(e.Flags, "RENAME_EXCHANGE") || strings.Contains(e.Flags, "RENAME_WHITEOUT") {
			return fmt.Errorf("rename flags %s are not modelled", e.Flags)
		}
		a, ok1 := r.rel(e.Path)
		b, ok2 := r.rel(e.Path2)
		if !ok1 || !ok2 {
			return fmt.Errorf("rename across the root boundary is not modelled (%s -> %s)", e.Path, e.Path2)
		}
		if a == b {
			return nil
		}
		if n := fs.Files[a]; n != nil {
			if fs.Files[b] == n { // two links to the same file: rename does nothing
				return nil
			}
			fs.Files[b] = n
			delete(fs.Files, a)
			return nil
		}
		if !fs.Dirs[a] {
			return fmt.Errorf("rename %q: not in the model", a)
		}
		delete(fs.Dirs, b)
		for d := range fs.Dirs {
			if d == a || strings.HasPrefix(d, a+"/") {
				delete(fs.Dirs, d)
				fs.Dirs[b+d[len(a):]] = true
			}
		}
		for p, n := range fs.Files {
			if strings.HasPrefix(p, a+"/") {
				delete(fs.Files, p)
				fs.Files[b+p[len(a):]] = n
			}
		}
	default:
		return fmt.Errorf("event %s is not modelled", e.Name)
	}
	return nil
}

// SnapshotWith returns the snapshot the tree would have if the write-like event e were cut
// after upto bytes, without advancing the replayer.
func (r *Replayer) SnapshotWith(e Event, upto int) (Snapshot, error) {
	of := r.fds[e.FD]
	if of == nil || of.node == nil {
		return Snapshot{}, fmt.Errorf("%s on descriptor %d that the model does not know", e.Name, e.FD)
	}
	data := r.Payload(e)
	if upto > len(data) {
		upto = len(data)
	}
	_, off, _ := r.WriteTarget(e)
	s := r.FS.Snapshot()
	if upto == 0 {
		return s, nil
	}
	nd := writeAt(of.node.Data, off, data[:upto])
	for p, n := range r.FS.Files {
		if n == of.node {
			s.Files[p] = Node{Data: nd}
		}
	}
	return s, nil
}
