package fstrace

import (
	"os"
	"os/exec"
	"path/filepath"
	"testing"
)

// TestSelf validates tracer + replayer without the library under test: ordinary tools change a
// directory tree under strace; replaying the recorded calls onto the loaded pre-state must give
// exactly the tree the tools left, and every intermediate snapshot must materialise.
func TestSelf(t *testing.T) {
	if _, err := exec.LookPath("strace"); err != nil {
		t.Skip("no strace")
	}
	scripts := []string{
		`echo hello > a.txt; echo more >> a.txt; mv a.txt b.txt; mkdir d; cp b.txt d/c.txt; ln d/c.txt d/l.txt; echo x >> d/l.txt; rm b.txt`,
		`printf 'abcdefghij' > f; dd if=/dev/zero of=f bs=1 count=3 seek=2 conv=notrunc 2>/dev/null; truncate -s 7 f; mkdir -p x/y/z; mv x/y x/w; rmdir x/w/z`,
		`cat pre/one.txt pre/two.txt > both.txt; mv pre old; echo new > old/one.txt; rm old/two.txt`,
		`cd pre; echo rel > rel.txt; mv rel.txt ../up.txt; cd ..; rm -r pre`,
	}
	for i, sc := range scripts {
		base := t.TempDir()
		root := filepath.Join(base, "tree")
		os.MkdirAll(filepath.Join(root, "pre"), 0o755)
		os.WriteFile(filepath.Join(root, "pre/one.txt"), []byte("one\n"), 0o644)
		os.WriteFile(filepath.Join(root, "pre/two.txt"), []byte("two\r\ntwo\r\n"), 0o644)
		pre, err := Load(root)
		if err != nil {
			t.Fatal(err)
		}
		trace := filepath.Join(base, "trace")
		argv := append(Command(trace), "sh", "-c", sc)
		cmd := exec.Command(argv[0], argv[1:]...)
		cmd.Dir = root
		if out, err := cmd.CombinedOutput(); err != nil {
			t.Fatalf("script %d: %v\n%s", i, err, out)
		}
		evs, _, err := Parse(trace, root, root)
		if err != nil {
			t.Fatalf("script %d: %v", i, err)
		}
		r := NewReplayer(root, pre)
		states := 0
		for _, e := range evs {
			if r.Mutates(e) && (e.Name == "write" || e.Name == "copy") {
				for k := 0; k <= len(r.Payload(e)); k++ {
					s, err := r.SnapshotWith(e, k)
					if err != nil {
						t.Fatalf("script %d: %v", i, err)
					}
					if k == 1 {
						d := filepath.Join(base, "mat")
						os.RemoveAll(d)
						if err := s.Materialise(d, ""); err != nil {
							t.Fatalf("script %d: materialise: %v", i, err)
						}
					}
					states++
				}
			}
			if err := r.Apply(e, -1); err != nil {
				t.Fatalf("script %d: %s: %v", i, e, err)
			}
		}
		real, err := Load(root)
		if err != nil {
			t.Fatal(err)
		}
		if ok, why := r.FS.Snapshot().Equal(real.Snapshot()); !ok {
			t.Fatalf("script %d: replayed tree differs from the real one: %s", i, why)
		}
		t.Logf("script %d: %d events, %d partial states, final tree equal", i, len(evs), states)
	}
}
