// Package harness is the small run-time shared by every property package:
// it counts evaluations, distinct non-trivial cases (by hash), class labels and
// samples, records violations with their (shrunk) case, and writes one JSON
// fragment per worker process that the ./check driver merges into the evidence
// file. Nothing in here knows about a particular property.
package harness

import (
	"encoding/json"
	"fmt"
	"hash/fnv"
	"os"
	"path/filepath"
	"regexp"
	"runtime"
	"runtime/debug"
	"sort"
	"strconv"
	"strings"
	"sync"
	"syscall"
	"testing"
	"time"
)

// Violation is one failure of a property on one case.
type Violation struct {
	Sig  string          `json:"sig"`
	Msg  string          `json:"msg"`
	Case json.RawMessage `json:"case"`
}

type fragment struct {
	Property    string               `json:"property"`
	Evaluations int                  `json:"evaluations"`
	Hashes      []string             `json:"hashes"`
	Classes     map[string]int       `json:"classes"`
	Samples     []any                `json:"samples"`
	Violations  map[string]Violation `json:"violations"`
	KnownSeen   map[string]int       `json:"known_seen"`
	Excluded    map[string]int       `json:"excluded"`
	Rule        string               `json:"rule"`
	Assumptions []string             `json:"assumptions"`
	Exhaustive  []string             `json:"exhaustive"`
	Notes       []string             `json:"notes"`
	Completed   bool                 `json:"completed"`
}

var (
	mu    sync.Mutex
	frag  = fragment{Classes: map[string]int{}, Violations: map[string]Violation{}, KnownSeen: map[string]int{}, Excluded: map[string]int{}}
	hset  = map[uint64]struct{}{}
	known map[string]bool

	maxSamples = 6
)

// Property sets the property id, the non-triviality rule and the assumptions of the package.
func Property(id, rule string, assumptions ...string) {
	mu.Lock()
	defer mu.Unlock()
	frag.Property, frag.Rule, frag.Assumptions = id, rule, assumptions
}

func Tier() string {
	if t := os.Getenv("VERIF_TIER"); t != "" {
		return t
	}
	return "quick"
}
func Thorough() bool { return Tier() == "thorough" }

// Scale picks a size by tier.
func Scale(quick, thorough int) int {
	if Thorough() {
		return thorough
	}
	return quick
}

// Seed is the per-worker seed derived by the driver from VERIF_SEED (never 0).
func Seed() uint64 {
	n, _ := strconv.ParseUint(os.Getenv("VERIF_WORKER_SEED"), 10, 64)
	if n == 0 {
		n = 1
	}
	return n
}

// Shard returns (index, count) of this worker.
func Shard() (int, int) {
	i, _ := strconv.Atoi(os.Getenv("VERIF_SHARD"))
	n, _ := strconv.Atoi(os.Getenv("VERIF_NSHARDS"))
	if n <= 0 {
		n = 1
	}
	return i, n
}

// Mine reports whether item idx of an enumerated space belongs to this worker.
func Mine(idx int) bool { i, n := Shard(); return idx%n == i }

// Eval counts one executed case.
func Eval() { mu.Lock(); frag.Evaluations++; mu.Unlock() }

// EvalN counts n executed cases.
func EvalN(n int) { mu.Lock(); frag.Evaluations += n; mu.Unlock() }

// Hash hashes arbitrary values (through fmt) into the key used for distinctness.
func Hash(parts ...any) uint64 {
	h := fnv.New64a()
	for _, p := range parts {
		switch v := p.(type) {
		case []byte:
			h.Write(v)
		case string:
			h.Write([]byte(v))
		default:
			fmt.Fprintf(h, "%v", v)
		}
		h.Write([]byte{0xff})
	}
	return h.Sum64()
}

// NonTrivial records one non-trivial case identified by key.
func NonTrivial(key uint64) {
	mu.Lock()
	hset[key] = struct{}{}
	mu.Unlock()
}

// Label bumps a class counter.
func Label(names ...string) {
	mu.Lock()
	for _, n := range names {
		frag.Classes[n]++
	}
	mu.Unlock()
}

// LabelN bumps a class counter by n.
func LabelN(name string, n int) { mu.Lock(); frag.Classes[name] += n; mu.Unlock() }

// Excluded counts a case the generator dropped by construction (known finding shapes etc.).
func Excluded(kind string) { mu.Lock(); frag.Excluded[kind]++; mu.Unlock() }

// Sample keeps a few rendered cases for the evidence file.
func Sample(v any) {
	mu.Lock()
	defer mu.Unlock()
	if len(frag.Samples) < maxSamples {
		frag.Samples = append(frag.Samples, v)
	}
}

// WantSample reports whether another sample is still wanted (avoids rendering cost).
func WantSample() bool { mu.Lock(); defer mu.Unlock(); return len(frag.Samples) < maxSamples }

// ExhaustiveSpace names a finite sub-space that this run enumerated completely.
func ExhaustiveSpace(name string) { mu.Lock(); frag.Exhaustive = append(frag.Exhaustive, name); mu.Unlock() }

// Note adds a free text line to the evidence.
func Note(format string, a ...any) {
	mu.Lock()
	frag.Notes = append(frag.Notes, fmt.Sprintf(format, a...))
	mu.Unlock()
}

func loadKnown() {
	known = map[string]bool{}
	p := os.Getenv("VERIF_KNOWN")
	if p == "" {
		p = "/verif/known_findings.json"
	}
	b, err := os.ReadFile(p)
	if err != nil {
		return
	}
	var f struct {
		Findings []struct {
			Property, Status, Signature string
		} `json:"findings"`
	}
	if json.Unmarshal(b, &f) != nil {
		return
	}
	for _, e := range f.Findings {
		if e.Status == "known" {
			known[e.Property+"/"+e.Signature] = true
		}
	}
}

// Known reports whether sig is a listed (unrepaired) known finding of this property.
func Known(sig string) bool {
	mu.Lock()
	defer mu.Unlock()
	if known == nil {
		loadKnown()
	}
	return known[frag.Property+"/"+sig]
}

var sigRe = regexp.MustCompile(`[^A-Za-z0-9_.-]+`)

// TB is the subset of testing.TB / rapid.T used here.
type TB interface {
	Fatalf(format string, args ...any)
}

// Fail records a violation (unless sig is a listed known finding, in which case it is
// only counted and the function returns false), writes the case to the failure directory
// (later, smaller cases of the same signature overwrite earlier ones, so after shrinking
// the file holds the minimal reproduction) and fails the test.
func Fail(t TB, sig string, c any, format string, args ...any) bool {
	if Known(sig) {
		mu.Lock()
		frag.KnownSeen[sig]++
		mu.Unlock()
		return false
	}
	msg := fmt.Sprintf(format, args...)
	Record(sig, c, msg)
	t.Fatalf("VIOLATION[%s] %s", sig, msg)
	return true
}

// Record stores a violation without failing a test (used by enumerations that want to go on,
// and by the watchdog before it exits the process).
func Record(sig string, c any, msg string) {
	raw, err := json.Marshal(c)
	if err != nil {
		raw, _ = json.Marshal(fmt.Sprintf("%+v", c))
	}
	v := Violation{Sig: sig, Msg: msg, Case: raw}
	mu.Lock()
	frag.Violations[sig] = v
	prop := frag.Property
	mu.Unlock()
	if dir := os.Getenv("VERIF_FAILDIR"); dir != "" {
		os.MkdirAll(dir, 0o755)
		out, _ := json.MarshalIndent(struct {
			Property string          `json:"property"`
			Sig      string          `json:"sig"`
			Msg      string          `json:"msg"`
			Case     json.RawMessage `json:"case"`
		}{prop, sig, msg, raw}, "", " ")
		name := sigRe.ReplaceAllString(sig, "_")
		if len(name) > 80 {
			name = name[:80]
		}
		tmp := filepath.Join(dir, name+".json.tmp")
		if os.WriteFile(tmp, out, 0o644) == nil {
			os.Rename(tmp, filepath.Join(dir, name+".json"))
		}
	}
}

// Begin notes the case that is about to run, so that if the process dies the driver
// knows the culprit.
func Begin(c any) {
	p := os.Getenv("VERIF_CASEFILE")
	logCases := os.Getenv("VERIF_LOG_CASES") != ""
	if p == "" && !logCases {
		return
	}
	raw, err := json.Marshal(c)
	if err != nil {
		return
	}
	if p != "" {
		os.WriteFile(p, raw, 0o644)
	}
	if logCases {
		// race reports go straight to fd 2; this line lets the driver attribute a report to its case
		os.Stderr.Write(append(append([]byte("\nVERIF-CASE "), raw...), '\n'))
	}
}

// End clears the current-case marker.
func End() {
	if p := os.Getenv("VERIF_CASEFILE"); p != "" {
		os.Remove(p)
	}
}

// PanicSig turns a recovered panic and its stack into a root-cause signature:
// panic class + innermost wl2k-go function (no line numbers).
func PanicSig(r any, stack []byte) string {
	class := "panic"
	s := fmt.Sprint(r)
	switch {
	case strings.Contains(s, "slice bounds out of range"):
		class = "panic-slice"
	case strings.Contains(s, "index out of range"):
		class = "panic-index"
	case strings.Contains(s, "makeslice"):
		class = "panic-makeslice"
	case strings.Contains(s, "nil pointer"):
		class = "panic-nil"
	case strings.Contains(s, "interface conversion"):
		class = "panic-typeassert"
	case strings.Contains(s, "closed channel") || strings.Contains(s, "close of"):
		class = "panic-chan"
	}
	fn := "unknown"
	for _, line := range strings.Split(string(stack), "\n") {
		if strings.HasPrefix(line, "github.com/la5nta/wl2k-go/") {
			fn = strings.TrimPrefix(line, "github.com/la5nta/wl2k-go/")
			if i := strings.LastIndex(fn, "("); i > 0 {
				fn = fn[:i]
			}
			break
		}
	}
	return class + ":" + fn
}

// Catch runs f and converts a panic in the calling goroutine into (sig, message).
func Catch(f func()) (sig, msg string) {
	defer func() {
		if r := recover(); r != nil {
			st := debug.Stack()
			sig = PanicSig(r, st)
			msg = fmt.Sprintf("panic: %v\n%s", r, trimStack(st))
		}
	}()
	f()
	return "", ""
}

func trimStack(st []byte) string {
	lines := strings.Split(string(st), "\n")
	if len(lines) > 40 {
		lines = lines[:40]
	}
	return strings.Join(lines, "\n")
}

func cpuTime() time.Duration {
	var ru syscall.Rusage
	syscall.Getrusage(syscall.RUSAGE_SELF, &ru)
	return time.Duration(ru.Utime.Nano() + ru.Stime.Nano())
}

// Watch runs f in a goroutine and waits for it. If it has not returned after limit
// (a very generous budget for something that normally takes milliseconds) the case is
// classified "spin" (the process burnt CPU for most of that time) or "blocked" and returned
// as hung; f's goroutine is leaked, so callers normally record the case and exit the process.
//
// The budget is measured in time this process was actually scheduled, not in wall time: a canary
// goroutine ticks every 10 ms and the limit is counted in canary ticks, so a machine that is
// overloaded (or a stopped process) stretches the wait instead of producing a false "hang".
func Watch(limit time.Duration, f func()) (hung bool, kind string) {
	done := make(chan struct{})
	c0 := cpuTime()
	t0 := time.Now()
	go func() { defer close(done); f() }()
	tick := time.NewTicker(10 * time.Millisecond)
	defer tick.Stop()
	need := int(limit / (10 * time.Millisecond))
	ticks := 0
	last := time.Now()
	for ticks < need {
		select {
		case <-done:
			return false, ""
		case now := <-tick.C:
			// a tick that arrives late (the process did not run) counts as one tick only
			_ = now
			ticks++
			last = time.Now()
		}
	}
	_ = last
	select {
	case <-done:
		return false, ""
	default:
	}
	cpu := cpuTime() - c0
	wall := time.Since(t0)
	if cpu*2 > wall {
		return true, "spin"
	}
	return true, "blocked"
}

// ExitHung writes the fragment and leaves the process with the code the driver maps to
// "hang on the recorded case".
func ExitHung() {
	writeFragment(false)
	os.Exit(3)
}

func writeFragment(completed bool) {
	p := os.Getenv("VERIF_FRAGMENT")
	if p == "" {
		return
	}
	mu.Lock()
	frag.Completed = completed
	frag.Hashes = frag.Hashes[:0]
	for h := range hset {
		frag.Hashes = append(frag.Hashes, strconv.FormatUint(h, 16))
	}
	sort.Strings(frag.Hashes)
	out, err := json.Marshal(frag)
	mu.Unlock()
	if err != nil {
		fmt.Fprintln(os.Stderr, "harness: cannot marshal fragment:", err)
		return
	}
	os.WriteFile(p+".tmp", out, 0o644)
	os.Rename(p+".tmp", p)
}

// Main is called from TestMain of every property package.
func Main(m *testing.M) {
	if v := os.Getenv("VERIF_MEMLIMIT_MB"); v != "" {
		if n, _ := strconv.Atoi(v); n > 0 {
			debug.SetMemoryLimit(int64(n) << 20)
		}
	}
	_ = runtime.NumCPU
	code := m.Run()
	writeFragment(true)
	os.Exit(code)
}

// ReplayCase loads the case stored in a failure/replay file into dst. The file is either the
// wrapper written by Record or a bare case.
func ReplayCase(path string, dst any) (sig string, err error) {
	b, err := os.ReadFile(path)
	if err != nil {
		return "", err
	}
	var w struct {
		Sig  string          `json:"sig"`
		Case json.RawMessage `json:"case"`
	}
	if json.Unmarshal(b, &w) == nil && len(w.Case) > 0 {
		return w.Sig, json.Unmarshal(w.Case, dst)
	}
	return "", json.Unmarshal(b, dst)
}

// ReplayFiles lists the replay files this run should re-execute: the single file named by
// VERIF_REPLAY, or every *.json in VERIF_REPLAY_DIR.
func ReplayFiles() []string {
	if p := os.Getenv("VERIF_REPLAY"); p != "" {
		return []string{p}
	}
	dir := os.Getenv("VERIF_REPLAY_DIR")
	if dir == "" {
		return nil
	}
	l, _ := filepath.Glob(filepath.Join(dir, "*.json"))
	sort.Strings(l)
	return l
}
