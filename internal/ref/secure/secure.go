// Package secure is the harness's formulation of the Winlink secure-login response, written from
// the statement of property C16: MD5 over challenge, password and the fixed salt; the first four
// digest bytes as a little-endian integer masked to 30 bits; the last eight decimal digits, zero
// padded. The 64 byte salt is a published constant (it cannot be derived); it is pinned by the
// known vector challenge 23753528 / password FOOBAR -> 72768415.
package secure

import (
	"crypto/md5"
	"encoding/binary"
	"fmt"
)

var salt = []byte{
	77, 197, 101, 206, 190, 249, 93, 200, 51, 243, 93, 237, 71, 94, 239, 138,
	68, 108, 70, 185, 225, 137, 217, 16, 51, 122, 193, 48, 194, 195, 198, 175,
	172, 169, 70, 84, 61, 62, 104, 186, 114, 52, 61, 168, 66, 129, 192, 208,
	187, 249, 232, 193, 41, 113, 41, 45, 240, 16, 29, 228, 208, 228, 61, 20,
}

// Value is the 30 bit integer the answer is taken from (0 .. 1073741823: up to ten decimal digits, fewer than eight
// for about one challenge in a hundred).
func Value(challenge, password string) uint32 {
	h := md5.New()
	h.Write([]byte(challenge))
	h.Write([]byte(password))
	h.Write(salt)
	sum := h.Sum(nil)
	return binary.LittleEndian.Uint32(sum[:4]) & 0x3fffffff
}

// Response computes the 8 digit answer.
func Response(challenge, password string) string {
	s := fmt.Sprintf("%08d", Value(challenge, password))
	return s[len(s)-8:]
}
