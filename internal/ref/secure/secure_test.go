package secure

import "testing"

func TestVector(t *testing.T) {
	if r := Response("23753528", "FOOBAR"); r != "72768415" {
		t.Fatalf("got %s", r)
	}
}
