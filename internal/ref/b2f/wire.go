// Package b2f is the harness's own, independently written implementation of the B2F forwarding
// protocol as described in docs/F6FBB-B2F/*.html and the Winlink B2F description: wire encoders
// with every freedom the protocol leaves to the sender, a strict frame parser/judge, and an
// interactive strict peer (peer.go). It shares no code with /repo/fbb.
package b2f

import (
	"bytes"
	"compress/gzip"
	"errors"
	"fmt"
	"io"
	"strconv"
	"strings"

	ref "verif/internal/ref/lzhuf"
)

const (
	SOH = 0x01
	STX = 0x02
	EOT = 0x04
)

// ProposalLine renders "F<code> <type> <mid> <usize> <csize> 0" (without CR).
func ProposalLine(code byte, typ, mid string, usize, csize int) string {
	return fmt.Sprintf("F%c %s %s %d %d 0", code, typ, mid, usize, csize)
}

// BlockChecksum is the two's complement of the 8 bit sum of all bytes of the proposal lines,
// each including its CR.
func BlockChecksum(lines []string) byte {
	var sum byte
	for _, l := range lines {
		for i := 0; i < len(l); i++ {
			sum += l[i]
		}
		sum += '\r'
	}
	return -sum
}

// Payload compresses msg the way a proposal of the given code carries it: 'C' = B2 LZHUF
// container (CRC-16, size, bit stream), 'D' = gzip member.
func Payload(msg []byte, code byte) []byte {
	if code == 'D' {
		var buf bytes.Buffer
		w, _ := gzip.NewWriterLevel(&buf, gzip.BestCompression)
		w.Write(msg)
		w.Close()
		return buf.Bytes()
	}
	z, _ := ref.Encode(msg, true)
	return z
}

// Unpack decodes a payload strictly.
func Unpack(payload []byte, code byte) ([]byte, error) {
	if code == 'D' {
		r, err := gzip.NewReader(bytes.NewReader(payload))
		if err != nil {
			return nil, err
		}
		r.Multistream(false)
		out, err := io.ReadAll(r)
		if err != nil {
			return nil, err
		}
		return out, nil
	}
	out, _, err := ref.Decode(payload, true)
	return out, err
}

// Frame renders SOH len title NUL offset NUL (STX n data)+ EOT checksum. blockSizes (1..256) are
// cycled; 256 is encoded as a zero length byte.
func Frame(title, offset string, payload []byte, blockSizes []int) []byte {
	var b bytes.Buffer
	b.WriteByte(SOH)
	b.WriteByte(byte(len(title) + len(offset) + 2))
	b.WriteString(title)
	b.WriteByte(0)
	b.WriteString(offset)
	b.WriteByte(0)
	var sum byte
	rest := payload
	for i := 0; len(rest) > 0; i++ {
		n := 250
		if len(blockSizes) > 0 {
			n = blockSizes[i%len(blockSizes)]
		}
		if n < 1 {
			n = 1
		}
		if n > 256 {
			n = 256
		}
		if n > len(rest) {
			n = len(rest)
		}
		b.WriteByte(STX)
		b.WriteByte(byte(n)) // 256 -> 0
		b.Write(rest[:n])
		for _, c := range rest[:n] {
			sum += c
		}
		rest = rest[n:]
	}
	b.WriteByte(EOT)
	b.WriteByte(-sum)
	return b.Bytes()
}

// Parsed is a strictly parsed frame.
type Parsed struct {
	Len      int // total bytes of the frame (SOH..checksum)
	LenByte  byte
	Title    string
	Offset   string
	Chunks   []int // data block sizes
	Data     []byte
	Checksum byte
	// byte offsets (relative to the frame start) of the structural bytes, for targeted tampering
	StructOffsets []int
}

var ErrShortFrame = errors.New("b2f: frame is incomplete")

// ParseFrame parses one frame at the start of b, checking every structural rule, including the
// sender-side rules for the title (1..80 ASCII bytes are what a conforming sender emits; here:
// non-empty ASCII).
func ParseFrame(b []byte) (Parsed, error) { return parseFrame(b, true) }

// ParseFrameLax is ParseFrame without any rule about the title's content (a receiver does not
// depend on it; used by the in-transit damage judge of C04).
func ParseFrameLax(b []byte) (Parsed, error) { return parseFrame(b, false) }

func parseFrame(b []byte, strictTitle bool) (Parsed, error) {
	var p Parsed
	if len(b) < 2 {
		return p, ErrShortFrame
	}
	if b[0] != SOH {
		return p, fmt.Errorf("frame does not start with SOH but 0x%02x", b[0])
	}
	p.LenByte = b[1]
	p.StructOffsets = append(p.StructOffsets, 0, 1)
	i := 2
	z := bytes.IndexByte(b[i:], 0)
	if z < 0 {
		return p, ErrShortFrame
	}
	p.Title = string(b[i : i+z])
	p.StructOffsets = append(p.StructOffsets, i+z)
	i += z + 1
	z = bytes.IndexByte(b[i:], 0)
	if z < 0 {
		return p, ErrShortFrame
	}
	p.Offset = string(b[i : i+z])
	for k := i; k <= i+z; k++ {
		p.StructOffsets = append(p.StructOffsets, k)
	}
	i += z + 1
	if int(p.LenByte) != len(p.Title)+len(p.Offset)+2 {
		return p, fmt.Errorf("header length byte %d, title+offset+2 = %d", p.LenByte, len(p.Title)+len(p.Offset)+2)
	}
	if strictTitle {
		if len(p.Title) == 0 {
			return p, errors.New("empty title")
		}
		for _, c := range []byte(p.Title) {
			if c >= 0x80 {
				return p, errors.New("title is not ASCII")
			}
		}
	}
	if len(p.Offset) == 0 || len(p.Offset) > 6 {
		return p, fmt.Errorf("offset field %q", p.Offset)
	}
	if _, err := strconv.Atoi(p.Offset); err != nil || strings.TrimLeft(p.Offset, "0123456789") != "" {
		return p, fmt.Errorf("offset field %q is not a number", p.Offset)
	}
	var sum byte
	for {
		if i >= len(b) {
			return p, ErrShortFrame
		}
		switch b[i] {
		case STX:
			if i+1 >= len(b) {
				return p, ErrShortFrame
			}
			p.StructOffsets = append(p.StructOffsets, i, i+1)
			n := int(b[i+1])
			if n == 0 {
				n = 256
			}
			if i+2+n > len(b) {
				return p, ErrShortFrame
			}
			p.Chunks = append(p.Chunks, n)
			p.Data = append(p.Data, b[i+2:i+2+n]...)
			for _, c := range b[i+2 : i+2+n] {
				sum += c
			}
			i += 2 + n
		case EOT:
			if i+1 >= len(b) {
				return p, ErrShortFrame
			}
			p.StructOffsets = append(p.StructOffsets, i, i+1)
			p.Checksum = b[i+1]
			p.Len = i + 2
			if byte(sum+p.Checksum) != 0 {
				return p, fmt.Errorf("data checksum: sum of data %02x + checksum byte %02x != 0", sum, p.Checksum)
			}
			if len(p.Chunks) == 0 {
				return p, errors.New("frame without data block")
			}
			return p, nil
		default:
			return p, fmt.Errorf("unexpected byte 0x%02x where STX or EOT is required (frame offset %d)", b[i], i)
		}
	}
}

// Judge decides whether frame (exactly one frame) is a fully valid transfer of a message proposed
// with (code, usize, csize) at offset 0, and returns the message it carries.
func Judge(frame []byte, code byte, usize, csize int) ([]byte, error) { return judge(frame, code, usize, csize, true) }

// JudgeLax is Judge with ParseFrameLax.
func JudgeLax(frame []byte, code byte, usize, csize int) ([]byte, error) { return judge(frame, code, usize, csize, false) }

func judge(frame []byte, code byte, usize, csize int, strictTitle bool) ([]byte, error) {
	p, err := parseFrame(frame, strictTitle)
	if err != nil {
		return nil, err
	}
	if p.Len != len(frame) {
		return nil, fmt.Errorf("%d bytes follow the frame", len(frame)-p.Len)
	}
	if off, _ := strconv.Atoi(p.Offset); off != 0 {
		return nil, fmt.Errorf("offset %q but 0 was requested", p.Offset)
	}
	if len(p.Data) != csize {
		return nil, fmt.Errorf("%d data bytes, proposal announced %d", len(p.Data), csize)
	}
	msg, err := Unpack(p.Data, code)
	if err != nil {
		return nil, fmt.Errorf("payload: %v", err)
	}
	return msg, nil
}

// AnswerForms lists every documented form of a proposal answer, by meaning.
var AnswerForms = map[byte][]string{
	'+': {"+", "Y", "y", "!0", "A0", "a0"},
	'-': {"-", "N", "n", "R", "r"},
	'=': {"=", "L", "l", "H", "h"},
}
