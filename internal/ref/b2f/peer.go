package b2f

import (
	"bufio"
	"bytes"
	"errors"
	"fmt"
	"io"
	"net"
	"regexp"
	"strconv"
	"strings"
)

// Out is a message the peer wants to send.
type Out struct {
	MID   string
	Title string
	Data  []byte // uncompressed message bytes
	Code  byte   // 'C' or 'D'
}

// LibMsg is what the test knows about a message queued on the library side.
type LibMsg struct {
	MID        string
	Bytes      []byte
	Precedence int // 0 flash .. 3 routine
}

// Expect describes the library station, so the peer can validate every line it writes.
type Expect struct {
	Call     string   // library's call sign (upper case)
	Target   string   // call sign the library was told it talks to (upper case)
	Locator  string
	UAName   string
	UAVer    string
	FWLine   string   // exact expected ";FW: ..." line (call, aux addresses, |responses)
	PR       string   // expected ";PR: " response, "" if none
	Gzip     bool     // library advertises G
	MOTD     []string // library's MOTD lines (library is master)
	Queue    []LibMsg
	WantsMsg bool // library has a handler (answers proposals itself); false = nil handler: defers everything
}

// Config is the peer's behaviour: its data and every encoding choice the protocol leaves open.
type Config struct {
	Master     bool // the peer is the called side: it sends its handshake first
	Call       string
	Locator    string
	SID        string   // complete SID line e.g. "[RMS Express-1.5.3-B2FHM$]"
	FW         []string // entries of the ";FW:" line as sent (may carry "|hash"); nil = no ;FW line
	MOTD       []string // text lines before the handshake (master only)
	Challenge  string   // ";PQ:" challenge (master only), "" = none
	Prompt     string   // master: last handshake line, must end in '>'
	Queue      []Out
	Dup        map[string]bool // MIDs the peer proposes twice within the same block
	Answers    map[string]string // answer token for a library MID ("+","Y","!0","-","R","=","L",...); default "+"
	BlockSizes []int
	// comment lines (each starting with ';') placed before a proposal block, between proposals, and before FS
	PreBlock, MidBlock, PreFS []string
	HoldIsAccept bool // FBB reading of answer H: "accepted but will be held" = transfer it (known-finding probe only)
	EarlyFQ    bool // CMS habit: FQ right after an all-refused block when the library's last turn was FF
	// EarlyFQAfterData: the same habit after a block of which messages were sent (FQ follows the last frame at once)
	EarlyFQAfterData bool
	Gzip       bool // peer offers 'D' proposals when both sides advertise G
	// Late > 0: the last Late messages of Queue reach the peer (a gateway) during the session - they become
	// available only after the peer has said FF once. A station may propose again on a later turn after an FF;
	// the other side must then answer and take its own turn as usual (FF, not FQ, if it has nothing).
	Late int
	Exp  Expect
}

// Received is a message the peer accepted and received.
type Received struct {
	MID  string
	Data []byte
}

// Result of a peer run.
type Result struct {
	Received    []Received
	SentOK      []string // MIDs transferred to the library (accepted, frame sent, acknowledged by the next turn)
	Rejected    []string // peer's MIDs the library rejected
	Deferred    []string // peer's MIDs the library deferred
	NeverOffered []string // late messages (Config.Late) that had not become available when the session ended
	LibFrames   int
	Nonconform  string // first non-conforming thing the library wrote ("" = none)
	Err         error  // transport level problem (EOF in the wrong place etc.)
	Choices     map[string]int
	Sent        []Elem // everything the peer wrote, as structured elements (see script.go)
	libProposed []libProp
}

type libProp struct {
	mid          string
	usize, csize int
	code         byte
	block        int
	answer       byte
}

// Nonconforming is returned (as Result.Nonconform) when the library emits something the protocol forbids.
type nonconf struct{ msg string }

func (n nonconf) Error() string { return n.msg }

type peer struct {
	c   Config
	rw  net.Conn
	rd  *bufio.Reader
	res *Result
	// state
	libPending   map[string]bool // library MIDs not yet accepted/rejected
	libDeferred  map[string]bool
	myDone       map[string]bool
	myDeferred   map[string]bool
	libLastFF    bool
	peerLastFF   bool
	saidFF       bool // the peer has said FF at least once
	offered      map[string]bool
	blockNo      int
	gzipBoth     bool
}

func bad(format string, a ...any) error { return nonconf{fmt.Sprintf(format, a...)} }

// Run executes the peer on conn until the session ends. It closes conn.
func Run(conn net.Conn, c Config) (res Result) {
	p := &peer{c: c, rw: conn, rd: bufio.NewReaderSize(conn, 1<<16), res: &res,
		libPending: map[string]bool{}, libDeferred: map[string]bool{}, myDone: map[string]bool{}, myDeferred: map[string]bool{}, offered: map[string]bool{}}
	res.Choices = map[string]int{}
	for _, m := range c.Exp.Queue {
		p.libPending[m.MID] = true
	}
	defer conn.Close()
	defer func() {
		if c.Late > 0 {
			for i := max(0, len(c.Queue)-c.Late); i < len(c.Queue); i++ {
				if !p.offered[c.Queue[i].MID] {
					res.NeverOffered = append(res.NeverOffered, c.Queue[i].MID)
				}
			}
		}
	}()
	err := p.session()
	var nc nonconf
	if errors.As(err, &nc) {
		res.Nonconform = nc.msg
	} else if err != nil {
		res.Err = err
	}
	if res.Nonconform == "" && res.Err == nil {
		if err := p.checkOrder(); err != nil {
			res.Nonconform = err.Error()
		}
	}
	return res
}

func (p *peer) line() (string, error) {
	s, err := p.rd.ReadString('\r')
	if err != nil {
		return s, err
	}
	s = s[:len(s)-1]
	if strings.ContainsAny(s, "\n\x00") {
		return s, bad("line %q contains LF or NUL", s)
	}
	return s, nil
}

// emit writes elements and logs them.
func (p *peer) emit(el ...Elem) error {
	p.res.Sent = append(p.res.Sent, el...)
	_, err := p.rw.Write(Render(el))
	return err
}

func (p *peer) send(format string, a ...any) error {
	return p.emit(Elem{Kind: "line", Text: strings.TrimSuffix(fmt.Sprintf(format, a...), "\r")})
}

var sidRe = regexp.MustCompile(`^\[([^\]]*)\]$`)

func (p *peer) checkSID(l string) error {
	m := sidRe.FindStringSubmatch(l)
	if m == nil {
		return bad("SID line %q is not bracketed", l)
	}
	parts := strings.Split(m[1], "-")
	if len(parts) < 2 || len(parts) > 3 {
		return bad("SID %q does not have 2-3 dash separated fields", l)
	}
	feat := parts[len(parts)-1]
	if !strings.Contains(feat, "B2") {
		return bad("SID %q does not advertise B2", l)
	}
	if !strings.HasSuffix(feat, "$") {
		return bad("SID %q: '$' is not the last feature character", l)
	}
	if !strings.Contains(feat, "F") {
		return bad("SID %q does not advertise F", l)
	}
	if parts[0] != p.c.Exp.UAName || (len(parts) == 3 && parts[1] != p.c.Exp.UAVer) {
		return bad("SID %q does not carry the user agent %s-%s", l, p.c.Exp.UAName, p.c.Exp.UAVer)
	}
	if strings.Contains(feat, "G") != p.c.Exp.Gzip {
		return bad("SID %q: G flag, expected %v", l, p.c.Exp.Gzip)
	}
	return nil
}

func (p *peer) readLibHandshake(libIsMaster bool) error {
	e := p.c.Exp
	if libIsMaster {
		for _, m := range e.MOTD {
			l, err := p.line()
			if err != nil {
				return err
			}
			if l != m {
				return bad("MOTD line %q, expected %q", l, m)
			}
		}
	}
	l, err := p.line()
	if err != nil {
		return err
	}
	if l != e.FWLine {
		return bad("handshake: got %q where %q is expected", l, e.FWLine)
	}
	if l, err = p.line(); err != nil {
		return err
	}
	if err := p.checkSID(l); err != nil {
		return err
	}
	if e.PR != "" {
		if l, err = p.line(); err != nil {
			return err
		}
		if l != ";PR: "+e.PR {
			return bad("secure login: got %q, expected %q", l, ";PR: "+e.PR)
		}
	}
	if l, err = p.line(); err != nil {
		return err
	}
	want := fmt.Sprintf("; %s DE %s (%s)", e.Target, e.Call, e.Locator)
	if libIsMaster {
		want += ">"
	}
	if l != want {
		return bad("handshake: got %q, expected %q", l, want)
	}
	return nil
}

func (p *peer) sendHandshake() error {
	c := p.c
	var el []Elem
	if c.Master {
		for _, m := range c.MOTD {
			el = append(el, Elem{Kind: "line", Text: m})
		}
	}
	if c.FW != nil {
		el = append(el, Elem{Kind: "line", Text: ";FW: " + strings.Join(c.FW, " ")})
	}
	el = append(el, Elem{Kind: "line", Text: c.SID})
	if c.Master {
		if c.Challenge != "" {
			el = append(el, Elem{Kind: "line", Text: ";PQ: " + c.Challenge})
		}
		el = append(el, Elem{Kind: "line", Text: c.Prompt})
	} else {
		el = append(el, Elem{Kind: "line", Text: fmt.Sprintf("; %s DE %s (%s)", c.Exp.Call, c.Call, c.Locator)})
	}
	return p.emit(el...)
}

func (p *peer) session() error {
	sidFeat := p.c.SID
	p.gzipBoth = p.c.Gzip && p.c.Exp.Gzip && strings.Contains(sidFeat[strings.LastIndex(sidFeat, "-")+1:], "G")
	var myTurn bool
	if p.c.Master {
		if err := p.sendHandshake(); err != nil {
			return err
		}
		if err := p.readLibHandshake(false); err != nil {
			return err
		}
		myTurn = false // the calling side (library) goes first
	} else {
		if err := p.readLibHandshake(true); err != nil {
			return err
		}
		if err := p.sendHandshake(); err != nil {
			return err
		}
		myTurn = true
	}
	for {
		var done bool
		var err error
		if myTurn {
			done, err = p.myTurn()
		} else {
			done, err = p.libTurn()
		}
		if err != nil || done {
			return err
		}
		myTurn = !myTurn
	}
}

func (p *peer) myPending() []Out {
	var out []Out
	for i, m := range p.c.Queue {
		if p.c.Late > 0 && i >= len(p.c.Queue)-p.c.Late && !p.saidFF {
			continue // has not arrived yet
		}
		if !p.myDone[m.MID] && !p.myDeferred[m.MID] {
			out = append(out, m)
		}
	}
	return out
}

func (p *peer) myTurn() (done bool, err error) {
	pend := p.myPending()
	if len(pend) == 0 {
		if p.libLastFF {
			p.send("FQ\r")
			return true, nil
		}
		p.peerLastFF = true
		if p.c.Late > 0 && !p.saidFF {
			p.res.Choices["late-messages-after-FF"]++
		}
		p.saidFF = true
		return false, p.send("FF\r")
	}
	p.peerLastFF = false
	if len(pend) > 5 {
		pend = pend[:5]
	}
	// duplicates inside the block (Radio Only gateways do this): the extra copy counts towards the 5
	var block []Out
	for _, m := range pend {
		block = append(block, m)
		p.offered[m.MID] = true
		if p.c.Dup[m.MID] && len(block) < 5 {
			block = append(block, m)
			p.res.Choices["dup-mid-in-block"]++
		}
		if len(block) == 5 {
			break
		}
	}
	var el []Elem
	for _, cmt := range p.c.PreBlock {
		el = append(el, Elem{Kind: "line", Text: cmt})
		p.res.Choices["comment-before-block"]++
	}
	payloads := make([][]byte, len(block))
	for i, m := range block {
		code := m.Code
		if code == 0 {
			code = 'C'
		}
		if code == 'D' && !p.gzipBoth {
			code = 'C'
		}
		payloads[i] = Payload(m.Data, code)
		el = append(el, Elem{Kind: "prop", MID: m.MID, Code: code, USize: len(m.Data), CSize: len(payloads[i])})
		if i < len(block)-1 {
			for _, cmt := range p.c.MidBlock {
				el = append(el, Elem{Kind: "line", Text: cmt})
				p.res.Choices["comment-between-proposals"]++
			}
		}
		block[i].Code = code
	}
	el = append(el, Elem{Kind: "end"})
	if err := p.emit(el...); err != nil {
		return false, err
	}
	// the library's answer
	l, err := p.line()
	if err != nil {
		return false, err
	}
	if !strings.HasPrefix(l, "FS ") {
		return false, bad("expected the FS answer line to %d proposals, got %q", len(block), l)
	}
	ans := l[3:]
	if len(ans) != len(block) {
		return false, bad("FS line %q carries %d answers for %d proposals", l, len(ans), len(block))
	}
	seen := map[string]bool{}
	nAcc := 0
	for i, m := range block {
		a := ans[i]
		switch a {
		case '+', 'Y', 'y', '-', 'N', 'n', 'R', 'r', '=', 'L', 'l':
		default:
			return false, bad("FS line %q: answer %q is not one of + - = (or their letter forms; offsets are never requested by this peer's proposals)", l, a)
		}
		if seen[m.MID] && (a == '+' || a == 'Y' || a == 'y') {
			return false, bad("FS line %q accepts the duplicate proposal of %s a second time in the same block", l, m.MID)
		}
		if !p.c.Exp.WantsMsg && (a == '+' || a == 'Y' || a == 'y') {
			return false, bad("FS line %q accepts %s although the station has no handler", l, m.MID)
		}
		seen[m.MID] = true
	}
	for i, m := range block {
		switch ans[i] {
		case '+', 'Y', 'y':
			nAcc++
			if err := p.emit(Elem{Kind: "frame", MID: m.MID, Code: m.Code, Title: asciiTitle(m.Title), Offset: "0", Payload: payloads[i], Blocks: p.c.BlockSizes, Msg: m.Data}); err != nil {
				return false, err
			}
			p.myDone[m.MID] = true
			p.res.SentOK = append(p.res.SentOK, m.MID)
		case '-', 'N', 'n', 'R', 'r':
			if !p.myDone[m.MID] {
				p.res.Rejected = append(p.res.Rejected, m.MID)
			}
			p.myDone[m.MID] = true
		default:
			if !p.myDone[m.MID] {
				p.myDeferred[m.MID] = true
				p.res.Deferred = append(p.res.Deferred, m.MID)
			}
		}
	}
	if p.c.EarlyFQ && (nAcc == 0 || p.c.EarlyFQAfterData) && p.libLastFF && len(p.myPending()) == 0 {
		// CMS habit: do not wait for the library's turn
		p.res.Choices["early-FQ"]++
		if nAcc > 0 {
			p.res.Choices["early-FQ-after-data"]++
		}
		p.send("FQ\r")
		return true, nil
	}
	return false, nil
}

func asciiTitle(t string) string {
	var b strings.Builder
	for _, r := range t {
		if r >= 0x20 && r < 0x7f {
			b.WriteRune(r)
		} else {
			b.WriteByte('?')
		}
	}
	s := b.String()
	if s == "" {
		s = "No title"
	}
	if len(s) > 80 {
		s = s[:80]
	}
	return s
}

var propRe = regexp.MustCompile(`^F([A-D]) ([A-Z]{1,2}) (\S+) (\d+) (\d+) (\d+)$`)

func (p *peer) libTurn() (done bool, err error) {
	var props []libProp
	var lines []string
	for {
		l, err := p.line()
		if err != nil {
			if err == io.EOF && len(props) == 0 {
				return false, fmt.Errorf("library closed the connection where a turn was expected: %w", err)
			}
			return false, err
		}
		switch {
		case strings.HasPrefix(l, ";"):
			continue // comments are always allowed
		case l == "FF":
			if len(props) > 0 {
				return false, bad("FF inside a proposal block")
			}
			for mid := range p.libPending {
				if !p.libDeferred[mid] {
					return false, bad("library sent FF although %s is still pending and was not deferred", mid)
				}
			}
			p.libLastFF = true
			return false, nil
		case l == "FQ":
			if len(props) > 0 {
				return false, bad("FQ inside a proposal block")
			}
			if !p.peerLastFF {
				return false, bad("library sent FQ although the peer's last turn was not FF")
			}
			for mid := range p.libPending {
				if !p.libDeferred[mid] {
					return false, bad("library sent FQ although %s is still pending and was not deferred", mid)
				}
			}
			// nothing may follow
			if _, err := p.rd.ReadByte(); err != io.EOF {
				return false, bad("data after FQ")
			}
			return true, nil
		case strings.HasPrefix(l, "F> "):
			hh := l[3:]
			if len(hh) != 2 {
				return false, bad("block end line %q: checksum is not two hex digits", l)
			}
			v, err := strconv.ParseUint(hh, 16, 8)
			if err != nil {
				return false, bad("block end line %q: checksum is not hex", l)
			}
			if byte(v) != BlockChecksum(lines) {
				return false, bad("block checksum %02X, expected %02X for %q", v, BlockChecksum(lines), lines)
			}
			if len(props) == 0 {
				return false, bad("F> without proposals")
			}
			if len(props) > 5 {
				return false, bad("%d proposals in one block", len(props))
			}
			p.libLastFF = false
			return false, p.answerBlock(props)
		default:
			m := propRe.FindStringSubmatch(l)
			if m == nil {
				return false, bad("line %q is not a proposal, F>, FF, FQ or comment", l)
			}
			if m[2] != "EM" {
				return false, bad("proposal %q: type is not EM", l)
			}
			if m[6] != "0" {
				return false, bad("proposal %q: last field is not 0", l)
			}
			code := m[1][0]
			if code != 'C' && !(code == 'D' && p.c.Exp.Gzip && strings.Contains(p.c.SID, "G")) {
				return false, bad("proposal %q: code %c not negotiated", l, code)
			}
			us, _ := strconv.Atoi(m[4])
			cs, _ := strconv.Atoi(m[5])
			if !p.libPending[m[3]] {
				return false, bad("proposal for %s which is not a pending message of the library", m[3])
			}
			if p.libDeferred[m[3]] {
				return false, bad("%s proposed again in the session in which it was deferred", m[3])
			}
			for _, q := range props {
				if q.mid == m[3] {
					return false, bad("%s proposed twice in one block", m[3])
				}
			}
			props = append(props, libProp{mid: m[3], usize: us, csize: cs, code: code, block: p.blockNo})
			lines = append(lines, l)
		}
	}
}

func (p *peer) answerBlock(props []libProp) error {
	var el []Elem
	for _, cmt := range p.c.PreFS {
		el = append(el, Elem{Kind: "line", Text: cmt})
		p.res.Choices["comment-before-FS"]++
	}
	fs := "FS "
	for i := range props {
		tok := p.c.Answers[props[i].mid]
		if tok == "" {
			tok = "+"
		}
		fs += tok
		p.res.Choices["answer:"+tok]++
		switch tok[0] {
		case '+', 'Y', 'y', '!', 'A', 'a':
			props[i].answer = '+'
		case '-', 'N', 'n', 'R', 'r':
			props[i].answer = '-'
		case 'H', 'h':
			props[i].answer = '='
			if p.c.HoldIsAccept {
				props[i].answer = '+'
			}
		default:
			props[i].answer = '='
		}
	}
	el = append(el, Elem{Kind: "line", Text: fs})
	if err := p.emit(el...); err != nil {
		return err
	}
	for _, pr := range props {
		p.res.libProposed = append(p.res.libProposed, pr)
		switch pr.answer {
		case '-':
			delete(p.libPending, pr.mid)
		case '=':
			p.libDeferred[pr.mid] = true
		}
	}
	p.blockNo++
	for _, pr := range props {
		if pr.answer != '+' {
			continue
		}
		msg, err := p.readFrame(pr)
		if err != nil {
			return err
		}
		var want []byte
		for _, m := range p.c.Exp.Queue {
			if m.MID == pr.mid {
				want = m.Bytes
			}
		}
		if !bytes.Equal(msg, want) {
			return bad("message %s decodes to %d bytes that differ from the %d bytes queued", pr.mid, len(msg), len(want))
		}
		if pr.usize != len(msg) {
			return bad("proposal of %s announced an uncompressed size of %d, message has %d bytes", pr.mid, pr.usize, len(msg))
		}
		delete(p.libPending, pr.mid)
		p.res.Received = append(p.res.Received, Received{pr.mid, msg})
	}
	return nil
}

// readFrame reads exactly one frame from the stream, validating as it goes.
func (p *peer) readFrame(pr libProp) ([]byte, error) {
	var raw []byte
	get := func(n int) error {
		buf := make([]byte, n)
		if _, err := io.ReadFull(p.rd, buf); err != nil {
			return fmt.Errorf("in the frame of %s: %w", pr.mid, err)
		}
		raw = append(raw, buf...)
		return nil
	}
	if err := get(2); err != nil {
		return nil, err
	}
	if raw[0] != SOH {
		return nil, bad("transfer of %s does not start with SOH but 0x%02x", pr.mid, raw[0])
	}
	hl := int(raw[1])
	if err := get(hl); err != nil {
		return nil, err
	}
	for {
		if err := get(2); err != nil {
			return nil, err
		}
		t := raw[len(raw)-2]
		if t == EOT {
			break
		}
		if t != STX {
			return nil, bad("transfer of %s: byte 0x%02x where STX or EOT is required", pr.mid, t)
		}
		n := int(raw[len(raw)-1])
		if n == 0 {
			n = 256
		}
		if err := get(n); err != nil {
			return nil, err
		}
	}
	p.res.LibFrames++
	msg, err := Judge(raw, pr.code, pr.usize, pr.csize)
	if err != nil {
		return nil, bad("transfer of %s: %v", pr.mid, err)
	}
	return msg, nil
}

// checkOrder verifies, with hindsight (all compressed sizes are known once every message has been
// proposed), that every block held the first <=5 pending messages in (precedence, compressed size)
// order; ties may come in any order.
func (p *peer) checkOrder() error {
	prec := map[string]int{}
	for _, m := range p.c.Exp.Queue {
		prec[m.MID] = m.Precedence
	}
	csize := map[string]int{}
	for _, pr := range p.res.libProposed {
		csize[pr.mid] = pr.csize
	}
	less := func(a, b string) bool { // strictly before
		if prec[a] != prec[b] {
			return prec[a] < prec[b]
		}
		return csize[a] < csize[b]
	}
	pending := map[string]bool{}
	for _, m := range p.c.Exp.Queue {
		pending[m.MID] = true
	}
	byBlock := map[int][]libProp{}
	maxBlock := -1
	for _, pr := range p.res.libProposed {
		byBlock[pr.block] = append(byBlock[pr.block], pr)
		if pr.block > maxBlock {
			maxBlock = pr.block
		}
	}
	deferred := map[string]bool{}
	for b := 0; b <= maxBlock; b++ {
		blk := byBlock[b]
		for i := 1; i < len(blk); i++ {
			if less(blk[i].mid, blk[i-1].mid) {
				return bad("block %d proposes %s before %s, violating precedence-then-size order", b, blk[i-1].mid, blk[i].mid)
			}
		}
		in := map[string]bool{}
		for _, pr := range blk {
			in[pr.mid] = true
		}
		avail := 0
		for mid := range pending {
			if deferred[mid] {
				continue
			}
			avail++
			if in[mid] {
				continue
			}
			if _, known := csize[mid]; !known {
				continue
			}
			for _, pr := range blk {
				if less(mid, pr.mid) {
					return bad("block %d proposes %s although %s (higher precedence or smaller) was pending and left out", b, pr.mid, mid)
				}
			}
		}
		if len(blk) < 5 && len(blk) < avail {
			return bad("block %d has %d proposals although %d messages were pending", b, len(blk), avail)
		}
		for _, pr := range blk {
			switch pr.answer {
			case '+', '-':
				delete(pending, pr.mid)
			case '=':
				deferred[pr.mid] = true
			}
		}
	}
	return nil
}
