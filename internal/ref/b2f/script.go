package b2f

import (
	"bytes"
	"fmt"
)

// Elem is one structured element of a B2F byte stream. A recorded conforming transcript (list of
// Elems) can be mutated at any protocol layer and rendered again; checksums and sizes that are not
// explicitly overridden are recomputed, so that a mutation reaches the layer it aims at.
type Elem struct {
	Kind string `json:"kind"` // line | prop | end | frame | raw
	Text string `json:"text,omitempty"` // line: text without CR; raw: literal bytes

	// prop
	MID   string `json:"mid,omitempty"`
	Code  byte   `json:"code,omitempty"`
	USize int    `json:"usize,omitempty"`
	CSize int    `json:"csize,omitempty"`
	// overrides for the numeric fields of a proposal line (rendered verbatim when non-empty)
	USizeText string `json:"usize_text,omitempty"`
	CSizeText string `json:"csize_text,omitempty"`

	// end ("F> HH"): HH override
	HH string `json:"hh,omitempty"`

	// frame
	Title   string `json:"title,omitempty"`
	Offset  string `json:"offset,omitempty"`
	Payload []byte `json:"payload,omitempty"`
	Blocks  []int  `json:"blocks,omitempty"`
	Msg     []byte `json:"msg,omitempty"`
	LenByte *int   `json:"len_byte,omitempty"` // override of the header length byte
	CksAdd  int    `json:"cks_add,omitempty"`  // added to the correct data checksum
	Cut     int    `json:"cut,omitempty"`      // >0: render only the first Cut bytes of the frame
}

func (e Elem) propLine() string {
	us, cs := fmt.Sprint(e.USize), fmt.Sprint(e.CSize)
	if e.USizeText != "" {
		us = e.USizeText
	}
	if e.CSizeText != "" {
		cs = e.CSizeText
	}
	return fmt.Sprintf("F%c EM %s %s %s 0", e.Code, e.MID, us, cs)
}

// Render produces the byte stream.
func Render(el []Elem) []byte {
	var b bytes.Buffer
	var block []string
	for _, e := range el {
		switch e.Kind {
		case "line":
			b.WriteString(e.Text + "\r")
		case "raw":
			b.WriteString(e.Text)
		case "prop":
			l := e.propLine()
			block = append(block, l)
			b.WriteString(l + "\r")
		case "end":
			hh := e.HH
			if hh == "" {
				hh = fmt.Sprintf(" %02X", BlockChecksum(block))
			}
			b.WriteString("F>" + hh + "\r")
			block = nil
		case "frame":
			f := Frame(e.Title, e.Offset, e.Payload, e.Blocks)
			if e.LenByte != nil {
				f[1] = byte(*e.LenByte)
			}
			f[len(f)-1] += byte(e.CksAdd)
			if e.Cut > 0 && e.Cut < len(f) {
				f = f[:e.Cut]
			}
			b.Write(f)
		}
	}
	return b.Bytes()
}
