// Package mbox is the reference side of the mailbox properties (C10, C11, C12): a writer for
// Winlink messages in the canonical on-disk form, the notion "message bytes modulo the
// mailbox-private headers", an address normaliser written from the documentation of the three
// supported address forms, and the mailbox model of C10 (four folders, a deferred set, a mode).
// Nothing in here imports the library under test.
package mbox

import (
	"bytes"
	"fmt"
	"sort"
	"strings"
)

// File is one attachment.
type File struct {
	Name string `json:"name"`
	Data []byte `json:"data"`
}

// Msg is a Winlink message: header fields, body and attachments.
type Msg struct {
	MID     string   `json:"mid"`
	Date    string   `json:"date"` // YYYY/MM/DD HH:MM
	From    string   `json:"from"`
	To      []string `json:"to"`
	Cc      []string `json:"cc,omitempty"`
	Subject string   `json:"subject"`
	Body    []byte   `json:"body"`
	Files   []File   `json:"files,omitempty"`
	P2POnly bool     `json:"p2p_only,omitempty"`
	// Extra header fields as {name, value}; names must be in canonical MIME spelling (Xxx-Yyy).
	Extra [][2]string `json:"extra,omitempty"`
}

// Bytes renders the message in the Winlink message structure: "Mid" first, the other header
// fields sorted by name, an empty line, the body, and per attachment CRLF + data (the section
// separator), with a final CRLF after the last attachment. This is the canonical form: a parser
// followed by a writer reproduces it byte for byte.
func (m Msg) Bytes() []byte {
	type kv struct{ k, v string }
	var h []kv
	add := func(k, v string) { h = append(h, kv{k, v}) }
	add("Body", fmt.Sprint(len(m.Body)))
	for _, a := range m.Cc {
		add("Cc", a)
	}
	if m.Date != "" {
		add("Date", m.Date)
	}
	for _, f := range m.Files {
		add("File", fmt.Sprintf("%d %s", len(f.Data), f.Name))
	}
	if m.From != "" {
		add("From", m.From)
	}
	add("Mbo", "N0CALL")
	if m.Subject != "" {
		add("Subject", m.Subject)
	}
	for _, a := range m.To {
		add("To", a)
	}
	add("Type", "Private")
	if m.P2POnly {
		add("X-P2ponly", "true")
	}
	for _, e := range m.Extra {
		add(e[0], e[1])
	}
	sort.SliceStable(h, func(i, j int) bool { return h[i].k < h[j].k })
	var b bytes.Buffer
	fmt.Fprintf(&b, "Mid: %s\r\n", m.MID)
	for _, e := range h {
		fmt.Fprintf(&b, "%s: %s\r\n", e.k, e.v)
	}
	b.WriteString("\r\n")
	b.Write(m.Body)
	if len(m.Files) > 0 {
		b.WriteString("\r\n")
	}
	for _, f := range m.Files {
		b.Write(f.Data)
		b.WriteString("\r\n")
	}
	return b.Bytes()
}

// PrivateHeaders are the mailbox's own bookkeeping fields; they never belong to the message.
var PrivateHeaders = []string{"X-Unread", "X-FilePath", "X-P2POnly"}

func isPrivate(key string) bool {
	for _, p := range PrivateHeaders {
		if strings.EqualFold(key, p) {
			return true
		}
	}
	return false
}

// splitHeader returns the header lines (without CRLF) and the rest after the empty line.
func splitHeader(raw []byte) (lines []string, rest []byte, ok bool) {
	i := bytes.Index(raw, []byte("\r\n\r\n"))
	if i < 0 {
		return nil, nil, false
	}
	return strings.Split(string(raw[:i]), "\r\n"), raw[i+4:], true
}

// Public returns raw with the header lines of the listed private fields removed (all three when
// none is listed). Everything else, including the order of the remaining lines, is kept.
func Public(raw []byte, drop ...string) []byte {
	lines, rest, ok := splitHeader(raw)
	if !ok {
		return raw
	}
	var b bytes.Buffer
	for _, l := range lines {
		k, _, _ := strings.Cut(l, ":")
		if len(drop) == 0 && isPrivate(k) {
			continue
		}
		skip := false
		for _, d := range drop {
			if strings.EqualFold(k, d) {
				skip = true
			}
		}
		if skip {
			continue
		}
		b.WriteString(l)
		b.WriteString("\r\n")
	}
	b.WriteString("\r\n")
	b.Write(rest)
	return b.Bytes()
}

// HeaderValues lists the values of field key (case-insensitive) in raw.
func HeaderValues(raw []byte, key string) (vals []string) {
	lines, _, _ := splitHeader(raw)
	for _, l := range lines {
		k, v, _ := strings.Cut(l, ":")
		if strings.EqualFold(k, key) {
			vals = append(vals, strings.TrimSpace(v))
		}
	}
	return
}

// PrivateIn names the private header fields present in raw.
func PrivateIn(raw []byte) (found []string) {
	lines, _, _ := splitHeader(raw)
	for _, l := range lines {
		k, _, _ := strings.Cut(l, ":")
		if isPrivate(k) {
			found = append(found, l)
		}
	}
	return
}

// NormAddr maps the three documented address forms to one spelling: CALL and CALL@winlink.org
// are the Winlink address CALL (call signs are case-insensitive), anything else with an '@' is an
// SMTP address, and proto:addr is kept. Comparison of the results is case-insensitive.
func NormAddr(s string) string {
	s = strings.TrimSpace(s)
	if p := strings.Split(s, ":"); len(p) == 2 {
		if p[0] == "" {
			return strings.ToUpper(p[1])
		}
		return strings.ToUpper(p[0] + ":" + p[1])
	}
	at := strings.Split(s, "@")
	switch {
	case len(at) == 1:
		return strings.ToUpper(s)
	case strings.EqualFold(at[1], "winlink.org"):
		return strings.ToUpper(at[0])
	}
	return strings.ToUpper("SMTP:" + s)
}

// ---- the C10 model -----------------------------------------------------------------------------

// Stored is one message in a folder.
type Stored struct {
	Public  []byte   // message bytes without private headers
	Unread  bool     // X-Unread flag
	P2POnly bool     // marked "deliver to a P2P peer only"
	Rcpts   []string // To + Cc as written
}

// Model is the mailbox of the C10 statement.
type Model struct {
	In, Out, Sent, Archive map[string]*Stored
	Deferred               map[string]bool
	SendOnly               bool
}

func NewModel() *Model {
	return &Model{In: map[string]*Stored{}, Out: map[string]*Stored{}, Sent: map[string]*Stored{}, Archive: map[string]*Stored{}, Deferred: map[string]bool{}}
}

// Folder returns the named folder ("in", "out", "sent", "archive").
func (m *Model) Folder(name string) map[string]*Stored {
	switch name {
	case "in":
		return m.In
	case "out":
		return m.Out
	case "sent":
		return m.Sent
	}
	return m.Archive
}

func stored(msg Msg) *Stored {
	return &Stored{Public: Public(msg.Bytes()), P2POnly: msg.P2POnly, Rcpts: append(append([]string{}, msg.To...), msg.Cc...)}
}

// Restart is a new handler on the same directory followed by Prepare.
func (m *Model) Restart(sendOnly bool) { m.SendOnly = sendOnly; m.Prepare() }

// Prepare starts a session: deferrals last for one session.
func (m *Model) Prepare() { m.Deferred = map[string]bool{} }

// AddOut posts a message: it is in the outbox (and nowhere else among outbox/sent).
func (m *Model) AddOut(msg Msg) { m.Out[msg.MID] = stored(msg) }

// CanAddOut: message identifiers are unique, a new outbound message never reuses one.
func (m *Model) CanAddOut(mid string) bool { return m.Out[mid] == nil && m.Sent[mid] == nil }

// SetSent moves an outbox message to sent. Precondition: it is in the outbox.
func (m *Model) SetSent(mid string) {
	m.Sent[mid] = m.Out[mid]
	delete(m.Out, mid)
}

// SetDeferred holds the message back until the next session.
func (m *Model) SetDeferred(mid string) { m.Deferred[mid] = true }

// ProcessInbound stores a received message intact, flagged unread.
func (m *Model) ProcessInbound(msg Msg) {
	s := stored(msg)
	s.Unread = true
	m.In[msg.MID] = s
}

// Answer to a proposal: '=' always in send-only mode, '-' iff already in the inbox, else '+'.
func (m *Model) Answer(mid string) byte {
	switch {
	case m.SendOnly:
		return '='
	case m.In[mid] != nil:
		return '-'
	}
	return '+'
}

// Eligible is the set a query for the given forwarders must return: nothing deferred; for a CMS
// (no forwarders) everything not P2P-only; for a P2P peer only messages whose sole recipient is
// one of the announced forwarders.
func (m *Model) Eligible(fws []string) []string {
	var out []string
	for mid, s := range m.Out {
		if m.Deferred[mid] {
			continue
		}
		if len(fws) == 0 {
			if !s.P2POnly {
				out = append(out, mid)
			}
			continue
		}
		if len(s.Rcpts) != 1 {
			continue
		}
		for _, fw := range fws {
			if strings.EqualFold(NormAddr(s.Rcpts[0]), NormAddr(fw)) {
				out = append(out, mid)
				break
			}
		}
	}
	sort.Strings(out)
	return out
}
