// Package agwsim is a small AGWPE TNC ("AGW Packet Engine" TCP/IP socket interface) simulator.
//
// It is written from the published frame layout of the AGWPE socket interface and from the
// conventions a Direwolf TNC shows on the wire, not from the code of the library under test:
//
//	offset  0      port (0 = first radio port)
//	        1..3   reserved
//	        4      data kind (ASCII letter)
//	        5      reserved
//	        6      PID
//	        7      reserved
//	        8..17  call from  (ASCII, NUL padded)
//	       18..27  call to    (ASCII, NUL padded)
//	       28..31  data length, little endian
//	       32..35  user (reserved)
//	       36..    data
//
// Dialogue of the simulator (host = the application, tnc = this package):
//
//	host R                      -> tnc R, 8 bytes: major u16, 0 u16, minor u16, 0 u16
//	host g(port)                -> tnc g(port), 12 bytes, byte 6 = MAXFRAME
//	host X(port, from=mycall)   -> tnc X(port, from=mycall), 1 byte: 01 ok
//	host C|v(from=mycall, to=remote [, count + count x 10 byte digis])
//	                            -> tnc C(from=remote, to=mycall) "*** CONNECTED With Station <remote>\r"
//	tnc  C(from=remote, to=mycall) "*** CONNECTED To Station <remote>\r"     (InboundConnect)
//	host Y(from, to)            -> tnc Y(from, to) 4 bytes LE: frames outstanding in the TX queue
//	host D(from=mycall, to=remote, data)   queued for transmission: outstanding += ceil(len/paclen)
//	tnc  D(from=remote, to=mycall, data)   (Send)
//	host d(from=mycall, to=remote) -> tnc d(from=remote, to=mycall) "*** DISCONNECTED From Station <remote>\r"
//	host x(from=mycall)         unregister, no reply
//	host y(port)                -> tnc y(port) 4 bytes LE: frames outstanding on the port
//
// The TX queue never shrinks between a D frame and the next Y poll of that connection: frames
// leave the queue (Config.Drain, cycled) only directly after a Y reply has been sent, the way a
// radio channel drains while the host is busy polling. So the first poll after a D frame
// always reports at least one outstanding frame, as real hardware does.
//
// Every frame received from the host and every frame sent to the host is recorded with a
// sequence number drawn from one counter. A frame sent to the host is recorded *before* its
// first byte is written, so anything the host does in reaction to a frame is ordered after
// that frame's event; that is what event-order oracles rely on (no clocks).
package agwsim

import (
	"encoding/binary"
	"errors"
	"fmt"
	"io"
	"net"
	"sync"
	"time"
)

// HeaderLen is the size of the fixed AGWPE header.
const HeaderLen = 36

// MaxHostData is the largest data field the simulator accepts from the host before it declares
// the host's byte stream out of sync (the biggest legitimate host frame is the 510 byte login).
const MaxHostData = 1 << 20

// Frame is one AGWPE frame.
type Frame struct {
	Port    uint8
	Kind    byte
	PID     uint8
	From    string // call from, up to the first NUL
	To      string // call to, up to the first NUL
	Data    []byte
	DeclLen uint32          // data length as declared in the header (== len(Data) for well-formed frames)
	User    uint32          // bytes 32..35
	Header  [HeaderLen]byte // the raw header as received (zero for frames built by the simulator)
}

func (f Frame) String() string {
	d := f.Data
	suffix := ""
	if len(d) > 24 {
		d, suffix = d[:24], "..."
	}
	return fmt.Sprintf("port=%d kind=%q pid=%#02x from=%q to=%q len=%d data=%q%s", f.Port, string(rune(f.Kind)), f.PID, f.From, f.To, len(f.Data), d, suffix)
}

func putCall(dst []byte, s string) {
	for i := range dst {
		dst[i] = 0
	}
	copy(dst, s)
}

func getCall(b []byte) string {
	for i, c := range b {
		if c == 0 {
			return string(b[:i])
		}
	}
	return string(b)
}

// EncodeHeader builds the 36 byte header with an explicit data length field.
func EncodeHeader(port uint8, kind byte, pid uint8, from, to string, dataLen uint32, user uint32) []byte {
	h := make([]byte, HeaderLen)
	h[0] = port
	h[4] = kind
	h[6] = pid
	putCall(h[8:18], from)
	putCall(h[18:28], to)
	binary.LittleEndian.PutUint32(h[28:32], dataLen)
	binary.LittleEndian.PutUint32(h[32:36], user)
	return h
}

// Encode returns the wire bytes of a well-formed frame (declared length = len(Data)).
func (f Frame) Encode() []byte {
	b := EncodeHeader(f.Port, f.Kind, f.PID, f.From, f.To, uint32(len(f.Data)), f.User)
	return append(b, f.Data...)
}

// DecodeHeader parses a 36 byte header.
func DecodeHeader(h []byte) Frame {
	var f Frame
	copy(f.Header[:], h)
	f.Port = h[0]
	f.Kind = h[4]
	f.PID = h[6]
	f.From = getCall(h[8:18])
	f.To = getCall(h[18:28])
	f.DeclLen = binary.LittleEndian.Uint32(h[28:32])
	f.User = binary.LittleEndian.Uint32(h[32:36])
	return f
}

// Seg says how the bytes of one frame are handed to TCP: the byte string is cut at the offsets
// Cuts (ascending, 0 < cut < len; others are ignored) and GapsMs[i] milliseconds pass before
// piece i is written (missing entries = 0).
type Seg struct {
	Cuts   []int `json:"cuts,omitempty"`
	GapsMs []int `json:"gaps,omitempty"`
}

// Dir is the direction of a recorded frame.
type Dir int

const (
	HostToTNC Dir = iota
	TNCToHost
)

// Event is one recorded frame.
type Event struct {
	Seq   uint64
	Dir   Dir
	Frame Frame
	Auto  bool   // TNCToHost: sent by the built-in responder (false: sent with Send/SendRaw)
	Y     int64  // TNCToHost 'Y' replies of the built-in responder: the count reported, else -1
	Note  string // free text ("raw", "desync", ...)
}

// Out is one frame the responder wants to send. Bytes are what is written; Frame is what is
// recorded (they differ only when a Hook damages a reply on purpose).
type Out struct {
	Frame Frame
	Bytes []byte
	Seg   Seg
	Y     int64 // count reported by a 'Y' reply, -1 otherwise
	Note  string
	Then  string // "", "cut" (orderly close after this frame) or "rst" (reset after this frame)
}

// Hook lets a test replace the standard replies to the ord-th (0-based) frame received from the
// host. It runs on the simulator's reader goroutine. nil = standard behaviour.
type Hook func(ord int, req Frame, std []Out) []Out

// Config is the behaviour of the simulated TNC.
type Config struct {
	MaxFrame int                        // MAXFRAME reported in the 'g' reply (byte 6)
	Paclen   int                        // a host D frame occupies ceil(len/Paclen) places in the TX queue (<=0: one place per frame)
	Drain    []int                      // places leaving a connection's TX queue after each Y reply, cycled (empty = everything)
	NulTerm  bool                       // texts of C and d frames carry a trailing NUL, as Direwolf sends them
	Refuse   bool                       // answer C/v with a 'd' "*** DISCONNECTED RETRYOUT With <remote>" instead of connecting
	// DocYOrder: the TNC follows the AGWPE document for 'Y' queries - CallFrom/CallTo "should reflect the order
	// used to start the connection": a query in the other order names no connection it knows (count 0).
	DocYOrder bool
	ReplySeg func(kind byte, n int) Seg // segmentation of the n-th standard reply (nil: one write)
	Hook     Hook
}

type connKey struct {
	port uint8
	a, b string // a <= b
}

func key(port uint8, x, y string) connKey {
	if x > y {
		x, y = y, x
	}
	return connKey{port, x, y}
}

type connState struct {
	connected   bool
	outstanding int
	starter     string // the call that started the connection ("" = not recorded)
}

// Sim is one simulated TNC listening on a loopback TCP port. It serves a single host link.
type Sim struct {
	cfg Config
	ln  net.Listener

	mu       sync.Mutex
	cond     *sync.Cond
	seq      uint64
	events   []Event
	conns    map[connKey]*connState
	drainIdx int
	replies  int
	hostN    int
	link     net.Conn
	linkUp   bool // a host has connected
	linkDown bool // the host link has ended (either side)
	hostGone bool // the link ended because the host closed it or reset it
	desync   bool
	closed   bool

	wmu sync.Mutex // serialises frames written to the host
	wg  sync.WaitGroup
}

// Start opens a listener on 127.0.0.1 with a kernel-assigned port.
func Start(cfg Config) (*Sim, error) {
	ln, err := net.Listen("tcp4", "127.0.0.1:0")
	if err != nil {
		return nil, err
	}
	s := &Sim{cfg: cfg, ln: ln, conns: map[connKey]*connState{}}
	s.cond = sync.NewCond(&s.mu)
	s.wg.Add(1)
	go s.serve()
	return s, nil
}

// Addr is the host:port to hand to the application.
func (s *Sim) Addr() string { return s.ln.Addr().String() }

func (s *Sim) serve() {
	defer s.wg.Done()
	c, err := s.ln.Accept()
	s.ln.Close() // one link per simulator
	if err != nil {
		s.mu.Lock()
		s.linkDown = true
		s.cond.Broadcast()
		s.mu.Unlock()
		return
	}
	if tc, ok := c.(*net.TCPConn); ok {
		tc.SetNoDelay(true)
	}
	s.mu.Lock()
	if s.closed {
		s.mu.Unlock()
		c.Close()
		return
	}
	s.link, s.linkUp = c, true
	s.cond.Broadcast()
	s.mu.Unlock()
	s.readLoop(c)
}

func (s *Sim) readLoop(c net.Conn) {
	hostEnded := false
	defer func() {
		s.mu.Lock()
		if !s.linkDown {
			s.hostGone = hostEnded
		}
		s.linkDown = true
		s.cond.Broadcast()
		s.mu.Unlock()
		c.Close()
	}()
	hdr := make([]byte, HeaderLen)
	for {
		if _, err := io.ReadFull(c, hdr); err != nil {
			hostEnded = true
			if err == io.ErrUnexpectedEOF {
				s.record(Event{Dir: HostToTNC, Frame: DecodeHeader(append(hdr[:0:0], hdr...)), Y: -1, Note: "truncated-header"})
			}
			return
		}
		f := DecodeHeader(hdr)
		if f.DeclLen > MaxHostData {
			s.mu.Lock()
			s.desync = true
			s.mu.Unlock()
			s.record(Event{Dir: HostToTNC, Frame: f, Y: -1, Note: "desync"})
			return
		}
		f.Data = make([]byte, f.DeclLen)
		if _, err := io.ReadFull(c, f.Data); err != nil {
			hostEnded = true
			s.record(Event{Dir: HostToTNC, Frame: f, Y: -1, Note: "truncated-data"})
			return
		}
		s.mu.Lock()
		ord := s.hostN
		s.hostN++
		s.seq++
		s.events = append(s.events, Event{Seq: s.seq, Dir: HostToTNC, Frame: f, Y: -1})
		outs := s.standardReplies(f)
		s.cond.Broadcast()
		hook := s.cfg.Hook
		s.mu.Unlock()
		if hook != nil {
			outs = hook(ord, f, outs)
		}
		for _, o := range outs {
			if err := s.send(o, true); err != nil {
				return
			}
			if o.Then == "cut" || o.Then == "rst" {
				s.CutLink(o.Then == "rst")
				return
			}
		}
	}
}

func (s *Sim) text(t string) []byte {
	b := []byte(t)
	if s.cfg.NulTerm {
		b = append(b, 0)
	}
	return b
}

// standardReplies computes the conforming answer to one host frame and updates the link and
// TX queue state. Called with s.mu held.
func (s *Sim) standardReplies(f Frame) []Out {
	mk := func(fr Frame, y int64) Out {
		fr.DeclLen = uint32(len(fr.Data))
		o := Out{Frame: fr, Bytes: fr.Encode(), Y: y}
		if s.cfg.ReplySeg != nil {
			o.Seg = s.cfg.ReplySeg(fr.Kind, s.replies)
		}
		s.replies++
		return o
	}
	switch f.Kind {
	case 'R':
		d := make([]byte, 8)
		binary.LittleEndian.PutUint16(d[0:], 2005)
		binary.LittleEndian.PutUint16(d[4:], 127)
		return []Out{mk(Frame{Kind: 'R', Data: d}, -1)}
	case 'g':
		d := make([]byte, 12)
		d[0] = 0    // 1200 baud
		d[1] = 0xff // traffic level: not in auto update mode
		d[2] = 30   // TX delay
		d[3] = 10   // TX tail
		d[4] = 63   // persist
		d[5] = 10   // slot time
		d[6] = byte(s.cfg.MaxFrame)
		n := 0
		for k, c := range s.conns {
			if k.port == f.Port && c.connected {
				n++
			}
		}
		d[7] = byte(n)
		return []Out{mk(Frame{Port: f.Port, Kind: 'g', Data: d}, -1)}
	case 'X':
		return []Out{mk(Frame{Port: f.Port, Kind: 'X', From: f.From, Data: []byte{1}}, -1)}
	case 'x':
		return nil
	case 'C', 'v':
		k := key(f.Port, f.From, f.To)
		if s.cfg.Refuse {
			return []Out{mk(Frame{Port: f.Port, Kind: 'd', From: f.To, To: f.From, Data: s.text("*** DISCONNECTED RETRYOUT With " + f.To + "\r")}, -1)}
		}
		s.conns[k] = &connState{connected: true, starter: f.From}
		return []Out{mk(Frame{Port: f.Port, Kind: 'C', From: f.To, To: f.From, Data: s.text("*** CONNECTED With Station " + f.To + "\r")}, -1)}
	case 'D':
		k := key(f.Port, f.From, f.To)
		if c := s.conns[k]; c != nil && c.connected {
			n := 1
			if s.cfg.Paclen > 0 && len(f.Data) > s.cfg.Paclen {
				n = (len(f.Data) + s.cfg.Paclen - 1) / s.cfg.Paclen
			}
			c.outstanding += n
		}
		return nil
	case 'Y':
		k := key(f.Port, f.From, f.To)
		n := 0
		c := s.conns[k]
		if c != nil && s.cfg.DocYOrder && c.starter != "" && f.From != c.starter {
			c = nil // asked in the wrong order: not a connection this TNC knows
		}
		if c != nil {
			n = c.outstanding
		}
		d := make([]byte, 4)
		binary.LittleEndian.PutUint32(d, uint32(n))
		// the channel keeps draining after the reply has been composed
		if c != nil && c.outstanding > 0 {
			dr := c.outstanding
			if len(s.cfg.Drain) > 0 {
				dr = s.cfg.Drain[s.drainIdx%len(s.cfg.Drain)]
				s.drainIdx++
			}
			if dr > c.outstanding {
				dr = c.outstanding
			}
			if dr > 0 {
				c.outstanding -= dr
			}
		}
		return []Out{mk(Frame{Port: f.Port, Kind: 'Y', From: f.From, To: f.To, Data: d}, int64(n))}
	case 'y':
		n := 0
		for k, c := range s.conns {
			if k.port == f.Port {
				n += c.outstanding
			}
		}
		d := make([]byte, 4)
		binary.LittleEndian.PutUint32(d, uint32(n))
		return []Out{mk(Frame{Port: f.Port, Kind: 'y', Data: d}, -1)}
	case 'd':
		k := key(f.Port, f.From, f.To)
		delete(s.conns, k)
		return []Out{mk(Frame{Port: f.Port, Kind: 'd', From: f.To, To: f.From, Data: s.text("*** DISCONNECTED From Station " + f.To + "\r")}, -1)}
	}
	return nil
}

func (s *Sim) record(e Event) uint64 {
	s.mu.Lock()
	s.seq++
	e.Seq = s.seq
	s.events = append(s.events, e)
	s.cond.Broadcast()
	s.mu.Unlock()
	return e.Seq
}

var ErrLinkDown = errors.New("agwsim: host link is down")

// send records the frame and then writes its bytes piece by piece.
func (s *Sim) send(o Out, auto bool) error {
	s.wmu.Lock()
	defer s.wmu.Unlock()
	s.mu.Lock()
	c := s.link
	down := s.linkDown || c == nil
	s.mu.Unlock()
	if down {
		return ErrLinkDown
	}
	s.record(Event{Dir: TNCToHost, Frame: o.Frame, Auto: auto, Y: o.Y, Note: o.Note})
	b := o.Bytes
	prev := 0
	piece := 0
	write := func(p []byte) error {
		if piece < len(o.Seg.GapsMs) && o.Seg.GapsMs[piece] > 0 {
			time.Sleep(time.Duration(o.Seg.GapsMs[piece]) * time.Millisecond)
		}
		piece++
		if len(p) == 0 {
			return nil
		}
		c.SetWriteDeadline(time.Now().Add(60 * time.Second))
		_, err := c.Write(p)
		return err
	}
	for _, cut := range o.Seg.Cuts {
		if cut <= prev || cut >= len(b) {
			continue
		}
		if err := write(b[prev:cut]); err != nil {
			s.hostEnded()
			return err
		}
		prev = cut
	}
	if err := write(b[prev:]); err != nil {
		s.hostEnded()
		return err
	}
	return nil
}

func (s *Sim) hostEnded() {
	s.mu.Lock()
	if !s.linkDown {
		s.hostGone = true
	}
	s.linkDown = true
	s.cond.Broadcast()
	c := s.link
	s.mu.Unlock()
	if c != nil {
		c.Close()
	}
}

// Send transmits a well-formed frame to the host, split as seg says.
func (s *Sim) Send(f Frame, seg Seg) error {
	f.DeclLen = uint32(len(f.Data))
	return s.send(Out{Frame: f, Bytes: f.Encode(), Seg: seg, Y: -1}, false)
}

// SendRaw transmits arbitrary bytes; logged is the frame the first 36 bytes would decode to.
func (s *Sim) SendRaw(b []byte, seg Seg, note string) error {
	var f Frame
	if len(b) >= HeaderLen {
		f = DecodeHeader(b[:HeaderLen])
		f.Data = b[HeaderLen:]
	}
	if note == "" {
		note = "raw"
	}
	return s.send(Out{Frame: f, Bytes: b, Seg: seg, Y: -1, Note: note}, false)
}

// InboundConnect announces a connection initiated by remote to the registered call mycall and
// marks the link as connected in the simulator.
func (s *Sim) InboundConnect(port uint8, remote, mycall string, seg Seg) error {
	s.mu.Lock()
	s.conns[key(port, remote, mycall)] = &connState{connected: true, starter: remote}
	s.mu.Unlock()
	return s.Send(Frame{Port: port, Kind: 'C', From: remote, To: mycall, Data: s.text("*** CONNECTED To Station " + remote + "\r")}, seg)
}

// RemoteDisconnect reports that remote has closed the connection.
func (s *Sim) RemoteDisconnect(port uint8, remote, mycall string, seg Seg) error {
	s.mu.Lock()
	delete(s.conns, key(port, remote, mycall))
	s.mu.Unlock()
	return s.Send(Frame{Port: port, Kind: 'd', From: remote, To: mycall, Data: s.text("*** DISCONNECTED From Station " + remote + "\r")}, seg)
}

// Outstanding returns the TX queue length of a connection.
func (s *Sim) Outstanding(port uint8, a, b string) int {
	s.mu.Lock()
	defer s.mu.Unlock()
	if c := s.conns[key(port, a, b)]; c != nil {
		return c.outstanding
	}
	return 0
}

// Events returns a copy of the log.
func (s *Sim) Events() []Event {
	s.mu.Lock()
	defer s.mu.Unlock()
	return append([]Event(nil), s.events...)
}

// Seq is the sequence number of the latest event.
func (s *Sim) Seq() uint64 { s.mu.Lock(); defer s.mu.Unlock(); return s.seq }

// WaitFor blocks until pred holds for the log (true) or the host link has ended or the
// simulator was closed while pred does not hold (false).
func (s *Sim) WaitFor(pred func(ev []Event) bool) bool {
	s.mu.Lock()
	defer s.mu.Unlock()
	for {
		if pred(s.events) {
			return true
		}
		if s.linkDown || s.closed {
			return false
		}
		s.cond.Wait()
	}
}

// WaitLinkDown blocks until the host link has ended (or never came up and the simulator was
// closed) and reports whether it was the host that ended it.
func (s *Sim) WaitLinkDown() (byHost bool) {
	s.mu.Lock()
	defer s.mu.Unlock()
	for !s.linkDown && !s.closed {
		s.cond.Wait()
	}
	return s.hostGone
}

// LinkDown reports whether the host link has ended, and whether the host ended it.
func (s *Sim) LinkDown() (down, byHost bool) {
	s.mu.Lock()
	defer s.mu.Unlock()
	return s.linkDown, s.hostGone
}

// Desync reports whether the host's byte stream stopped being parseable as AGWPE frames.
func (s *Sim) Desync() bool { s.mu.Lock(); defer s.mu.Unlock(); return s.desync }

// CutLink ends the host link from the TNC side: orderly close, or a reset.
func (s *Sim) CutLink(rst bool) {
	s.mu.Lock()
	c := s.link
	already := s.linkDown
	s.linkDown = true
	s.cond.Broadcast()
	s.mu.Unlock()
	if c == nil || already {
		return
	}
	if tc, ok := c.(*net.TCPConn); ok && rst {
		tc.SetLinger(0)
	}
	c.Close()
}

// Close stops the simulator and waits for its goroutines.
func (s *Sim) Close() {
	s.mu.Lock()
	s.closed = true
	c := s.link
	s.linkDown = true
	s.cond.Broadcast()
	s.mu.Unlock()
	s.ln.Close()
	if c != nil {
		c.Close()
	}
	s.wg.Wait()
}

// Poke wakes every WaitFor so that it re-evaluates its predicate (for predicates that also look
// at state outside the log).
func (s *Sim) Poke() { s.mu.Lock(); s.cond.Broadcast(); s.mu.Unlock() }

// MarkConnected tells the simulator that a link between a and b exists on port (for tests that
// announce an inbound connection with SendRaw).
func (s *Sim) MarkConnected(port uint8, a, b string) {
	s.mu.Lock()
	s.conns[key(port, a, b)] = &connState{connected: true}
	s.mu.Unlock()
}
