package agwsim

import (
	"bytes"
	"encoding/binary"
	"encoding/hex"
	"io"
	"net"
	"testing"
)

// A register frame assembled by hand from the AGWPE layout: port 1, kind 'X', call from
// "LA5NTA-1", no data.
const regHex = "01000000" + "58" + "00" + "00" + "00" +
	"4c41354e54412d310000" + "00000000000000000000" + "00000000" + "00000000"

func TestLayout(t *testing.T) {
	want, _ := hex.DecodeString(regHex)
	got := Frame{Port: 1, Kind: 'X', From: "LA5NTA-1"}.Encode()
	if !bytes.Equal(got, want) {
		t.Fatalf("encode\n got %x\nwant %x", got, want)
	}
	f := DecodeHeader(want)
	if f.Port != 1 || f.Kind != 'X' || f.From != "LA5NTA-1" || f.To != "" || f.DeclLen != 0 {
		t.Fatalf("decode: %+v", f)
	}
	// connected data, PID F0, 3 bytes
	d := Frame{Port: 2, Kind: 'D', PID: 0xf0, From: "N0CALL", To: "LA5NTA-15", Data: []byte("abc"), User: 7}.Encode()
	if len(d) != 39 || d[0] != 2 || d[4] != 'D' || d[6] != 0xf0 || string(d[8:14]) != "N0CALL" || d[14] != 0 ||
		string(d[18:27]) != "LA5NTA-15" || d[27] != 0 || binary.LittleEndian.Uint32(d[28:]) != 3 || d[32] != 7 || string(d[36:]) != "abc" {
		t.Fatalf("D frame: %x", d)
	}
}

// hostRead reads one frame the way a host would.
func hostRead(t *testing.T, c net.Conn) Frame {
	h := make([]byte, HeaderLen)
	if _, err := io.ReadFull(c, h); err != nil {
		t.Fatal(err)
	}
	f := DecodeHeader(h)
	f.Data = make([]byte, f.DeclLen)
	if _, err := io.ReadFull(c, f.Data); err != nil {
		t.Fatal(err)
	}
	return f
}

func TestDialogue(t *testing.T) {
	s, err := Start(Config{MaxFrame: 4, Paclen: 100, Drain: []int{0, 2}, NulTerm: true})
	if err != nil {
		t.Fatal(err)
	}
	defer s.Close()
	c, err := net.Dial("tcp", s.Addr())
	if err != nil {
		t.Fatal(err)
	}
	defer c.Close()
	send := func(f Frame) { c.Write(f.Encode()) }

	send(Frame{Port: 1, Kind: 'g'})
	if f := hostRead(t, c); f.Kind != 'g' || f.Port != 1 || len(f.Data) != 12 || f.Data[6] != 4 {
		t.Fatalf("g: %v", f)
	}
	send(Frame{Port: 1, Kind: 'X', From: "ME-1"})
	if f := hostRead(t, c); f.Kind != 'X' || f.From != "ME-1" || !bytes.Equal(f.Data, []byte{1}) {
		t.Fatalf("X: %v", f)
	}
	send(Frame{Port: 1, Kind: 'C', From: "ME-1", To: "YOU"})
	if f := hostRead(t, c); f.Kind != 'C' || f.From != "YOU" || f.To != "ME-1" || string(f.Data) != "*** CONNECTED With Station YOU\r\x00" {
		t.Fatalf("C: %v", f)
	}
	y := func() uint32 {
		send(Frame{Port: 1, Kind: 'Y', From: "ME-1", To: "YOU"})
		f := hostRead(t, c)
		if f.Kind != 'Y' || f.From != "ME-1" || f.To != "YOU" || len(f.Data) != 4 {
			t.Fatalf("Y: %v", f)
		}
		return binary.LittleEndian.Uint32(f.Data)
	}
	if n := y(); n != 0 {
		t.Fatalf("outstanding %d", n)
	}
	send(Frame{Port: 1, Kind: 'D', PID: 0xf0, From: "ME-1", To: "YOU", Data: make([]byte, 250)}) // 3 places
	// drain schedule 0,2: the idle poll above did not consume an entry
	for i, want := range []uint32{3, 3, 1, 1, 0} {
		if n := y(); n != want {
			t.Fatalf("poll %d: outstanding %d, want %d", i, n, want)
		}
	}
	if err := s.Send(Frame{Port: 1, Kind: 'D', PID: 0xf0, From: "YOU", To: "ME-1", Data: []byte("hello world")}, Seg{Cuts: []int{5, 36, 40}, GapsMs: []int{0, 1, 1, 1}}); err != nil {
		t.Fatal(err)
	}
	if f := hostRead(t, c); f.Kind != 'D' || string(f.Data) != "hello world" {
		t.Fatalf("D: %v", f)
	}
	send(Frame{Port: 1, Kind: 'd', From: "ME-1", To: "YOU"})
	if f := hostRead(t, c); f.Kind != 'd' || f.From != "YOU" || f.To != "ME-1" {
		t.Fatalf("d: %v", f)
	}
	send(Frame{Port: 1, Kind: 'x', From: "ME-1"})
	c.Close()
	if !s.WaitLinkDown() {
		t.Fatal("link not ended by host")
	}
	var seq uint64
	kinds := ""
	for _, e := range s.Events() {
		if e.Seq <= seq {
			t.Fatal("sequence not increasing")
		}
		seq = e.Seq
		if e.Dir == HostToTNC {
			kinds += string(rune(e.Frame.Kind))
		}
	}
	if kinds != "gXCYDYYYYYdx" {
		t.Fatalf("host frames %q", kinds)
	}
}
