package lzhuf

import (
	"os"
	"testing"
)

type sm struct{ s uint64 }

func (r *sm) next() uint64 {
	r.s += 0x9e3779b97f4a7c15
	z := r.s
	z = (z ^ (z >> 30)) * 0xbf58476d1ce4e5b9
	z = (z ^ (z >> 27)) * 0x94d049bb133111eb
	return z ^ (z >> 31)
}

// DeepTreeInput builds a text whose LZ parse yields match-length symbols with Fibonacci-like
// frequencies (phase-jumping periodic text), so that the adaptive Huffman tree becomes a long chain
// on top of the ~300 rarely used symbols; rare literal bytes are sprinkled in late.
func DeepTreeInput(seed uint64, period int, segments int) []byte {
	r := &sm{seed}
	pat := make([]byte, period)
	for i := range pat {
		pat[i] = byte('A' + i)
	}
	// tail lengths for the 8 rarer symbols, most frequent first, and the cumulative Fibonacci weights
	tails := []int{59, 58, 57, 56, 55, 54, 53, 52}
	weights := []int{21, 13, 8, 5, 3, 2, 1, 1} // plus 34 for the len-60 symbol, realised as k extra full matches
	var out []byte
	phase := 0
	rare := byte(0)
	for s := 0; s < segments; s++ {
		// choose tail symbol
		x := int(r.next() % 54)
		ti := 0
		for x >= weights[ti] {
			x -= weights[ti]
			ti++
		}
		// number of full 60-byte matches in this segment: mean 34/54
		k := 0
		for r.next()%88 < 34 && k < 6 {
			k++
		}
		n := 60*k + tails[ti]
		// jump to a random different phase
		phase = (phase + 1 + int(r.next()%uint64(period-1))) % period
		for i := 0; i < n; i++ {
			out = append(out, pat[(phase+i)%period])
		}
		phase = (phase + n) % period
		if s > segments*3/4 && s%97 == 0 {
			out = append(out, rare) // a literal never seen before
			rare++
		}
	}
	return out
}

func TestDepthExperiment(t *testing.T) {
	if os.Getenv("VERIF_EXPERIMENT") == "" {
		t.Skip("experiment; set VERIF_EXPERIMENT=1")
	}
	for _, period := range []int{13} {
		in := DeepTreeInput(1, period, 30000)
		z, st := Encode(in, true)
		out, _, err := Decode(z, true)
		type kv struct{ s, n int }
		var top []kv
		for s, n := range st.SymHist {
			if n > 20 {
				top = append(top, kv{s, n})
			}
		}
		t.Logf("symbols with count>20: %v", top)
		t.Logf("period %d: %d bytes -> %d; %v; self-decode err=%v equal=%v", period, len(in), len(z), st, err, string(out) == string(in))
	}
}
