package lzhuf

import (
	"bytes"
	"math/rand"
	"os"
	"path/filepath"
	"testing"
)

// Self-validation that does not involve the code under test: the golden files shipped with the
// repository (produced by the canonical codec) decode to their originals, and the canonical
// encoder reproduces them byte for byte.
func TestGolden(t *testing.T) {
	dir := "/repo/lzhuf/testdata"
	if d := os.Getenv("VERIF_REPO"); d != "" {
		dir = filepath.Join(d, "lzhuf/testdata")
	}
	files, _ := filepath.Glob(filepath.Join(dir, "*.lzh"))
	if len(files) < 5 {
		t.Fatalf("golden files missing: %v", files)
	}
	for _, f := range files {
		z, _ := os.ReadFile(f)
		plain, _ := os.ReadFile(f[:len(f)-4])
		got, info, err := Decode(z, true)
		if err != nil || !bytes.Equal(got, plain) {
			t.Fatalf("%s: decode err=%v equal=%v info=%+v", f, err, bytes.Equal(got, plain), info)
		}
		enc, st := Encode(plain, true)
		if !bytes.Equal(enc, z) {
			t.Fatalf("%s: canonical encoder differs from golden file (%d vs %d bytes) %v", f, len(enc), len(z), st)
		}
		t.Logf("%s ok: %v bits=%d", filepath.Base(f), st, info.BitsUsed)
	}
}

func TestCRCCheckValue(t *testing.T) {
	if c := CRC16([]byte("123456789")); c != 0x31C3 {
		t.Fatalf("CRC-16/XMODEM check value: %04x", c)
	}
}

func TestPosTable(t *testing.T) {
	// classic p_len / p_code spot values
	if posLen[0] != 3 || posCode[0] != 0 || posLen[1] != 4 || posCode[1] != 0x2 || posLen[63] != 8 || posCode[63] != 0xff {
		t.Fatalf("pos table: %v %v", posLen, posCode)
	}
}

func TestSelfRoundTrip(t *testing.T) {
	rng := rand.New(rand.NewSource(1))
	for i := 0; i < 300; i++ {
		n := rng.Intn(5000)
		in := make([]byte, n)
		alpha := 1 + rng.Intn(4)
		for j := range in {
			in[j] = byte('a' + rng.Intn(alpha))
		}
		if i%3 == 0 {
			rng.Read(in)
		}
		for _, b2 := range []bool{true, false} {
			z, _ := Encode(in, b2)
			out, _, err := Decode(z, b2)
			if err != nil || !bytes.Equal(out, in) {
				t.Fatalf("canonical round trip failed n=%d err=%v", n, err)
			}
		}
		if n < 600 {
			z, st := EncodeParse(in, true, InitSpaces, func(pos int, c []Match) int {
				if len(c) == 0 || rng.Intn(3) == 0 {
					return -1
				}
				return rng.Intn(len(c))
			})
			out, _, err := Decode(z, true)
			if err != nil || !bytes.Equal(out, in) {
				t.Fatalf("random-parse round trip failed n=%d err=%v %v", n, err, st)
			}
		}
	}
}
