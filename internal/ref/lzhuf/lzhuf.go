// Package lzhuf is the harness's own implementation of the canonical LZHUF codec
// (Okumura LZSS + Yoshizaki adaptive Huffman, as used by FBB's lzhuf_1 with a 2048 byte
// ring buffer). It is written from LZHUF.C / DESIGN.md appendix A and shares no code with
// /repo/lzhuf. It is deliberately plain and slow: it is the oracle.
package lzhuf

import (
	"encoding/binary"
	"errors"
	"fmt"
)

const (
	N         = 2048
	F         = 60
	Threshold = 2
	nChar     = 256 - Threshold + F // 314
	tSize     = nChar*2 - 1         // 627
	root      = tSize - 1           // 626
	maxFreq   = 0x8000
)

// ---- position code: canonical prefix code from the length histogram ----------------------

var (
	posCode [64]uint // code bits, right aligned
	posLen  [64]uint // code length 3..8
	// decode table indexed by the next 8 bits
	dTabIdx [256]uint8
	dTabLen [256]uint8
)

func init() {
	hist := []struct{ l, n int }{{3, 1}, {4, 3}, {5, 8}, {6, 12}, {7, 24}, {8, 16}}
	code, idx, prev := uint(0), 0, 3
	for _, h := range hist {
		code <<= uint(h.l - prev)
		prev = h.l
		for k := 0; k < h.n; k++ {
			posCode[idx], posLen[idx] = code, uint(h.l)
			code++
			idx++
		}
	}
	if idx != 64 {
		panic("position code table")
	}
	for i := 0; i < 64; i++ {
		shift := 8 - posLen[i]
		base := posCode[i] << shift
		for k := uint(0); k < 1<<shift; k++ {
			dTabIdx[base+k] = uint8(i)
			dTabLen[base+k] = uint8(posLen[i])
		}
	}
}

// ---- adaptive Huffman model -----------------------------------------------------------------

type model struct {
	freq     [tSize + 1]uint
	prnt     [tSize + nChar]int
	son      [tSize]int
	Rebuilds int
}

func newModel() *model {
	m := &model{}
	for i := 0; i < nChar; i++ {
		m.freq[i] = 1
		m.son[i] = i + tSize
		m.prnt[i+tSize] = i
	}
	i, j := 0, nChar
	for j <= root {
		m.freq[j] = m.freq[i] + m.freq[i+1]
		m.son[j] = i
		m.prnt[i], m.prnt[i+1] = j, j
		i += 2
		j++
	}
	m.freq[tSize] = 0xffff
	m.prnt[root] = 0
	return m
}

func (m *model) reconst() {
	m.Rebuilds++
	j := 0
	for i := 0; i < tSize; i++ {
		if m.son[i] >= tSize {
			m.freq[j] = (m.freq[i] + 1) / 2
			m.son[j] = m.son[i]
			j++
		}
	}
	for i, j := 0, nChar; j < tSize; i, j = i+2, j+1 {
		f := m.freq[i] + m.freq[i+1]
		m.freq[j] = f
		k := j - 1
		for f < m.freq[k] {
			k--
		}
		k++
		// shift [k, j) one to the right
		for x := j; x > k; x-- {
			m.freq[x] = m.freq[x-1]
			m.son[x] = m.son[x-1]
		}
		m.freq[k] = f
		m.son[k] = i
	}
	for i := 0; i < tSize; i++ {
		k := m.son[i]
		if k >= tSize {
			m.prnt[k] = i
		} else {
			m.prnt[k], m.prnt[k+1] = i, i
		}
	}
}

func (m *model) update(c int) {
	if m.freq[root] == maxFreq {
		m.reconst()
	}
	c = m.prnt[c+tSize]
	for {
		m.freq[c]++
		k := m.freq[c]
		l := c + 1
		if k > m.freq[l] {
			for k > m.freq[l+1] {
				l++
			}
			m.freq[c] = m.freq[l]
			m.freq[l] = k

			i := m.son[c]
			m.prnt[i] = l
			if i < tSize {
				m.prnt[i+1] = l
			}
			j := m.son[l]
			m.son[l] = i
			m.prnt[j] = c
			if j < tSize {
				m.prnt[j+1] = c
			}
			m.son[c] = j
			c = l
		}
		c = m.prnt[c]
		if c == 0 {
			break
		}
	}
}

// depth returns the current code length of symbol c.
func (m *model) depth(c int) int {
	d := 0
	for k := m.prnt[c+tSize]; k != root; k = m.prnt[k] {
		d++
	}
	return d
}

// ---- bit I/O ----------------------------------------------------------------------------------

type bitWriter struct {
	out  []byte
	acc  uint
	nacc uint
}

func (w *bitWriter) put(bit uint) {
	w.acc = w.acc<<1 | (bit & 1)
	w.nacc++
	if w.nacc == 8 {
		w.out = append(w.out, byte(w.acc))
		w.acc, w.nacc = 0, 0
	}
}

func (w *bitWriter) putBits(v uint, n uint) {
	for i := int(n) - 1; i >= 0; i-- {
		w.put(v >> uint(i))
	}
}

func (w *bitWriter) flush() {
	for w.nacc != 0 {
		w.put(0)
	}
}

type bitReader struct {
	in       []byte
	pos      int // next bit index
	Overrun  bool
	overBits int
}

// get returns the next bit; past the end it returns 0 and marks overrun (the classic
// decoder reads zero bits at EOF; the strict judge treats needing such bits as invalid).
func (r *bitReader) get() uint {
	byteIdx := r.pos >> 3
	if byteIdx >= len(r.in) {
		r.Overrun = true
		r.overBits++
		r.pos++
		return 0
	}
	b := r.in[byteIdx] >> (7 - uint(r.pos&7)) & 1
	r.pos++
	return uint(b)
}

// ---- encoder ----------------------------------------------------------------------------------

type coder struct {
	m *model
	w bitWriter
	// MaxDepth is the longest Huffman code emitted (a code longer than 16 bits cannot be
	// represented by the classic 16 bit EncodeChar).
	MaxDepth int
	SymHist  [nChar]int
}

func (c *coder) encodeChar(sym int) {
	c.SymHist[sym]++
	// leaf-to-root path, emitted root first; bit 1 when the node index is odd
	var path []uint
	for k := c.m.prnt[sym+tSize]; k != root; k = c.m.prnt[k] {
		path = append(path, uint(k&1))
	}
	if len(path) > c.MaxDepth {
		c.MaxDepth = len(path)
	}
	for i := len(path) - 1; i >= 0; i-- {
		c.w.put(path[i])
	}
	c.m.update(sym)
}

func (c *coder) encodePosition(p int) {
	i := p >> 6
	c.w.putBits(posCode[i], posLen[i])
	c.w.putBits(uint(p&0x3f), 6)
}

// Stats describes what an encoder run did.
type Stats struct {
	SymHist  [nChar]int
	Rebuilds int
	MaxDepth int
	Literals int
	Matches  int
	MaxLen   int
	MaxDist  int
}

// tree based match finder of LZHUF.C
type lz struct {
	text                [N + F - 1]byte
	lson, dad           [N + 1]int
	rson                [N + 257]int
	matchPos, matchLen_ int
}

const nilNode = N

func (z *lz) initTree() {
	for i := N + 1; i <= N+256; i++ {
		z.rson[i] = nilNode
	}
	for i := 0; i < N; i++ {
		z.dad[i] = nilNode
	}
}

func (z *lz) insertNode(r int) {
	cmp := 1
	key := z.text[r:]
	p := N + 1 + int(key[0])
	z.rson[r], z.lson[r] = nilNode, nilNode
	z.matchLen_ = 0
	for {
		if cmp >= 0 {
			if z.rson[p] != nilNode {
				p = z.rson[p]
			} else {
				z.rson[p] = r
				z.dad[r] = p
				return
			}
		} else {
			if z.lson[p] != nilNode {
				p = z.lson[p]
			} else {
				z.lson[p] = r
				z.dad[r] = p
				return
			}
		}
		i := 1
		for ; i < F; i++ {
			cmp = int(key[i]) - int(z.text[p+i])
			if cmp != 0 {
				break
			}
		}
		if i > Threshold {
			if i > z.matchLen_ {
				z.matchPos = ((r - p) & (N - 1)) - 1
				z.matchLen_ = i
				if i >= F {
					break
				}
			}
			if i == z.matchLen_ {
				if c := ((r - p) & (N - 1)) - 1; c < z.matchPos {
					z.matchPos = c
				}
			}
		}
	}
	z.dad[r] = z.dad[p]
	z.lson[r] = z.lson[p]
	z.rson[r] = z.rson[p]
	z.dad[z.lson[p]] = r
	z.dad[z.rson[p]] = r
	if z.rson[z.dad[p]] == p {
		z.rson[z.dad[p]] = r
	} else {
		z.lson[z.dad[p]] = r
	}
	z.dad[p] = nilNode
}

func (z *lz) deleteNode(p int) {
	if z.dad[p] == nilNode {
		return
	}
	var q int
	if z.rson[p] == nilNode {
		q = z.lson[p]
	} else if z.lson[p] == nilNode {
		q = z.rson[p]
	} else {
		q = z.lson[p]
		if z.rson[q] != nilNode {
			for z.rson[q] != nilNode {
				q = z.rson[q]
			}
			z.rson[z.dad[q]] = z.lson[q]
			z.dad[z.lson[q]] = z.dad[q]
			z.lson[q] = z.lson[p]
			z.dad[z.lson[p]] = q
		}
		z.rson[q] = z.rson[p]
		z.dad[z.rson[p]] = q
	}
	z.dad[q] = z.dad[p]
	if z.rson[z.dad[p]] == p {
		z.rson[z.dad[p]] = q
	} else {
		z.lson[z.dad[p]] = q
	}
	z.dad[p] = nilNode
}

func header(size int, b2 bool, bits []byte) []byte {
	body := make([]byte, 4, 4+len(bits))
	binary.LittleEndian.PutUint32(body, uint32(size))
	body = append(body, bits...)
	if !b2 {
		return body
	}
	out := make([]byte, 2, 2+len(body))
	binary.LittleEndian.PutUint16(out, CRC16(body))
	return append(out, body...)
}

// Encode is the canonical encoder (LZHUF.C Encode with the binary tree match finder).
func Encode(in []byte, b2 bool) ([]byte, Stats) {
	var st Stats
	if len(in) == 0 {
		return header(0, b2, nil), st
	}
	c := &coder{m: newModel()}
	z := &lz{}
	z.initTree()
	s, r := 0, N-F
	for i := s; i < r; i++ {
		z.text[i] = ' '
	}
	pos := 0
	length := 0
	for ; length < F && pos < len(in); length++ {
		z.text[r+length] = in[pos]
		pos++
	}
	for i := 1; i <= F; i++ {
		z.insertNode(r - i)
	}
	z.insertNode(r)
	for length > 0 {
		if z.matchLen_ > length {
			z.matchLen_ = length
		}
		if z.matchLen_ <= Threshold {
			z.matchLen_ = 1
			c.encodeChar(int(z.text[r]))
			st.Literals++
		} else {
			c.encodeChar(255 - Threshold + z.matchLen_)
			c.encodePosition(z.matchPos)
			st.Matches++
			if z.matchLen_ > st.MaxLen {
				st.MaxLen = z.matchLen_
			}
			if z.matchPos+1 > st.MaxDist {
				st.MaxDist = z.matchPos + 1
			}
		}
		last := z.matchLen_
		i := 0
		for ; i < last && pos < len(in); i++ {
			ch := in[pos]
			pos++
			z.deleteNode(s)
			z.text[s] = ch
			if s < F-1 {
				z.text[s+N] = ch
			}
			s = (s + 1) & (N - 1)
			r = (r + 1) & (N - 1)
			z.insertNode(r)
		}
		for ; i < last; i++ {
			z.deleteNode(s)
			s = (s + 1) & (N - 1)
			r = (r + 1) & (N - 1)
			length--
			if length > 0 {
				z.insertNode(r)
			}
		}
	}
	c.w.flush()
	st.Rebuilds, st.MaxDepth, st.SymHist = c.m.Rebuilds, c.MaxDepth, c.SymHist
	return header(len(in), b2, c.w.out), st
}

// Chooser decides the parse of the random-parse encoder: at input position pos, with cands
// being every legal (length, distance) copy that reproduces the next bytes under the decoder's
// window, return -1 for a literal or an index into cands.
type Chooser func(pos int, cands []Match) int

// Match is a legal copy: Len in 3..60, Dist in 1..2048 (distance back from the write position).
type Match struct{ Len, Dist int }

// MaxInitDist bounds how far before the first input byte a copy may reach. The canonical
// encoder only ever references the 60 positions it inserted (distance <= 60 before start);
// the initial window is defined as spaces for N-F positions.
const InitSpaces = N - F

// EncodeParse encodes in with an arbitrary valid parse chosen by choose (brute force window
// search; test generator only). initReach limits references into the space-filled initial window
// to that many positions before the first byte (0..N: the first N-F are spaces, the remaining F are the
// NUL bytes of the not yet written look-ahead area).
func EncodeParse(in []byte, b2 bool, initReach int, choose Chooser) ([]byte, Stats) {
	var st Stats
	if len(in) == 0 {
		return header(0, b2, nil), st
	}
	if initReach > N {
		initReach = N
	}
	c := &coder{m: newModel()}
	// virtual history: initReach spaces followed by the input
	at := func(i int) (byte, bool) { // i relative to input start, may be negative
		if i >= 0 {
			return in[i], true
		}
		if -i <= initReach {
			if -i <= InitSpaces {
				return ' ', true
			}
			// ring positions N-F..N-1 (at and ahead of the initial write position) start as NUL in
			// the canonical decoder and are reached by distances 1989..2048 before they are overwritten
			return 0, true
		}
		return 0, false
	}
	pos := 0
	for pos < len(in) {
		var cands []Match
		maxLen := len(in) - pos
		if maxLen > F {
			maxLen = F
		}
		if maxLen > Threshold {
			for d := 1; d <= N; d++ {
				// a copy of length L from distance d reads positions pos-d .. pos-d+L-1 (overlap allowed:
				// the byte at pos-d+k for k>=d is the byte just written = in[pos+k-d]).
				l := 0
				for l < maxLen {
					b, ok := at(pos - d + l)
					if !ok || b != in[pos+l] {
						break
					}
					l++
				}
				for L := Threshold + 1; L <= l; L++ {
					cands = append(cands, Match{L, d})
				}
			}
		}
		k := choose(pos, cands)
		if k < 0 || k >= len(cands) {
			c.encodeChar(int(in[pos]))
			st.Literals++
			pos++
			continue
		}
		mt := cands[k]
		c.encodeChar(255 - Threshold + mt.Len)
		c.encodePosition(mt.Dist - 1)
		st.Matches++
		if mt.Len > st.MaxLen {
			st.MaxLen = mt.Len
		}
		if mt.Dist > st.MaxDist {
			st.MaxDist = mt.Dist
		}
		pos += mt.Len
	}
	c.w.flush()
	st.Rebuilds, st.MaxDepth = c.m.Rebuilds, c.MaxDepth
	return header(len(in), b2, c.w.out), st
}

// EncodeLiterals encodes every input byte as a literal (a legal parse of any input, in linear time). With a
// skewed symbol distribution it drives the adaptive Huffman tree deeper than any LZ parse of ordinary data.
func EncodeLiterals(in []byte, b2 bool) ([]byte, Stats) {
	var st Stats
	if len(in) == 0 {
		return header(0, b2, nil), st
	}
	c := &coder{m: newModel()}
	for _, b := range in {
		c.encodeChar(int(b))
		st.Literals++
	}
	c.w.flush()
	st.Rebuilds, st.MaxDepth = c.m.Rebuilds, c.MaxDepth
	return header(len(in), b2, c.w.out), st
}

// ---- decoder ----------------------------------------------------------------------------------

var (
	ErrShort    = errors.New("ref/lzhuf: stream shorter than its header")
	ErrNegative = errors.New("ref/lzhuf: negative declared size")
	ErrTrunc    = errors.New("ref/lzhuf: bit stream ends before the declared size is produced")
	ErrOverrun  = errors.New("ref/lzhuf: final match runs past the declared size")
	ErrCRC      = errors.New("ref/lzhuf: CRC-16 mismatch")
)

// Info is what the strict decoder learnt about a stream.
type Info struct {
	Size     int32
	CRCok    bool // meaningful for b2 only
	BitsUsed int  // bits of the bit stream consumed
	Rebuilds int
}

// Decode is the strict judge: it returns the canonical decoding of the stream or an error if
// the stream is not a fully valid LZHUF container (CRC, size, bit stream length, overrun).
func Decode(stream []byte, b2 bool) ([]byte, Info, error) {
	var info Info
	p := stream
	var crc uint16
	if b2 {
		if len(p) < 2 {
			return nil, info, ErrShort
		}
		crc = binary.LittleEndian.Uint16(p)
		p = p[2:]
	}
	if len(p) < 4 {
		return nil, info, ErrShort
	}
	info.Size = int32(binary.LittleEndian.Uint32(p))
	if b2 {
		info.CRCok = CRC16(p) == crc
	}
	bits := p[4:]
	if info.Size < 0 {
		return nil, info, ErrNegative
	}
	out, used, rebuilds, err := decodeBits(bits, int(info.Size))
	info.BitsUsed, info.Rebuilds = used, rebuilds
	if err != nil {
		return out, info, err
	}
	if b2 && !info.CRCok {
		return out, info, ErrCRC
	}
	return out, info, nil
}

func decodeBits(bits []byte, size int) (out []byte, used, rebuilds int, err error) {
	if size == 0 {
		return nil, 0, 0, nil
	}
	// A valid stream needs at least one bit per ~60 output bytes; refuse absurd sizes early so
	// the judge itself cannot be made to allocate without bound.
	if size > (len(bits)*8+8)*F {
		return nil, 0, 0, ErrTrunc
	}
	m := newModel()
	br := &bitReader{in: bits}
	var text [N]byte
	for i := 0; i < N-F; i++ {
		text[i] = ' '
	}
	r := N - F
	out = make([]byte, 0, size)
	for len(out) < size {
		// decode symbol
		c := m.son[root]
		for c < tSize {
			c += int(br.get())
			c = m.son[c]
		}
		c -= tSize
		m.update(c)
		if c < 256 {
			if br.Overrun {
				return out, br.pos, m.Rebuilds, ErrTrunc
			}
			out = append(out, byte(c))
			text[r] = byte(c)
			r = (r + 1) & (N - 1)
			continue
		}
		// position
		var i uint
		for k := 0; k < 8; k++ {
			i = i<<1 | br.get()
		}
		idx := uint(dTabIdx[i])
		l := uint(dTabLen[i])
		for j := l - 2; j > 0; j-- {
			i = i<<1 | br.get()
		}
		if br.Overrun {
			return out, br.pos, m.Rebuilds, ErrTrunc
		}
		p := int(idx<<6 | i&0x3f)
		src := (r - p - 1) & (N - 1)
		n := c - 255 + Threshold
		if len(out)+n > size {
			return out, br.pos, m.Rebuilds, ErrOverrun
		}
		for k := 0; k < n; k++ {
			b := text[(src+k)&(N-1)]
			out = append(out, b)
			text[r] = b
			r = (r + 1) & (N - 1)
		}
	}
	return out, br.pos, m.Rebuilds, nil
}

// CRC16 is CRC-16/XMODEM (poly 0x1021, init 0, no reflection), bitwise.
func CRC16(p []byte) uint16 {
	var crc uint16
	for _, b := range p {
		crc ^= uint16(b) << 8
		for i := 0; i < 8; i++ {
			if crc&0x8000 != 0 {
				crc = crc<<1 ^ 0x1021
			} else {
				crc <<= 1
			}
		}
	}
	return crc
}

func (s Stats) String() string {
	return fmt.Sprintf("lit=%d match=%d maxlen=%d maxdist=%d rebuilds=%d maxdepth=%d", s.Literals, s.Matches, s.MaxLen, s.MaxDist, s.Rebuilds, s.MaxDepth)
}
