package ardopsim

import (
	"errors"
	"io"
	"sync"
	"time"
)

// pipe is the in-memory serial line between host and simulator. Writes never block (both ends
// have an unbounded queue, like a UART with flow control off and a fast peer). The host's reads are
// segmented by a chunk schedule (cycled) so that a case fixes the segmentation deterministically.
type pipe struct {
	mu   sync.Mutex
	cond *sync.Cond

	toHost    []byte // tnc -> host
	toTNC     []byte // host -> tnc
	sched     []int
	schedPos  int
	tncEOF    bool // the simulator closed its side: host reads EOF after draining toHost
	hostClose bool // host called Close
	txBroken  bool // host writes fail from now on; the host reads EOF once a write has failed
	txFailed  bool
	hostGone  chan struct{} // closed when the host calls Close
	onHostWr  func()        // optional: called (without lock) after each host write
	// writeTime: how long a host write call takes after its bytes are on the line (a UART at 115200 baud needs
	// 87 us per byte; the call returns when the bytes have left)
	writeTime time.Duration
}

func newPipe(sched []int) *pipe {
	p := &pipe{hostGone: make(chan struct{})}
	for _, s := range sched {
		if s > 0 {
			p.sched = append(p.sched, s)
		}
	}
	if len(p.sched) == 0 {
		p.sched = []int{1 << 16}
	}
	p.cond = sync.NewCond(&p.mu)
	return p
}

var errLinkDown = errors.New("ardopsim: serial link is down")

// hostEnd is what the library gets as io.ReadWriteCloser.
type hostEnd struct{ p *pipe }

func (h hostEnd) Read(b []byte) (int, error) {
	p := h.p
	p.mu.Lock()
	defer p.mu.Unlock()
	for {
		if p.hostClose {
			return 0, io.EOF
		}
		if len(b) == 0 {
			return 0, nil
		}
		if len(p.toHost) > 0 {
			n := p.sched[p.schedPos%len(p.sched)]
			p.schedPos++
			n = min(n, len(b), len(p.toHost))
			copy(b, p.toHost[:n])
			p.toHost = p.toHost[n:]
			return n, nil
		}
		if p.tncEOF || (p.txBroken && p.txFailed) {
			return 0, io.EOF
		}
		p.cond.Wait()
	}
}

func (h hostEnd) Write(b []byte) (int, error) {
	p := h.p
	p.mu.Lock()
	if p.hostClose || p.tncEOF || p.txBroken {
		if p.txBroken {
			p.txFailed = true
		}
		p.cond.Broadcast()
		p.mu.Unlock()
		return 0, errLinkDown
	}
	d := p.writeTime
	if d > 0 && len(b) >= 8 {
		// a slow port takes the caller's bytes over the duration of the call: the first half now, the second half
		// - read from the caller's buffer only then - when the transmission time is over (an io.Writer may read its
		// argument until it returns)
		h := len(b) / 2
		p.toTNC = append(p.toTNC, b[:h]...)
		p.cond.Broadcast()
		p.mu.Unlock()
		time.Sleep(d)
		p.mu.Lock()
		if p.hostClose || p.tncEOF || p.txBroken {
			p.mu.Unlock()
			return h, errLinkDown
		}
		p.toTNC = append(p.toTNC, b[h:]...)
		p.cond.Broadcast()
		p.mu.Unlock()
		return len(b), nil
	}
	p.toTNC = append(p.toTNC, b...)
	p.cond.Broadcast()
	p.mu.Unlock()
	if d > 0 {
		time.Sleep(d)
	}
	return len(b), nil
}

func (h hostEnd) Close() error {
	p := h.p
	p.mu.Lock()
	if !p.hostClose {
		p.hostClose = true
		close(p.hostGone)
	}
	p.cond.Broadcast()
	p.mu.Unlock()
	return nil
}

// tncRead blocks until at least one byte from the host is available and returns everything queued;
// io.EOF when the host closed or the simulator shut the line.
func (p *pipe) tncRead() ([]byte, error) {
	p.mu.Lock()
	defer p.mu.Unlock()
	for len(p.toTNC) == 0 {
		if p.hostClose || p.tncEOF {
			return nil, io.EOF
		}
		p.cond.Wait()
	}
	b := p.toTNC
	p.toTNC = nil
	return b, nil
}

func (p *pipe) tncWrite(b []byte) {
	p.mu.Lock()
	if !p.tncEOF {
		p.toHost = append(p.toHost, b...)
	}
	p.cond.Broadcast()
	p.mu.Unlock()
}

func (p *pipe) tncClose() {
	p.mu.Lock()
	p.tncEOF = true
	p.cond.Broadcast()
	p.mu.Unlock()
}

func (p *pipe) breakTx() {
	p.mu.Lock()
	p.txBroken = true
	p.cond.Broadcast()
	p.mu.Unlock()
}
