package ardopsim

import (
	"time"
	"fmt"
	"net"
	"strings"
	"sync"
)

// Record is one entry of the simulator's transcript. Seq is a global counter: for frames sent by
// the simulator it is taken before the first byte goes out, for frames from the host after the
// last byte was received, for marks when the test calls Mark. So "a happened before b" is sound
// whenever a is a tnc record and b a mark that the test took after a library call returned.
type Record struct {
	Seq      int64    `json:"seq"`
	Dir      string   `json:"dir"`  // "host" = received from the host, "tnc" = sent by the simulator, "mark"
	Kind     string   `json:"kind"` // "cmd", "data", "raw", "mark"
	Text     string   `json:"text,omitempty"`
	Data     []byte   `json:"-"`
	Raw      []byte   `json:"-"` // the exact bytes of a host frame
	Problems []string `json:"problems,omitempty"`
	Reply    string   `json:"reply,omitempty"` // how a host data frame was answered
}

// Config scripts the simulator's behaviour for one case.
type Config struct {
	Sched      []int    // serial: chunk sizes of the host's reads (cycled); TCP: sizes of the first writes of each frame
	Faults     []int    // number of CRCFAULT answers for the i-th distinct host data frame (serial mode; >=3 means it is never accepted)
	DialScript []string // control lines sent after the ARQCALL echo, e.g. NEWSTATE ISS, PTT TRUE, CONNECTED X 500
	DiscScript []string // control lines sent between the DISCONNECT echo and NEWSTATE DISC / DISCONNECTED
	HoldDisc   bool     // answer DISCONNECT only when ReleaseDisconnect is called
	// End of a session: LateARQ are ARQ-typed data frames the TNC still delivers right after NEWSTATE DISC (the
	// peer's last frame, or the non-ARQ data that ARDOPc is known to send as ARQ frames while disconnected);
	// NoDisconnected: the TNC reports the end with NEWSTATE DISC only.
	LateARQ        [][]byte
	NoDisconnected bool
	// SlowWriteUS (serial): every host write call takes that many microseconds (transmission time)
	SlowWriteUS int
}

// Sim is one simulated TNC attached to one host.
type Sim struct {
	TCP bool
	cfg Config

	mu          sync.Mutex // guards everything below and serialises output (so Seq order = wire order)
	recs        []Record
	seq         int64
	mycall      string
	grid        string
	state       string
	connected   bool
	outstanding int
	frameIdx    int    // index of the current distinct host data frame
	attempt     int    // CRCFAULTs already sent for it
	lastData    []byte // raw bytes of the previous data frame (to tell a retransmission)
	expectLen   int    // length the next host data frame must declare (-1: unknown)
	broken      string // first problem that made the host stream unparsable
	discHeld    bool
	down        bool
	staleArmed  bool

	p          *pipe
	lnC, lnD   net.Listener
	cc, dc     net.Conn
	accepted   chan struct{}
	hostClosed chan struct{}
	hcOnce     sync.Once
	wg         sync.WaitGroup
	schedPos   int
}

func newSim(tcp bool, cfg Config) *Sim {
	return &Sim{TCP: tcp, cfg: cfg, state: "DISC", expectLen: -1, hostClosed: make(chan struct{}), accepted: make(chan struct{})}
}

// NewSerial starts a simulator on an in-memory serial line; Host() is the library's end.
func NewSerial(cfg Config) *Sim {
	s := newSim(false, cfg)
	s.p = newPipe(cfg.Sched)
	s.p.writeTime = time.Duration(cfg.SlowWriteUS) * time.Microsecond
	s.wg.Add(2)
	go func() { defer s.wg.Done(); s.serveSerial() }()
	go func() { defer s.wg.Done(); <-s.p.hostGone; s.signalHostClosed() }()
	return s
}

func (s *Sim) signalHostClosed() { s.hcOnce.Do(func() { close(s.hostClosed) }) }

// HostClosed is closed once the host has closed its control connection / serial line.
func (s *Sim) HostClosed() <-chan struct{} { return s.hostClosed }

// rec appends a record under s.mu and returns its sequence number.
func (s *Sim) rec(r Record) int64 {
	s.seq++
	r.Seq = s.seq
	s.recs = append(s.recs, r)
	return r.Seq
}

// Mark records a test-side event (e.g. "Flush returned") and returns its sequence number.
func (s *Sim) Mark(label string) int64 {
	s.mu.Lock()
	defer s.mu.Unlock()
	return s.rec(Record{Dir: "mark", Kind: "mark", Text: label})
}

// Records returns a copy of the transcript.
func (s *Sim) Records() []Record {
	s.mu.Lock()
	defer s.mu.Unlock()
	return append([]Record(nil), s.recs...)
}

// Broken reports the problem that made the host's byte stream unparsable ("" if none).
func (s *Sim) Broken() string { s.mu.Lock(); defer s.mu.Unlock(); return s.broken }

// out writes bytes towards the host on the control (data=false) or data stream. Caller holds s.mu.
func (s *Sim) out(data bool, b []byte) {
	if !s.TCP {
		s.p.tncWrite(b)
		return
	}
	c := s.cc
	if data {
		c = s.dc
	}
	if c == nil {
		return
	}
	// the first few writes follow the schedule (TCP_NODELAY is set), the rest goes out in one piece
	for i := 0; i < 4 && len(b) > 0 && len(s.cfg.Sched) > 0; i++ {
		n := s.cfg.Sched[s.schedPos%len(s.cfg.Sched)]
		s.schedPos++
		if n <= 0 || n >= len(b) {
			break
		}
		c.Write(b[:n])
		b = b[n:]
	}
	c.Write(b)
}

// sendCtrl sends one control line. Caller holds s.mu.
func (s *Sim) sendCtrl(text string) int64 {
	seq := s.rec(Record{Dir: "tnc", Kind: "cmd", Text: text})
	up := strings.ToUpper(strings.TrimSpace(text))
	switch {
	case up == "NEWSTATE DISC" || up == "DISCONNECTED":
		s.state, s.connected, s.outstanding = "DISC", false, 0
	case strings.HasPrefix(up, "NEWSTATE "):
		s.state = strings.TrimSpace(up[9:])
	case strings.HasPrefix(up, "CONNECTED "):
		s.connected = true
	}
	s.out(false, CtrlFrame(s.TCP, text))
	return seq
}

// Send emits an asynchronous control line (event) and returns its sequence number.
func (s *Sim) Send(text string) int64 { s.mu.Lock(); defer s.mu.Unlock(); return s.sendCtrl(text) }

// SendData emits a data frame of the given type.
func (s *Sim) SendData(typ string, payload []byte) int64 {
	s.mu.Lock()
	defer s.mu.Unlock()
	seq := s.rec(Record{Dir: "tnc", Kind: "data", Text: typ, Data: payload})
	s.out(true, DataFrame(s.TCP, typ, payload))
	return seq
}

// SendRaw emits arbitrary bytes on the control/serial stream (data=false) or the TCP data stream.
func (s *Sim) SendRaw(data bool, b []byte) int64 {
	s.mu.Lock()
	defer s.mu.Unlock()
	seq := s.rec(Record{Dir: "tnc", Kind: "raw", Text: fmt.Sprintf("%d raw bytes, data stream=%v", len(b), data), Data: b})
	s.out(data, b)
	return seq
}

// ExpectData tells the simulator which length the next host data frame must declare. A frame that
// declares something else cannot be delimited reliably (the host's idea of the framing is wrong),
// so the simulator records the problem and drops the link instead of waiting for bytes that may
// never come.
func (s *Sim) ExpectData(n int) { s.mu.Lock(); s.expectLen = n; s.mu.Unlock() }

// Outstanding is the number of accepted, not yet "transmitted" bytes.
func (s *Sim) Outstanding() int { s.mu.Lock(); defer s.mu.Unlock(); return s.outstanding }

// Progress reports a partly drained buffer (BUFFER m, 0 < m <= outstanding), as a modem does while sending.
func (s *Sim) Progress(m int) int64 {
	s.mu.Lock()
	defer s.mu.Unlock()
	if m <= 0 || m > s.outstanding {
		m = s.outstanding
	}
	if m <= 0 {
		return 0
	}
	s.outstanding = m
	return s.sendCtrl(fmt.Sprintf("BUFFER %d", m))
}

// ArmStaleBuffer makes the TNC send one unsolicited BUFFER <outstanding> report (the progress report for data
// queued earlier) at the moment it has seen the header of the next host data frame but not yet its body.
func (s *Sim) ArmStaleBuffer() { s.mu.Lock(); s.staleArmed = true; s.mu.Unlock() }

// Drain reports the buffer empty (BUFFER 0).
func (s *Sim) Drain() int64 {
	s.mu.Lock()
	defer s.mu.Unlock()
	s.outstanding = 0
	return s.sendCtrl("BUFFER 0")
}

// ReleaseDisconnect answers a held DISCONNECT (Config.HoldDisc). It reports false if none is pending.
func (s *Sim) ReleaseDisconnect() bool {
	s.mu.Lock()
	defer s.mu.Unlock()
	if !s.discHeld {
		return false
	}
	s.discHeld = false
	s.finishDisconnect()
	return true
}

// DisconnectHeld reports whether a DISCONNECT from the host is waiting for ReleaseDisconnect.
func (s *Sim) DisconnectHeld() bool { s.mu.Lock(); defer s.mu.Unlock(); return s.discHeld }

func (s *Sim) finishDisconnect() {
	for _, l := range s.cfg.DiscScript {
		s.sendCtrl(l)
	}
	s.sendCtrl("NEWSTATE DISC")
	for _, p := range s.cfg.LateARQ {
		s.rec(Record{Dir: "tnc", Kind: "data", Text: "ARQ", Data: p})
		s.out(true, DataFrame(s.TCP, "ARQ", p))
	}
	if !s.cfg.NoDisconnected {
		s.sendCtrl("DISCONNECTED")
	}
}

// RemoteDisconnect is the remote station ending the session: NEWSTATE DISC, DISCONNECTED.
func (s *Sim) RemoteDisconnect() { s.mu.Lock(); s.finishDisconnect(); s.mu.Unlock() }

// InboundConnect is a remote station connecting to target: TARGET target, CONNECTED remote bw.
func (s *Sim) InboundConnect(pre []string, target, remote string, bw int) {
	s.mu.Lock()
	defer s.mu.Unlock()
	for _, l := range pre {
		s.sendCtrl(l)
	}
	s.sendCtrl("TARGET " + target)
	s.sendCtrl("NEWSTATE IRS")
	s.sendCtrl(fmt.Sprintf("CONNECTED %s %d", remote, bw))
}

// handleCmd answers one host command the way the host interface description says. Caller holds s.mu.
func (s *Sim) handleCmd(text string, problems []string) {
	s.rec(Record{Dir: "host", Kind: "cmd", Text: text, Problems: problems})
	name, arg, _ := strings.Cut(strings.TrimSpace(text), " ")
	name, arg = strings.ToUpper(name), strings.TrimSpace(arg)
	setget := func(cur *string, upper bool) {
		if arg == "" {
			s.sendCtrl(name + " " + *cur)
			return
		}
		if upper {
			arg = strings.ToUpper(arg)
		}
		*cur = arg
		s.sendCtrl(name + " now " + arg)
	}
	switch name {
	case "INITIALIZE", "SENDID", "ABORT", "CLOSE":
		s.sendCtrl(name)
		if name == "ABORT" && s.state != "DISC" {
			s.sendCtrl("NEWSTATE DISC")
			s.sendCtrl("DISCONNECTED")
		}
	case "STATE":
		s.sendCtrl("STATE " + s.state)
	case "VERSION":
		s.sendCtrl("VERSION ardopsim_1.0")
	case "MYCALL":
		setget(&s.mycall, true)
	case "GRIDSQUARE":
		setget(&s.grid, false)
	case "PROTOCOLMODE", "ARQTIMEOUT", "LISTEN", "CODEC", "ARQBW", "CWID", "AUTOBREAK", "MYAUX", "FSKONLY", "DRIVELEVEL":
		cur := map[string]string{"PROTOCOLMODE": "ARQ", "ARQTIMEOUT": "90", "LISTEN": "FALSE", "CODEC": "TRUE", "ARQBW": "2000MAX",
			"CWID": "FALSE", "AUTOBREAK": "TRUE", "MYAUX": "", "FSKONLY": "FALSE", "DRIVELEVEL": "100"}[name]
		setget(&cur, true)
	case "ARQCALL":
		s.sendCtrl(text)
		for _, l := range s.cfg.DialScript {
			s.sendCtrl(l)
		}
	case "DISCONNECT":
		if s.state == "DISC" {
			return // "If not connected command is ignored."
		}
		s.sendCtrl("DISCONNECT")
		if s.cfg.HoldDisc {
			s.discHeld = true
			return
		}
		s.finishDisconnect()
	default:
		s.sendCtrl("FAULT " + name + " not recognised")
	}
}

// handleData answers one host data frame: CRCFAULT as scripted (line noise seen by the TNC), else
// the frame is queued for transmission and BUFFER <outstanding> is reported. Caller holds s.mu.
func (s *Sim) handleData(payload, raw []byte, problems []string) {
	r := Record{Dir: "host", Kind: "data", Data: payload, Raw: raw, Problems: problems}
	want := 0
	if s.frameIdx < len(s.cfg.Faults) && !s.TCP {
		want = s.cfg.Faults[s.frameIdx]
	}
	if s.attempt < want {
		s.attempt++
		r.Reply = "CRCFAULT"
		s.rec(r)
		s.lastData = raw
		s.sendCtrl("CRCFAULT")
		if s.attempt >= 3 { // the host gives up after three tries; the next frame is a new one
			s.frameIdx, s.attempt = s.frameIdx+1, 0
		}
		return
	}
	s.frameIdx, s.attempt = s.frameIdx+1, 0
	s.outstanding += len(payload)
	r.Reply = fmt.Sprintf("BUFFER %d", s.outstanding)
	s.rec(r)
	s.sendCtrl(r.Reply)
}
