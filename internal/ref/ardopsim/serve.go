package ardopsim

import (
	"bufio"
	"encoding/binary"
	"fmt"
	"io"
	"net"
	"strconv"
	"time"
)

// maxCmd bounds a command line; no ARDOP command comes near it.
const maxCmd = 512

// feeder turns the serial line into a blocking byte source.
type feeder struct {
	p   *pipe
	buf []byte
}

func (f *feeder) need(n int) ([]byte, error) {
	for len(f.buf) < n {
		b, err := f.p.tncRead()
		if err != nil {
			return nil, err
		}
		f.buf = append(f.buf, b...)
	}
	out := f.buf[:n:n]
	f.buf = f.buf[n:]
	return out, nil
}

// desync records why the host stream cannot be parsed any further and drops the link.
func (s *Sim) desync(why string, raw []byte) {
	s.mu.Lock()
	if s.broken == "" {
		s.broken = why
	}
	s.rec(Record{Dir: "host", Kind: "raw", Text: why, Raw: raw, Problems: []string{why}})
	s.mu.Unlock()
	s.CloseLink()
}

func (s *Sim) serveSerial() {
	f := &feeder{p: s.p}
	for {
		pre, err := f.need(2)
		if err != nil {
			return
		}
		switch string(pre) {
		case "C:":
			var line []byte
			for {
				b, err := f.need(1)
				if err != nil {
					return
				}
				line = append(line, b[0])
				if b[0] == '\r' {
					break
				}
				if len(line) > maxCmd {
					s.desync(fmt.Sprintf("command frame: no CR within %d bytes after %q", maxCmd, "C:"), append(pre, line...))
					return
				}
			}
			crc, err := f.need(2)
			if err != nil {
				return
			}
			var problems []string
			if got, want := binary.BigEndian.Uint16(crc), CRC(line); got != want {
				problems = append(problems, fmt.Sprintf("command %q: CRC %04x, want %04x (crc16 of text+CR, big-endian)", line, got, want))
			}
			s.mu.Lock()
			s.handleCmd(string(line[:len(line)-1]), problems)
			s.mu.Unlock()
		case "D:":
			lb, err := f.need(2)
			if err != nil {
				return
			}
			n := int(binary.BigEndian.Uint16(lb))
			s.mu.Lock()
			exp := s.expectLen
			if s.staleArmed {
				s.staleArmed = false
				s.sendCtrl(fmt.Sprintf("BUFFER %d", s.outstanding))
			}
			s.mu.Unlock()
			if exp >= 0 && n != exp {
				s.desync(fmt.Sprintf("data frame declares length %d (bytes %02x %02x), the host wrote %d bytes (big-endian 16 bit count expected)", n, lb[0], lb[1], exp), append(pre, lb...))
				return
			}
			body, err := f.need(n + 2)
			if err != nil {
				return
			}
			inner := append(append([]byte(nil), lb...), body[:n]...)
			var problems []string
			if got, want := binary.BigEndian.Uint16(body[n:]), CRC(inner); got != want {
				problems = append(problems, fmt.Sprintf("data frame of %d bytes: CRC %04x, want %04x (crc16 of len16+data, big-endian)", n, got, want))
			}
			raw := append(append([]byte("D:"), inner...), body[n:]...)
			s.mu.Lock()
			s.handleData(body[:n:n], raw, problems)
			s.mu.Unlock()
		default:
			s.desync(fmt.Sprintf("frame starts with %q, want \"C:\" or \"D:\"", pre), pre)
			return
		}
	}
}

// NewTCP starts a simulator listening on loopback ports p (control) and p+1 (data), p mod 10 != 9,
// and returns the control address to hand to the library.
func NewTCP(cfg Config) (*Sim, string, error) {
	s := newSim(true, cfg)
	for try := 0; try < 200; try++ {
		lc, err := net.Listen("tcp4", "127.0.0.1:0")
		if err != nil {
			return nil, "", err
		}
		port := lc.Addr().(*net.TCPAddr).Port
		if port%10 == 9 || port >= 65535 {
			lc.Close()
			continue
		}
		ld, err := net.Listen("tcp4", "127.0.0.1:"+strconv.Itoa(port+1))
		if err != nil {
			lc.Close()
			continue
		}
		s.lnC, s.lnD = lc, ld
		s.wg.Add(1)
		go func() { defer s.wg.Done(); s.acceptTCP() }()
		return s, "127.0.0.1:" + strconv.Itoa(port), nil
	}
	return nil, "", fmt.Errorf("ardopsim: no free port pair")
}

func (s *Sim) acceptTCP() {
	cc, err := s.lnC.Accept()
	if err != nil {
		return
	}
	dc, err := s.lnD.Accept()
	if err != nil {
		cc.Close()
		return
	}
	for _, c := range []net.Conn{cc, dc} {
		c.(*net.TCPConn).SetNoDelay(true)
	}
	s.mu.Lock()
	s.cc, s.dc = cc, dc
	down := s.down
	s.mu.Unlock()
	if down {
		cc.Close()
		dc.Close()
		return
	}
	close(s.accepted)
	s.wg.Add(2)
	go func() { defer s.wg.Done(); s.serveTCPCtrl(cc) }()
	go func() { defer s.wg.Done(); s.serveTCPData(dc) }()
}

func (s *Sim) serveTCPCtrl(c net.Conn) {
	defer s.signalHostClosed()
	rd := bufio.NewReader(c)
	for {
		var line []byte
		for {
			b, err := rd.ReadByte()
			if err != nil {
				return
			}
			line = append(line, b)
			if b == '\r' {
				break
			}
			if len(line) > maxCmd {
				s.desync(fmt.Sprintf("command: no CR within %d bytes", maxCmd), line)
				return
			}
		}
		s.mu.Lock()
		s.handleCmd(string(line[:len(line)-1]), nil)
		s.mu.Unlock()
	}
}

func (s *Sim) serveTCPData(c net.Conn) {
	rd := bufio.NewReader(c)
	for {
		lb := make([]byte, 2)
		if _, err := io.ReadFull(rd, lb); err != nil {
			return
		}
		n := int(binary.BigEndian.Uint16(lb))
		s.mu.Lock()
		exp := s.expectLen
		s.mu.Unlock()
		if exp >= 0 && n != exp {
			s.desync(fmt.Sprintf("data frame declares length %d (bytes %02x %02x), the host wrote %d bytes (big-endian 16 bit count expected)", n, lb[0], lb[1], exp), lb)
			return
		}
		body := make([]byte, n)
		if _, err := io.ReadFull(rd, body); err != nil {
			return
		}
		s.mu.Lock()
		s.handleData(body, append(lb, body...), nil)
		s.mu.Unlock()
	}
}

// CloseLink makes the host see end-of-file on every stream after the bytes already sent
// (serial: EOF on the line; TCP: FIN on both sockets, the simulator keeps reading).
func (s *Sim) CloseLink() { s.CloseStream(false); s.CloseStream(true) }

// CloseStream half-closes one stream towards the host (TCP: data or control socket; serial: the line).
func (s *Sim) CloseStream(data bool) {
	if !s.TCP {
		s.p.tncClose()
		return
	}
	s.mu.Lock()
	c := s.cc
	if data {
		c = s.dc
	}
	s.mu.Unlock()
	if tc, ok := c.(*net.TCPConn); ok {
		tc.CloseWrite()
	}
}

// BreakTx (serial only) makes every further host write fail; the host reads EOF once a write has failed.
func (s *Sim) BreakTx() {
	if s.p != nil {
		s.p.breakTx()
	}
}

// Host returns the library's end of the serial line.
func (s *Sim) Host() io.ReadWriteCloser { return hostEnd{s.p} }

// WaitAccepted waits until the host has connected both TCP sockets.
func (s *Sim) WaitAccepted(limit time.Duration) bool {
	select {
	case <-s.accepted:
		return true
	case <-time.After(limit):
		return false
	}
}

// Shutdown releases every resource of the simulator and waits for its goroutines.
func (s *Sim) Shutdown() {
	if s.p != nil {
		s.p.tncClose()
		hostEnd{s.p}.Close()
	}
	for _, l := range []net.Listener{s.lnC, s.lnD} {
		if l != nil {
			l.Close()
		}
	}
	s.mu.Lock()
	cc, dc := s.cc, s.dc
	s.down = true
	s.mu.Unlock()
	for _, c := range []net.Conn{cc, dc} {
		if c != nil {
			c.Close()
		}
	}
	s.wg.Wait()
}
