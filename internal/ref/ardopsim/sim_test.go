package ardopsim

import (
	"bytes"
	"encoding/binary"
	"io"
	"testing"
)

// refHost is a minimal host written from the interface description (serial mode).
type refHost struct {
	t  *testing.T
	rw io.ReadWriter
}

func (h refHost) read(n int) []byte {
	b := make([]byte, n)
	if _, err := io.ReadFull(h.rw, b); err != nil {
		h.t.Fatalf("read: %v", err)
	}
	return b
}

// next returns the next tnc frame: ("c", text) or ("d", type+payload).
func (h refHost) next() (string, []byte) {
	pre := h.read(2)
	switch string(pre) {
	case "c:":
		var line []byte
		for {
			b := h.read(1)
			line = append(line, b[0])
			if b[0] == '\r' {
				break
			}
		}
		if crc := binary.BigEndian.Uint16(h.read(2)); crc != CRC(line) {
			h.t.Fatalf("bad CRC on %q", line)
		}
		return "c", line[:len(line)-1]
	case "d:":
		lb := h.read(2)
		body := h.read(int(binary.BigEndian.Uint16(lb)))
		if crc := binary.BigEndian.Uint16(h.read(2)); crc != CRC(append(lb, body...)) {
			h.t.Fatalf("bad CRC on data frame")
		}
		return "d", body
	}
	h.t.Fatalf("bad prefix %q", pre)
	return "", nil
}

func (h refHost) cmd(text, want string) {
	h.rw.Write(HostCtrlFrame(false, text))
	if k, got := h.next(); k != "c" || string(got) != want {
		h.t.Fatalf("%q answered %s %q, want %q", text, k, got, want)
	}
}

func TestSerialDialogue(t *testing.T) {
	s := NewSerial(Config{Sched: []int{1, 3}, Faults: []int{1, 0, 3}, DialScript: []string{"NEWSTATE ISS", "PTT TRUE", "CONNECTED X1X 500"}, HoldDisc: true})
	defer s.Shutdown()
	h := refHost{t, s.Host()}
	h.cmd("INITIALIZE", "INITIALIZE")
	h.cmd("STATE", "STATE DISC")
	h.cmd("PROTOCOLMODE ARQ", "PROTOCOLMODE now ARQ")
	h.cmd("LISTEN false", "LISTEN now FALSE")
	h.cmd("MYCALL la5nta", "MYCALL now LA5NTA")
	h.cmd("MYCALL", "MYCALL LA5NTA")
	h.cmd("ARQCALL X1X 10", "ARQCALL X1X 10")
	for _, want := range []string{"NEWSTATE ISS", "PTT TRUE", "CONNECTED X1X 500"} {
		if _, got := h.next(); string(got) != want {
			t.Fatalf("dial: got %q want %q", got, want)
		}
	}
	s.ExpectData(5)
	for _, want := range []string{"CRCFAULT", "BUFFER 5"} {
		h.rw.Write(HostDataFrame(false, []byte("hello")))
		if _, got := h.next(); string(got) != want {
			t.Fatalf("data: got %q want %q", got, want)
		}
	}
	s.ExpectData(-1)
	h.rw.Write(HostDataFrame(false, []byte("ab")))
	if _, got := h.next(); string(got) != "BUFFER 7" {
		t.Fatalf("got %q", got)
	}
	for i := 0; i < 3; i++ {
		h.rw.Write(HostDataFrame(false, []byte("zz")))
		if _, got := h.next(); string(got) != "CRCFAULT" {
			t.Fatalf("got %q", got)
		}
	}
	b0 := s.Drain()
	if _, got := h.next(); string(got) != "BUFFER 0" {
		t.Fatalf("got %q", got)
	}
	if m := s.Mark("after"); m <= b0 {
		t.Fatalf("sequence numbers not increasing: %d %d", b0, m)
	}
	s.SendData("ARQ", []byte("payload"))
	if k, got := h.next(); k != "d" || !bytes.Equal(got, []byte("ARQpayload")) {
		t.Fatalf("got %s %q", k, got)
	}
	h.cmd("DISCONNECT", "DISCONNECT")
	if !s.DisconnectHeld() || !s.ReleaseDisconnect() {
		t.Fatal("disconnect not held")
	}
	for _, want := range []string{"NEWSTATE DISC", "DISCONNECTED"} {
		if _, got := h.next(); string(got) != want {
			t.Fatalf("got %q want %q", got, want)
		}
	}
	// a frame with a wrong CRC is answered but recorded; a wrong length drops the link
	bad := HostCtrlFrame(false, "VERSION")
	bad[len(bad)-1] ^= 1
	h.rw.Write(bad)
	h.next()
	n := 0
	for _, r := range s.Records() {
		n += len(r.Problems)
	}
	if n != 1 || s.Broken() != "" {
		t.Fatalf("problems=%d broken=%q", n, s.Broken())
	}
	s.ExpectData(9)
	h.rw.Write(HostDataFrame(false, []byte("x")))
	if _, err := s.Host().Read(make([]byte, 1)); err != io.EOF || s.Broken() == "" {
		t.Fatalf("wrong length not detected: %v %q", err, s.Broken())
	}
}
