// Package ardopsim is a simulated ARDOP TNC (host interface side only), written from the ARDOP
// host-interface description and used as the peer and oracle of property C14. Nothing in here is
// derived from the code under test.
//
// Serial ("CRC") mode, one byte stream in each direction:
//
//	host -> tnc   "C:" text CR crc16(text CR)            command
//	host -> tnc   "D:" len16 data crc16(len16 data)      data to send
//	tnc  -> host  "c:" text CR crc16(text CR)            reply / asynchronous event
//	tnc  -> host  "d:" len16 type3 data crc16(len16 type3 data), len16 = 3+|data|, type in ARQ FEC ERR IDF
//
// crc16 is the remainder of the bit string 0xFFFF || bytes divided by x^16+x^15+x^11+x^4 (0x18810)
// over GF(2), transmitted big-endian; len16 is big-endian.
//
// TCP mode: the same texts without prefix and CRC on the control socket; the data socket (control
// port + 1) carries len16 data host->tnc and len16 type3 data tnc->host.
package ardopsim

import "encoding/binary"

// poly is the 17 bit divisor x^16 + x^15 + x^11 + x^4.
const poly = 0x18810

// CRC returns the remainder of 0xFFFF||data divided by poly (bitwise long division with a 17 bit window).
func CRC(data []byte) uint16 {
	var win uint32 = 0xFFFF // the 16 leading dividend bits; bit 16 is the position the divisor is aligned to
	for _, b := range data {
		for k := 7; k >= 0; k-- {
			win = win<<1 | uint32(b>>uint(k))&1 // bring down the next dividend bit
			if win&0x10000 != 0 {               // leading bit set: subtract (xor) the divisor
				win ^= poly
			}
		}
	}
	return uint16(win)
}

// crcNaive is the same division written out on an explicit bit array (used by the self test only).
func crcNaive(data []byte) uint16 {
	bits := make([]byte, 0, 16+8*len(data))
	for i := 0; i < 16; i++ {
		bits = append(bits, 1)
	}
	for _, b := range data {
		for k := 7; k >= 0; k-- {
			bits = append(bits, b>>uint(k)&1)
		}
	}
	var div [17]byte
	for i := range div {
		div[i] = byte(uint32(poly) >> uint(16-i) & 1)
	}
	for i := 0; i+17 <= len(bits); i++ {
		if bits[i] == 1 {
			for j := range div {
				bits[i+j] ^= div[j]
			}
		}
	}
	var r uint16
	for _, b := range bits[len(bits)-16:] {
		r = r<<1 | uint16(b)
	}
	return r
}

func be16(v int) []byte { var b [2]byte; binary.BigEndian.PutUint16(b[:], uint16(v)); return b[:] }

// CtrlFrame is a tnc->host control line: "c:" text CR crc in serial mode, text CR in TCP mode.
func CtrlFrame(tcp bool, text string) []byte {
	body := append([]byte(text), '\r')
	if tcp {
		return body
	}
	out := append([]byte("c:"), body...)
	return append(out, be16(int(CRC(body)))...)
}

// DataFrame is a tnc->host data frame of the given 3 letter type.
func DataFrame(tcp bool, typ string, payload []byte) []byte {
	return RawDataFrame(tcp, 3+len(payload), append([]byte(typ), payload...), true)
}

// RawDataFrame builds a tnc->host data frame with an arbitrary declared length and body (the
// malformed-input family uses it for short, oversized and lying frames); goodCRC=false breaks the CRC.
func RawDataFrame(tcp bool, declared int, body []byte, goodCRC bool) []byte {
	inner := append(be16(declared), body...)
	if tcp {
		return inner
	}
	crc := CRC(inner)
	if !goodCRC {
		crc ^= 0x5a5a
	}
	out := append([]byte("d:"), inner...)
	return append(out, be16(int(crc))...)
}

// HostCtrlFrame / HostDataFrame are what a conforming host sends (reference encoder for the oracle).
func HostCtrlFrame(tcp bool, text string) []byte {
	body := append([]byte(text), '\r')
	if tcp {
		return body
	}
	out := append([]byte("C:"), body...)
	return append(out, be16(int(CRC(body)))...)
}

func HostDataFrame(tcp bool, data []byte) []byte {
	inner := append(be16(len(data)), data...)
	if tcp {
		return inner
	}
	out := append([]byte("D:"), inner...)
	return append(out, be16(int(CRC(inner)))...)
}
