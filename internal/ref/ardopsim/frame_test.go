package ardopsim

import "testing"

// Vectors published in the repository's crc16_test.go (values only; the algorithm is ours).
func TestCRCVectors(t *testing.T) {
	for in, want := range map[string]uint16{
		"RDY\r":                  55805,
		"voluptatem accusantium": 24749,
		"hagavik":                44843,
		"Lorem ipsum dolor sit amet, consectetur adipiscing elit, sed do eiusmod tempor": 50066,
	} {
		if got := CRC([]byte(in)); got != want {
			t.Errorf("CRC(%q) = %d, want %d", in, got, want)
		}
		if got := crcNaive([]byte(in)); got != want {
			t.Errorf("crcNaive(%q) = %d, want %d", in, got, want)
		}
	}
	if CRC(nil) != 0xFFFF {
		t.Errorf("CRC(empty) = %04x", CRC(nil))
	}
}

func TestCRCWindowEqualsNaive(t *testing.T) {
	s := uint64(1)
	for n := 0; n < 300; n++ {
		b := make([]byte, n)
		for i := range b {
			s = s*6364136223846793005 + 1442695040888963407
			b[i] = byte(s >> 33)
		}
		if CRC(b) != crcNaive(b) {
			t.Fatalf("window and bit-array division differ for %x", b)
		}
	}
}

func TestFrames(t *testing.T) {
	f := CtrlFrame(false, "RDY")
	if string(f[:6]) != "c:RDY\r" || int(f[6])<<8|int(f[7]) != 55805 || len(f) != 8 {
		t.Fatalf("ctrl frame %x", f)
	}
	d := DataFrame(false, "ARQ", []byte("hi"))
	if string(d[:2]) != "d:" || d[2] != 0 || d[3] != 5 || string(d[4:9]) != "ARQhi" || len(d) != 11 {
		t.Fatalf("data frame %x", d)
	}
	if got := DataFrame(true, "ARQ", []byte("hi")); string(got) != "\x00\x05ARQhi" {
		t.Fatalf("tcp data frame %x", got)
	}
}
