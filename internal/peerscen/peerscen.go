// Package peerscen builds and runs "library Session talks to the independent reference peer"
// cases. It is shared by C05 (conformance), C03 (hostile transcripts are mutations of the recorded
// conforming peer->library stream), C04 and C16.
package peerscen

import (
	"bytes"
	"fmt"
	"io"
	"log"
	"os"
	"sort"
	"strings"
	"time"

	"github.com/la5nta/wl2k-go/fbb"
	"pgregory.net/rapid"

	"verif/internal/gen"
	"verif/internal/harness"
	"verif/internal/membox"
	"verif/internal/msggen"
	"verif/internal/ref/b2f"
	"verif/internal/ref/secure"
	"verif/internal/stream"
)

type Lib struct {
	Call     string            `json:"call"`
	Target   string            `json:"target"`
	Locator  string            `json:"locator"`
	UAName   string            `json:"ua_name"`
	UAVer    string            `json:"ua_ver"`
	Aux      []string          `json:"aux,omitempty"`
	Password string            `json:"password,omitempty"`
	AuxPw    map[string]string `json:"aux_pw,omitempty"`
	MOTD     []string          `json:"motd,omitempty"`
	Queue    []msggen.Spec     `json:"queue"`
	Policy   map[string]string `json:"policy,omitempty"` // answers to the peer's MIDs
	Batched  bool              `json:"batched"`
	NoHandler bool             `json:"no_handler,omitempty"`
	Sched    []int             `json:"sched"`
	Gzip     bool              `json:"gzip"`
}

type Peer struct {
	Master     bool              `json:"master"`
	Call       string            `json:"call"`
	Locator    string            `json:"locator"`
	SID        string            `json:"sid"`
	FW         []string          `json:"fw"`
	MOTD       []string          `json:"motd,omitempty"`
	Challenge  string            `json:"challenge,omitempty"`
	Prompt     string            `json:"prompt,omitempty"`
	Queue      []msggen.Spec     `json:"queue"`
	Titles     map[string]string `json:"titles,omitempty"`
	Dup        map[string]bool   `json:"dup,omitempty"`
	Answers    map[string]string `json:"answers,omitempty"`
	BlockSizes []int             `json:"block_sizes"`
	Late       int               `json:"late,omitempty"` // the last Late peer queue entries arrive (become available) after the peer's first FF
	PreBlock   []string          `json:"pre_block,omitempty"`
	MidBlock   []string          `json:"mid_block,omitempty"`
	PreFS      []string          `json:"pre_fs,omitempty"`
	EarlyFQ    bool              `json:"early_fq"`
	// EarlyFQData: the early FQ also follows a block of which messages were sent; HangUp: the peer hangs up as soon as
	// its session is over (CMS closes the connection right behind its FQ), so that later writes of the library fail
	EarlyFQData bool `json:"early_fq_data,omitempty"`
	HangUp      bool `json:"hang_up,omitempty"`
	HoldIsAccept bool            `json:"hold_is_accept,omitempty"`
	Gzip       bool              `json:"gzip"`
	GzipMsgs   bool              `json:"gzip_msgs"`
	Sched      []int             `json:"sched"`
}

type Case struct {
	Lib  Lib  `json:"lib"`
	Peer Peer `json:"peer"`
}

// Precedence is the Winlink precedence of a subject (0 flash .. 3 routine).
func Precedence(subject string) int {
	switch {
	case strings.Contains(subject, "//WL2K Z/"):
		return 0
	case strings.Contains(subject, "//WL2K O/"):
		return 1
	case strings.Contains(subject, "//WL2K P/"):
		return 2
	}
	return 3
}

var discard = log.New(io.Discard, "", 0)

// Outcome carries what a run observed.
type Outcome struct {
	Transferred int
	Choices     map[string]int
	Peer        b2f.Result
	LibWritten  []byte
	Stats       fbb.TrafficStats
	Err         error
	Box         *membox.Box
}

// Run executes the case and judges wire conformance and outcome. It returns ("","") or (signature, message).
func Run(c Case) (sig, msg string, oc Outcome) {
	if c.Lib.Gzip {
		os.Setenv("GZIP_EXPERIMENT", "1")
	} else {
		os.Unsetenv("GZIP_EXPERIMENT")
	}
	box := membox.New(c.Lib.Call)
	exp := b2f.Expect{Call: strings.ToUpper(c.Lib.Call), Target: strings.ToUpper(c.Lib.Target), Locator: c.Lib.Locator, UAName: c.Lib.UAName, UAVer: c.Lib.UAVer,
		Gzip: c.Lib.Gzip, MOTD: c.Lib.MOTD, WantsMsg: !c.Lib.NoHandler}
	libBytes := map[string][]byte{}
	for _, spec := range c.Lib.Queue {
		m, err := spec.Build()
		if err != nil {
			return "harness-generator", err.Error(), oc
		}
		if err := m.Validate(); err != nil {
			return "harness-generator", fmt.Sprintf("invalid message %s: %v", spec.MID, err), oc
		}
		box.Add(m)
		b, _ := m.Bytes()
		libBytes[spec.MID] = b
		exp.Queue = append(exp.Queue, b2f.LibMsg{MID: spec.MID, Bytes: b, Precedence: Precedence(spec.Subject)})
	}
	if c.Lib.NoHandler {
		exp.Queue = nil
	}
	for mid, a := range c.Lib.Policy {
		box.Policy[mid] = fbb.ProposalAnswer(a[0])
	}
	// expected ;FW line
	fw := ";FW: " + fbb.AddressFromString(c.Lib.Call).Addr
	challenge := ""
	if c.Peer.Master {
		challenge = c.Peer.Challenge
	}
	for _, a := range c.Lib.Aux {
		addr := fbb.AddressFromString(a).Addr
		if pw := c.Lib.AuxPw[a]; challenge != "" && pw != "" {
			fw += " " + addr + "|" + secure.Response(challenge, pw)
		} else {
			fw += " " + addr
		}
	}
	exp.FWLine = fw
	if challenge != "" {
		exp.PR = secure.Response(challenge, c.Lib.Password)
	}

	pc := b2f.Config{Master: c.Peer.Master, Call: c.Peer.Call, Locator: c.Peer.Locator, SID: c.Peer.SID, FW: c.Peer.FW, MOTD: c.Peer.MOTD,
		Challenge: challenge, Prompt: c.Peer.Prompt, Dup: c.Peer.Dup, Answers: c.Peer.Answers, BlockSizes: c.Peer.BlockSizes,
		PreBlock: c.Peer.PreBlock, MidBlock: c.Peer.MidBlock, PreFS: c.Peer.PreFS, EarlyFQ: c.Peer.EarlyFQ, EarlyFQAfterData: c.Peer.EarlyFQData, HoldIsAccept: c.Peer.HoldIsAccept, Gzip: c.Peer.Gzip, Late: c.Peer.Late, Exp: exp}
	peerBytes := map[string][]byte{}
	for _, spec := range c.Peer.Queue {
		m, err := spec.Build()
		if err != nil {
			return "harness-generator", err.Error(), oc
		}
		b, _ := m.Bytes()
		peerBytes[spec.MID] = b
		code := byte('C')
		if c.Peer.GzipMsgs {
			code = 'D'
		}
		title := c.Peer.Titles[spec.MID]
		if title == "" {
			title = spec.Subject
		}
		pc.Queue = append(pc.Queue, b2f.Out{MID: spec.MID, Title: title, Data: b, Code: code})
	}

	var h fbb.MBoxHandler
	if !c.Lib.NoHandler {
		h = box.Handler(c.Lib.Batched)
	}
	s := fbb.NewSession(c.Lib.Call, c.Lib.Target, c.Lib.Locator, h)
	s.IsMaster(!c.Peer.Master)
	s.SetLogger(discard)
	s.SetUserAgent(fbb.UserAgent{Name: c.Lib.UAName, Version: c.Lib.UAVer})
	if len(c.Lib.MOTD) > 0 {
		s.SetMOTD(c.Lib.MOTD...)
	}
	for _, a := range c.Lib.Aux {
		s.AddAuxiliaryAddress(fbb.AddressFromString(a))
	}
	if challenge != "" {
		s.SetSecureLoginHandleFunc(func(addr fbb.Address) (string, error) {
			if strings.EqualFold(addr.Addr, fbb.AddressFromString(c.Lib.Call).Addr) {
				return c.Lib.Password, nil
			}
			for _, a := range c.Lib.Aux {
				if fbb.AddressFromString(a).Addr == addr.Addr {
					return c.Lib.AuxPw[a], nil
				}
			}
			return "", nil
		})
	}
	el, ep := stream.Pair()
	el.SetReadSchedule(c.Lib.Sched)
	ep.SetReadSchedule(c.Peer.Sched)
	if c.Peer.HangUp {
		ep.HangUpOnClose()
	}

	var stats fbb.TrafficStats
	var lerr error
	var pres b2f.Result
	var psig, pmsg string
	done := make(chan struct{}, 2)
	hung, kind := harness.Watch(90*time.Second, func() {
		go func() {
			defer func() { done <- struct{}{} }()
			psig, pmsg = harness.Catch(func() { stats, lerr = s.Exchange(el) })
			if psig != "" {
				el.Close()
			}
		}()
		go func() {
			defer func() { done <- struct{}{} }()
			pres = b2f.Run(ep, pc)
		}()
		<-done
		<-done
	})
	if hung {
		harness.Record("hang:exchange-"+kind, c, "Exchange with the reference peer did not return")
		harness.ExitHung()
	}
	if psig != "" {
		oc.Peer = pres // what the peer had sent when the Session crashed (C03 replays it)
		return psig, pmsg, oc
	}
	oc.Choices, oc.Peer, oc.LibWritten, oc.Stats, oc.Err, oc.Box = pres.Choices, pres, el.Written(), stats, lerr, box
	tail := func() string {
		w := el.Written()
		if len(w) > 300 {
			w = w[len(w)-300:]
		}
		return fmt.Sprintf(" [last bytes written by the Session: %q; Exchange error: %v; peer error: %v]", w, lerr, pres.Err)
	}
	if pres.Nonconform != "" {
		return "nonconforming-output", "the Session emitted a non-conforming byte sequence: " + pres.Nonconform + tail(), oc
	}
	if el.Deadlocked() {
		return "deadlock-with-conforming-peer", "Session and conforming peer both wait for each other" + tail(), oc
	}
	if lerr != nil {
		return "rejects-conforming-peer", fmt.Sprintf("Exchange failed against a conforming peer: %v (peer: %v)", lerr, pres.Err) + tail(), oc
	}
	if pres.Err != nil {
		return "peer-transport-error", fmt.Sprintf("peer saw %v although Exchange returned nil", pres.Err) + tail(), oc
	}
	// ---- outcome -----------------------------------------------------------------------------
	// library -> peer
	var wantAcc, wantRej, wantDef []string
	if !c.Lib.NoHandler {
		for _, spec := range c.Lib.Queue {
			tok := c.Peer.Answers[spec.MID]
			if tok == "" {
				tok = "+"
			}
			switch tok[0] {
			case '+', 'Y', 'y', '!', 'A', 'a':
				wantAcc = append(wantAcc, spec.MID)
			case '-', 'N', 'n', 'R', 'r':
				wantRej = append(wantRej, spec.MID)
			default:
				wantDef = append(wantDef, spec.MID)
			}
		}
	}
	var got []string
	for _, r := range pres.Received {
		got = append(got, r.MID)
	}
	if !sameSet(got, wantAcc) {
		return "outcome-peer-received", fmt.Sprintf("peer received %v, accepted %v", got, wantAcc), oc
	}
	if !sameSet(stats.Sent, wantAcc) {
		return "outcome-stats-sent", fmt.Sprintf("stats.Sent %v, accepted %v", stats.Sent, wantAcc), oc
	}
	for _, mid := range wantAcc {
		if box.Sent[mid] != 1 || box.Rejected[mid] != 0 || box.Deferred[mid] != 0 {
			return "outcome-sent-report", fmt.Sprintf("accepted %s: SetSent(false)x%d SetSent(true)x%d SetDeferred x%d", mid, box.Sent[mid], box.Rejected[mid], box.Deferred[mid]), oc
		}
	}
	for _, mid := range wantRej {
		if box.Rejected[mid] != 1 || box.Sent[mid] != 0 {
			return "outcome-reject-report", fmt.Sprintf("rejected %s: SetSent(true)x%d SetSent(false)x%d", mid, box.Rejected[mid], box.Sent[mid]), oc
		}
	}
	for _, mid := range wantDef {
		if box.Deferred[mid] != 1 || box.Sent[mid] != 0 || box.Rejected[mid] != 0 {
			return "outcome-defer-report", fmt.Sprintf("deferred %s: SetDeferred x%d, sent %d, rejected %d", mid, box.Deferred[mid], box.Sent[mid], box.Rejected[mid]), oc
		}
	}
	if len(box.Sent)+len(box.Rejected)+len(box.Deferred) != len(wantAcc)+len(wantRej)+len(wantDef) {
		return "outcome-extra-report", fmt.Sprintf("handler saw sent=%v rejected=%v deferred=%v", box.Sent, box.Rejected, box.Deferred), oc
	}
	// peer -> library
	var pAcc []string
	never := map[string]bool{}
	for _, m := range pres.NeverOffered {
		never[m] = true
	}
	for _, spec := range c.Peer.Queue {
		if never[spec.MID] {
			if len(box.Inbox[spec.MID]) != 0 {
				return "outcome-refused-was-delivered", fmt.Sprintf("%s was never offered but delivered", spec.MID), oc
			}
			continue
		}
		pol := c.Lib.Policy[spec.MID]
		if c.Lib.NoHandler {
			pol = "="
		}
		switch pol {
		case "-", "=":
			if len(box.Inbox[spec.MID]) != 0 {
				return "outcome-refused-was-delivered", fmt.Sprintf("%s was answered %q but delivered", spec.MID, pol), oc
			}
		default:
			pAcc = append(pAcc, spec.MID)
			if len(box.Inbox[spec.MID]) != 1 {
				return "outcome-accepted-not-delivered-once", fmt.Sprintf("accepted %s was handed to the handler %d times", spec.MID, len(box.Inbox[spec.MID])), oc
			}
			if !bytes.Equal(box.Inbox[spec.MID][0], peerBytes[spec.MID]) {
				return "outcome-delivered-differs", fmt.Sprintf("%s delivered with different content", spec.MID), oc
			}
		}
	}
	if !sameSet(stats.Received, pAcc) || !sameSet(pres.SentOK, pAcc) {
		return "outcome-received", fmt.Sprintf("stats.Received %v, peer transferred %v, expected %v", stats.Received, pres.SentOK, pAcc), oc
	}
	// forwarders handed to the handler: the peer's list without hashes
	var wantFW []string
	for _, f := range c.Peer.FW {
		wantFW = append(wantFW, fbb.AddressFromString(strings.Split(f, "|")[0]).String())
	}
	for _, e := range box.Events {
		if e.Kind == "outbound" && fmt.Sprint(e.FW) != fmt.Sprint(wantFW) {
			return "outcome-forwarders", fmt.Sprintf("GetOutbound called with %v, peer announced %v", e.FW, c.Peer.FW), oc
		}
	}
	if el.CloseCount() < 1 {
		return "conn-not-closed", "Exchange did not close the connection", oc
	}
	oc.Transferred = len(wantAcc) + len(pAcc)
	return "", "", oc
}

func sameSet(a, b []string) bool {
	a, b = append([]string(nil), a...), append([]string(nil), b...)
	sort.Strings(a)
	sort.Strings(b)
	return fmt.Sprint(a) == fmt.Sprint(b)
}

// ---- generator --------------------------------------------------------------------------------

var calls = []string{"LA5NTA", "N0CALL", "W1AW-5", "LA1B-10", "SM0XYZ", "DL1ABC-15", "la3f"}

func comment(t *rapid.T, label string, to, from string, mids []string) string {
	switch rapid.IntRange(0, 3).Draw(t, label+"_kind") {
	case 0:
		mid := "ABCDEFGHIJKL"
		if len(mids) > 0 {
			mid = mids[rapid.IntRange(0, len(mids)-1).Draw(t, label+"_mid")]
		}
		return fmt.Sprintf(";PM: %s %s %d %s %s", to, mid, rapid.IntRange(1, 99999).Draw(t, label+"_sz"), from, rapid.StringMatching(`[A-Za-z0-9][A-Za-z0-9 ]{0,20}`).Draw(t, label+"_subj"))
	case 1:
		return ";WARNING: " + rapid.StringMatching(`[A-Za-z0-9 .,:]{0,30}`).Draw(t, label+"_w")
	default:
		c := ";" + rapid.StringMatching(`[ -~]{0,40}`).Draw(t, label+"_c")
		// ";FW", ";PQ" and ";PR" open handshake lines: a free-text comment must not begin with them (a caller's
		// handshake has no terminator, so its first-turn comments are read by the same grammar)
		for _, reserved := range []string{";FW", ";PQ", ";PR", ";fw", ";pq", ";pr"} {
			if strings.HasPrefix(c, reserved) {
				c = ";-" + c[1:]
			}
		}
		return c
	}
}

// GenCase draws a case. maxMsg bounds attachment/body sizes.
func GenCase(t *rapid.T) Case {
	var c Case
	il := rapid.IntRange(0, len(calls)-1).Draw(t, "libcall")
	ip := rapid.IntRange(0, len(calls)-2).Draw(t, "peercall")
	if ip >= il {
		ip++
	}
	c.Lib.Call, c.Peer.Call = calls[il], strings.ToUpper(calls[ip])
	c.Lib.Target = c.Peer.Call
	if rapid.Bool().Draw(t, "target_lower") {
		c.Lib.Target = strings.ToLower(c.Lib.Target)
	}
	c.Lib.Locator = rapid.SampledFrom([]string{"JO29PJ", "JP20", "", "FN31pr"}).Draw(t, "loc")
	c.Peer.Locator = "JO59"
	c.Lib.UAName = rapid.StringMatching(`[A-Za-z][A-Za-z0-9.]{0,11}`).Draw(t, "uan")
	c.Lib.UAVer = rapid.StringMatching(`[0-9a-z][0-9a-z.]{0,7}`).Draw(t, "uav")
	c.Lib.Sched, c.Peer.Sched = gen.Schedule(t, "lsched"), gen.Schedule(t, "psched")
	c.Lib.Batched = rapid.Bool().Draw(t, "batched")
	c.Lib.Gzip = rapid.IntRange(0, 2).Draw(t, "lgzip") == 0
	c.Peer.Gzip = rapid.IntRange(0, 1).Draw(t, "pgzip") == 0
	c.Peer.GzipMsgs = rapid.Bool().Draw(t, "pgzipmsgs")
	c.Peer.Master = rapid.Bool().Draw(t, "peer_master")
	c.Lib.NoHandler = rapid.IntRange(0, 9).Draw(t, "nohandler") == 0
	naux := rapid.SampledFrom([]int{0, 0, 1, 2, 3}).Draw(t, "naux")
	for i := 0; i < naux; i++ {
		c.Lib.Aux = append(c.Lib.Aux, rapid.SampledFrom([]string{"LA9XYZ", "EMCOMM-1", "TAC1", "N0AUX", "SK0QO"}).Draw(t, "aux"))
	}
	// peer SID
	author := rapid.StringMatching(`[A-Za-z][A-Za-z0-9 ]{0,9}[A-Za-z0-9]`).Draw(t, "sid_author")
	// versions carry letters in the wild ("FBB-7.00i", "1.0b2"): including the letters that are feature codes
	ver := rapid.StringMatching(`[0-9][0-9.]{0,5}([a-z]|[A-Z]|b2|B2|g|G|B1F){0,2}`).Draw(t, "sid_ver")
	feats := rapid.SliceOfNDistinct(rapid.SampledFrom([]string{"A", "F", "H", "I", "J", "M", "W", "X", "B1"}), 0, 6, func(s string) string { return s }).Draw(t, "sid_feats")
	pos := rapid.IntRange(0, len(feats)).Draw(t, "b2pos")
	fl := append(append(append([]string{}, feats[:pos]...), "B2"), feats[pos:]...)
	feat := strings.Join(fl, "")
	if !strings.Contains(feat, "F") {
		feat += "F"
	}
	if c.Peer.Gzip {
		feat += "G"
	}
	if rapid.IntRange(0, 4).Draw(t, "sid2") == 0 {
		c.Peer.SID = fmt.Sprintf("[%s-%s$]", author, feat)
	} else {
		c.Peer.SID = fmt.Sprintf("[%s-%s-%s$]", author, ver, feat)
	}
	// forwarders announced by the peer
	switch rapid.IntRange(0, 3).Draw(t, "fwkind") {
	case 0:
		if c.Peer.Master {
			c.Peer.FW = nil // a CMS sends no ;FW line
		} else {
			c.Peer.FW = []string{c.Peer.Call}
		}
	case 1:
		c.Peer.FW = []string{c.Peer.Call}
	case 2:
		c.Peer.FW = []string{c.Peer.Call, "LA7AUX|" + rapid.StringMatching(`[0-9]{8}`).Draw(t, "fwhash")}
	default:
		c.Peer.FW = []string{c.Peer.Call + "|" + rapid.StringMatching(`[0-9a-f]{8}`).Draw(t, "fwhash"), "TAC9"}
	}
	used := map[string]bool{}
	// 13+: beyond the 12 elements up to which the standard sorts are insertion sorts (stable by accident)
	nl := rapid.SampledFrom([]int{0, 1, 2, 3, 5, 6, 7, 11, 13, 17, 24}).Draw(t, "nlib")
	for i := 0; i < nl; i++ {
		big := 3000
		if nl > 12 {
			big = 200
		}
		c.Lib.Queue = append(c.Lib.Queue, msggen.Gen(t, used, c.Lib.Call, c.Peer.Call, big))
	}
	np := rapid.SampledFrom([]int{0, 1, 2, 3, 5, 6, 7}).Draw(t, "npeer")
	for i := 0; i < np; i++ {
		c.Peer.Queue = append(c.Peer.Queue, msggen.Gen(t, used, c.Peer.Call, c.Lib.Call, 3000))
	}
	if np > 0 && rapid.IntRange(0, 3).Draw(t, "late") == 0 {
		c.Peer.Late = rapid.IntRange(1, np).Draw(t, "n_late")
	}
	var libMids, peerMids []string
	for _, q := range c.Lib.Queue {
		libMids = append(libMids, q.MID)
	}
	for _, q := range c.Peer.Queue {
		peerMids = append(peerMids, q.MID)
	}
	// handshake text
	if c.Peer.Master {
		nm := rapid.IntRange(0, 3).Draw(t, "nmotd")
		for i := 0; i < nm; i++ {
			c.Peer.MOTD = append(c.Peer.MOTD, rapid.StringMatching(`[A-Za-z0-9*][ -=?-~]{0,50}[A-Za-z0-9.!]`).Draw(t, "motd"))
		}
		c.Peer.Prompt = rapid.StringMatching(`[A-Za-z0-9][A-Za-z0-9 -]{0,15}`).Draw(t, "prompt") + ">"
		if rapid.IntRange(0, 2).Draw(t, "pq") == 0 {
			c.Peer.Challenge = rapid.StringMatching(`[0-9]{8}`).Draw(t, "challenge")
			c.Lib.Password = rapid.StringMatching(`[!-~]{1,12}`).Draw(t, "password")
			if rapid.IntRange(0, 2).Draw(t, "small_token") == 0 {
				// a challenge whose 30 bit value has fewer than eight decimal digits (about one in a hundred has):
				// the answer needs its zero padding
				start := rapid.IntRange(0, 99999999).Draw(t, "challenge_from")
				for i := 0; i < 20000; i++ {
					ch := fmt.Sprintf("%08d", (start+i)%100000000)
					if secure.Value(ch, c.Lib.Password) < 10000000 {
						c.Peer.Challenge = ch
						break
					}
				}
			}
			c.Lib.AuxPw = map[string]string{}
			for _, a := range c.Lib.Aux {
				if rapid.Bool().Draw(t, "auxpw") {
					c.Lib.AuxPw[a] = rapid.StringMatching(`[A-Za-z0-9]{1,10}`).Draw(t, "auxpwv")
				}
			}
		}
	} else {
		nm := rapid.IntRange(0, 2).Draw(t, "nmotd")
		for i := 0; i < nm; i++ {
			c.Lib.MOTD = append(c.Lib.MOTD, rapid.StringMatching(`[A-EG-Za-z0-9][ -=?-~]{0,50}[A-Za-z0-9.!]`).Draw(t, "lmotd"))
		}
	}
	// answers
	forms := []string{"+", "Y", "y", "!0", "A0", "a0", "-", "N", "n", "R", "r", "=", "L", "l"}
	if rapid.Bool().Draw(t, "nondefault_answers") {
		c.Peer.Answers = map[string]string{}
		for _, mid := range libMids {
			tok := rapid.SampledFrom(forms).Draw(t, "answer")
			if rapid.IntRange(0, 1).Draw(t, "plus_bias") == 0 {
				tok = rapid.SampledFrom(forms[:6]).Draw(t, "answer_acc")
			}
			c.Peer.Answers[mid] = tok
		}
	}
	harness.Excluded("answer-H-treated-as-defer") // generator never draws H/h, see assumptions
	if rapid.Bool().Draw(t, "lib_policy") {
		c.Lib.Policy = map[string]string{}
		for _, mid := range peerMids {
			if a := rapid.SampledFrom([]string{"+", "+", "-", "="}).Draw(t, "lpol"); a != "+" {
				c.Lib.Policy[mid] = a
			}
		}
	}
	// encoding choices
	switch rapid.IntRange(0, 3).Draw(t, "bs_kind") {
	case 0:
		c.Peer.BlockSizes = []int{250}
	case 1:
		c.Peer.BlockSizes = []int{rapid.SampledFrom([]int{1, 2, 125, 255, 256}).Draw(t, "bs")}
	default:
		c.Peer.BlockSizes = rapid.SliceOfN(rapid.IntRange(1, 256), 1, 6).Draw(t, "bss")
	}
	if rapid.IntRange(0, 2).Draw(t, "c1") == 0 {
		for i := rapid.IntRange(1, 2).Draw(t, "npre"); i > 0; i-- {
			c.Peer.PreBlock = append(c.Peer.PreBlock, comment(t, "pre", c.Lib.Call, c.Peer.Call, peerMids))
		}
	}
	if rapid.IntRange(0, 3).Draw(t, "c2") == 0 {
		c.Peer.MidBlock = []string{comment(t, "mid", c.Lib.Call, c.Peer.Call, peerMids)}
	}
	if rapid.IntRange(0, 2).Draw(t, "c3") == 0 {
		c.Peer.PreFS = []string{comment(t, "prefs", c.Lib.Call, c.Peer.Call, libMids)}
	}
	c.Peer.EarlyFQ = rapid.Bool().Draw(t, "early_fq")
	if c.Peer.EarlyFQ {
		c.Peer.EarlyFQData = rapid.Bool().Draw(t, "early_fq_data")
		c.Peer.HangUp = rapid.Bool().Draw(t, "hang_up")
	}
	if len(peerMids) > 0 && rapid.IntRange(0, 3).Draw(t, "dup") == 0 {
		c.Peer.Dup = map[string]bool{peerMids[rapid.IntRange(0, len(peerMids)-1).Draw(t, "dupmid")]: true}
	}
	if rapid.IntRange(0, 3).Draw(t, "titles") == 0 {
		c.Peer.Titles = map[string]string{}
		for _, mid := range peerMids {
			c.Peer.Titles[mid] = rapid.StringMatching(`[!-~][ -~]{0,78}[!-~]`).Draw(t, "title")
		}
	}
	return c
}



// NewLibSession builds only the library side of a case (Session + recording mailbox), for
// properties that drive it with a scripted remote. challenge is what the remote will send in ;PQ.
func NewLibSession(c Case) (*fbb.Session, *membox.Box, error) {
	if c.Lib.Gzip {
		os.Setenv("GZIP_EXPERIMENT", "1")
	} else {
		os.Unsetenv("GZIP_EXPERIMENT")
	}
	box := membox.New(c.Lib.Call)
	for _, spec := range c.Lib.Queue {
		m, err := spec.Build()
		if err != nil {
			return nil, nil, err
		}
		box.Add(m)
	}
	for mid, a := range c.Lib.Policy {
		box.Policy[mid] = fbb.ProposalAnswer(a[0])
	}
	var h fbb.MBoxHandler
	if !c.Lib.NoHandler {
		h = box.Handler(c.Lib.Batched)
	}
	s := fbb.NewSession(c.Lib.Call, c.Lib.Target, c.Lib.Locator, h)
	s.IsMaster(!c.Peer.Master)
	s.SetLogger(discard)
	s.SetUserAgent(fbb.UserAgent{Name: c.Lib.UAName, Version: c.Lib.UAVer})
	if len(c.Lib.MOTD) > 0 {
		s.SetMOTD(c.Lib.MOTD...)
	}
	for _, a := range c.Lib.Aux {
		s.AddAuxiliaryAddress(fbb.AddressFromString(a))
	}
	if c.Lib.Password != "" || len(c.Lib.AuxPw) > 0 {
		s.SetSecureLoginHandleFunc(func(addr fbb.Address) (string, error) {
			if strings.EqualFold(addr.Addr, fbb.AddressFromString(c.Lib.Call).Addr) {
				return c.Lib.Password, nil
			}
			for _, a := range c.Lib.Aux {
				if fbb.AddressFromString(a).Addr == addr.Addr {
					return c.Lib.AuxPw[a], nil
				}
			}
			return "", nil
		})
	}
	return s, box, nil
}
