// Package scen builds and runs "two library sessions talk to each other" scenarios over the
// in-memory duplex stream. It is shared by C01, C02, C04 and C17.
package scen

import (
	"bytes"
	"fmt"
	"io"
	"log"
	"net"
	"os"
	"sort"
	"time"

	"github.com/la5nta/wl2k-go/fbb"
	"pgregory.net/rapid"

	"verif/internal/gen"
	"verif/internal/harness"
	"verif/internal/membox"
	"verif/internal/msggen"
	"verif/internal/stream"
)

// Side is one station.
type Side struct {
	Call    string            `json:"call"`
	MOTD    []string          `json:"motd,omitempty"`
	UAName  string            `json:"ua_name,omitempty"`
	UAVer   string            `json:"ua_ver,omitempty"`
	Batched bool              `json:"batched,omitempty"`
	Queue   []msggen.Spec     `json:"queue"`
	Policy  map[string]string `json:"policy,omitempty"` // answer to the PEER's MIDs: "+", "-", "="; default "+"
	Sched   []int             `json:"sched,omitempty"`  // read schedule of this side's conn
}

// Scenario is a complete two-station exchange.
type Scenario struct {
	A, B      Side
	AIsMaster bool `json:"a_is_master"`
	Gzip      bool `json:"gzip"`
}

var calls = []string{"LA5NTA", "N0CALL", "W1AW-5", "LA1B-10", "SM0XYZ", "K1", "DL1ABC-15"}

// GenSide draws a side with n messages addressed to peer.
func GenSide(t *rapid.T, label string, call, peer string, used map[string]bool, maxMsgs, big int) Side {
	s := Side{Call: call, Sched: gen.Schedule(t, label+"_sched"), Batched: rapid.Bool().Draw(t, label+"_batched")}
	var n int
	switch rapid.IntRange(0, 6).Draw(t, label+"_n_cls") {
	case 6:
		// a long queue (more than two blocks, beyond the 12 elements up to which sort.Sort/sort.Slice
		// happen to be stable): many small messages with mixed precedence and size ties
		if maxMsgs >= 12 {
			n = rapid.IntRange(13, 24).Draw(t, label+"_n")
		} else {
			n = rapid.IntRange(0, maxMsgs).Draw(t, label+"_n") // callers that enumerate faults per scenario keep it small
		}
	case 0:
		n = 0
	case 1:
		n = 1
	case 2:
		n = rapid.IntRange(5, 6).Draw(t, label+"_n")
	case 3:
		n = rapid.IntRange(maxMsgs-2, maxMsgs).Draw(t, label+"_n")
	default:
		n = rapid.IntRange(0, maxMsgs).Draw(t, label+"_n")
	}
	if n < 0 {
		n = 0
	}
	for i := 0; i < n; i++ {
		sz := big
		if n > 4 {
			sz = big / 4 // many messages: keep them smaller, and more likely to tie in size
		}
		if rapid.IntRange(0, 2).Draw(t, label+"_small") > 0 {
			sz = 600
		}
		if n > 12 {
			sz = 200
		}
		s.Queue = append(s.Queue, msggen.Gen(t, used, call, peer, sz))
	}
	if rapid.Bool().Draw(t, label+"_ua") {
		s.UAName = rapid.StringMatching(`[A-Za-z0-9.]{1,12}`).Draw(t, label+"_uan")
		s.UAVer = rapid.StringMatching(`[0-9a-z.]{1,8}`).Draw(t, label+"_uav")
	}
	return s
}

// motdLine draws a line that the handshake grammar does not reserve: no leading '[' + trailing ']',
// no ";FW"/";PQ" prefix, no trailing '>', no leading 'F' (the master-side reader treats an 'F' at the
// start of a line as the first protocol command), no leading '*', no CR/LF, not blank.
func motdLine(t *rapid.T, label string) string {
	s := rapid.StringMatching(`[A-EG-Za-z0-9][ -=?-~]{0,50}[A-Za-z0-9.!]`).Draw(t, label)
	return s
}

// Gen draws a scenario.
func Gen(t *rapid.T, maxMsgs, big int) Scenario {
	ia := rapid.IntRange(0, len(calls)-1).Draw(t, "callA")
	ib := rapid.IntRange(0, len(calls)-2).Draw(t, "callB")
	if ib >= ia {
		ib++
	}
	used := map[string]bool{}
	sc := Scenario{AIsMaster: rapid.Bool().Draw(t, "a_master"), Gzip: rapid.IntRange(0, 3).Draw(t, "gzip") == 0}
	sc.A = GenSide(t, "A", calls[ia], calls[ib], used, maxMsgs, big)
	sc.B = GenSide(t, "B", calls[ib], calls[ia], used, maxMsgs, big)
	nm := rapid.IntRange(0, 3).Draw(t, "motd_n")
	var motd []string
	for i := 0; i < nm; i++ {
		motd = append(motd, motdLine(t, "motd"))
	}
	if sc.AIsMaster {
		sc.A.MOTD = motd
	} else {
		sc.B.MOTD = motd
	}
	pol := func(label string, q []msggen.Spec) map[string]string {
		m := map[string]string{}
		mode := rapid.IntRange(0, 3).Draw(t, label+"_polmode")
		for _, s := range q {
			switch mode {
			case 0: // accept everything
			case 1:
				m[s.MID] = rapid.SampledFrom([]string{"+", "+", "-", "="}).Draw(t, label+"_pol")
			case 2:
				m[s.MID] = rapid.SampledFrom([]string{"-", "="}).Draw(t, label+"_pol")
			default:
				m[s.MID] = rapid.SampledFrom([]string{"+", "+", "+", "="}).Draw(t, label+"_pol")
			}
			if m[s.MID] == "+" {
				delete(m, s.MID)
			}
		}
		return m
	}
	sc.A.Policy = pol("A", sc.B.Queue)
	sc.B.Policy = pol("B", sc.A.Queue)
	return sc
}

// Station is the run-time state of one side across one or more sessions.
type Station struct {
	Side  Side
	Box   *membox.Box
	Bytes map[string][]byte // MID -> serialised bytes at queue time
}

// NewStation builds the mailbox and queues the side's messages.
func NewStation(s Side) (*Station, error) {
	st := &Station{Side: s, Box: membox.New(s.Call), Bytes: map[string][]byte{}}
	for _, spec := range s.Queue {
		m, err := spec.Build()
		if err != nil {
			return nil, fmt.Errorf("build %s: %v", spec.MID, err)
		}
		if err := m.Validate(); err != nil {
			return nil, fmt.Errorf("generator produced a message that is not valid (%s): %v", spec.MID, err)
		}
		if err := st.Box.Add(m); err != nil {
			return nil, err
		}
		b, _ := m.Bytes()
		st.Bytes[spec.MID] = b
	}
	for mid, a := range s.Policy {
		st.Box.Policy[mid] = fbb.ProposalAnswer(a[0])
	}
	return st, nil
}

// SessionResult is what one Exchange returned.
type SessionResult struct {
	Stats fbb.TrafficStats
	Err   error
	Panic string
	PSig  string
}

// Hooks lets a property shape the link and the sessions before they start.
type Hooks struct {
	Link    func(a, b *stream.End)             // install cuts, tampering, pacing
	Session func(side string, s *fbb.Session)  // e.g. SetStatusUpdater
	Conn    func(side string, e *stream.End) net.Conn // wrap the conn (e.g. stream.NewModem)
	Handler func(side string, h fbb.MBoxHandler) fbb.MBoxHandler
	Limit   time.Duration
}

// Outcome of one session between two stations.
type Outcome struct {
	A, B       SessionResult
	EndA, EndB *stream.End
	Hung       bool
	HangKind   string
}

var discard = log.New(io.Discard, "", 0)

// RunSession runs one Exchange on each side over a fresh link.
func RunSession(sc Scenario, sa, sb *Station, h Hooks) Outcome {
	if sc.Gzip {
		os.Setenv("GZIP_EXPERIMENT", "1")
	} else {
		os.Unsetenv("GZIP_EXPERIMENT")
	}
	ea, eb := stream.Pair()
	ea.SetReadSchedule(sc.A.Sched)
	eb.SetReadSchedule(sc.B.Sched)
	if h.Link != nil {
		h.Link(ea, eb)
	}
	mk := func(side string, st *Station, peer *Station, master bool) *fbb.Session {
		var hd fbb.MBoxHandler = st.Box.Handler(st.Side.Batched)
		if h.Handler != nil {
			hd = h.Handler(side, hd)
		}
		s := fbb.NewSession(st.Side.Call, peer.Side.Call, "JO29PJ", hd)
		s.IsMaster(master)
		s.SetLogger(discard)
		if len(st.Side.MOTD) > 0 {
			s.SetMOTD(st.Side.MOTD...)
		}
		if st.Side.UAName != "" {
			s.SetUserAgent(fbb.UserAgent{Name: st.Side.UAName, Version: st.Side.UAVer})
		}
		if h.Session != nil {
			h.Session(side, s)
		}
		return s
	}
	sessA := mk("A", sa, sb, sc.AIsMaster)
	sessB := mk("B", sb, sa, !sc.AIsMaster)
	out := Outcome{EndA: ea, EndB: eb}
	limit := h.Limit
	if limit == 0 {
		limit = 90 * time.Second
	}
	done := make(chan struct{}, 2)
	run := func(side string, s *fbb.Session, e *stream.End, res *SessionResult) {
		defer func() { done <- struct{}{} }()
		res.PSig, res.Panic = harness.Catch(func() {
			var c net.Conn = e
			if h.Conn != nil {
				c = h.Conn(side, e)
			}
			res.Stats, res.Err = s.Exchange(c)
		})
		if res.PSig != "" {
			// a panicking Exchange never closed its conn; do what a crashed process' OS would do
			e.Close()
		}
	}
	out.Hung, out.HangKind = harness.Watch(limit, func() {
		go run("A", sessA, ea, &out.A)
		go run("B", sessB, eb, &out.B)
		<-done
		<-done
	})
	return out
}

// Sorted returns a sorted copy.
func Sorted(s []string) []string {
	c := append([]string(nil), s...)
	sort.Strings(c)
	return c
}

// EqualSets compares two string multisets.
func EqualSets(a, b []string) bool {
	a, b = Sorted(a), Sorted(b)
	if len(a) != len(b) {
		return false
	}
	for i := range a {
		if a[i] != b[i] {
			return false
		}
	}
	return true
}

// CheckDirection applies the C01 history invariant to the direction from -> to for one completed
// clean session (fresh mailboxes). It returns "" or (sig, msg).
func CheckDirection(name string, from, to *Station, statsFrom, statsTo fbb.TrafficStats) (string, string) {
	var acc, rej, def []string
	for _, spec := range from.Side.Queue {
		switch to.Side.Policy[spec.MID] {
		case "-":
			rej = append(rej, spec.MID)
		case "=":
			def = append(def, spec.MID)
		default:
			acc = append(acc, spec.MID)
		}
	}
	in := func(l []string, x string) bool {
		for _, y := range l {
			if x == y {
				return true
			}
		}
		return false
	}
	for _, mid := range acc {
		copies := to.Box.Inbox[mid]
		if len(copies) != 1 {
			return "accepted-not-delivered-exactly-once", fmt.Sprintf("%s: accepted message %s was handed to the receiving handler %d times", name, mid, len(copies))
		}
		if !bytes.Equal(copies[0], from.Bytes[mid]) {
			return "delivered-content-differs", fmt.Sprintf("%s: message %s arrived with different bytes (%d vs %d queued, first difference at %d)", name, mid, len(copies[0]), len(from.Bytes[mid]), firstDiff(copies[0], from.Bytes[mid]))
		}
		if from.Box.Sent[mid] != 1 || from.Box.Rejected[mid] != 0 {
			return "accepted-not-reported-sent-once", fmt.Sprintf("%s: accepted message %s: SetSent(false) x%d, SetSent(true) x%d", name, mid, from.Box.Sent[mid], from.Box.Rejected[mid])
		}
		if from.Box.Deferred[mid] != 0 {
			return "accepted-reported-deferred", fmt.Sprintf("%s: accepted message %s was reported deferred", name, mid)
		}
	}
	for _, mid := range rej {
		if len(to.Box.Inbox[mid]) != 0 {
			return "rejected-was-transferred", fmt.Sprintf("%s: rejected message %s was delivered", name, mid)
		}
		if from.Box.Rejected[mid] != 1 || from.Box.Sent[mid] != 0 {
			return "rejected-not-reported-once", fmt.Sprintf("%s: rejected message %s: SetSent(true) x%d, SetSent(false) x%d", name, mid, from.Box.Rejected[mid], from.Box.Sent[mid])
		}
	}
	for _, mid := range def {
		if len(to.Box.Inbox[mid]) != 0 {
			return "deferred-was-transferred", fmt.Sprintf("%s: deferred message %s was delivered", name, mid)
		}
		if from.Box.Deferred[mid] != 1 {
			return "deferred-not-reported-once", fmt.Sprintf("%s: deferred message %s: SetDeferred x%d", name, mid, from.Box.Deferred[mid])
		}
		if from.Box.Sent[mid] != 0 || from.Box.Rejected[mid] != 0 {
			return "deferred-reported-sent", fmt.Sprintf("%s: deferred message %s was reported sent", name, mid)
		}
	}
	// nothing else
	for mid := range to.Box.Inbox {
		if !in(acc, mid) {
			return "unexpected-delivery", fmt.Sprintf("%s: handler received %s which was not an accepted proposal", name, mid)
		}
	}
	for mid := range from.Box.Sent {
		if !in(acc, mid) {
			return "unexpected-sent", fmt.Sprintf("%s: %s reported sent but not accepted", name, mid)
		}
	}
	for mid := range from.Box.Rejected {
		if !in(rej, mid) {
			return "unexpected-rejected", fmt.Sprintf("%s: %s reported rejected", name, mid)
		}
	}
	for mid := range from.Box.Deferred {
		if !in(def, mid) {
			return "unexpected-deferred", fmt.Sprintf("%s: %s reported deferred", name, mid)
		}
	}
	if !EqualSets(statsFrom.Sent, acc) {
		return "stats-sent", fmt.Sprintf("%s: TrafficStats.Sent %v, transferred %v", name, statsFrom.Sent, acc)
	}
	if !EqualSets(statsTo.Received, acc) {
		return "stats-received", fmt.Sprintf("%s: TrafficStats.Received %v, transferred %v", name, statsTo.Received, acc)
	}
	if fmt.Sprint(statsTo.Received) != fmt.Sprint(to.Box.InOrder) && len(acc) > 0 {
		return "stats-received-order", fmt.Sprintf("%s: TrafficStats.Received %v but messages arrived in order %v", name, statsTo.Received, to.Box.InOrder)
	}
	// GetOutbound was always called with the peer's announced forwarders (its callsign)
	want := fbb.AddressFromString(to.Side.Call).String()
	for _, e := range from.Box.Events {
		if e.Kind == "outbound" && (len(e.FW) != 1 || e.FW[0] != want) {
			return "getoutbound-forwarders", fmt.Sprintf("%s: GetOutbound called with %v, peer announced [%s]", name, e.FW, want)
		}
	}
	// deferred stay pending
	pend := from.Box.Pending()
	if !EqualSets(pend, def) {
		return "pending-after-session", fmt.Sprintf("%s: pending after the session %v, deferred %v", name, pend, def)
	}
	return "", ""
}

func firstDiff(a, b []byte) int {
	for i := 0; i < len(a) && i < len(b); i++ {
		if a[i] != b[i] {
			return i
		}
	}
	if len(a) < len(b) {
		return len(a)
	}
	return len(b)
}
