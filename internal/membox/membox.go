// Package membox is a recording in-memory fbb.MBoxHandler used as the mailbox of the session
// properties. GetOutbound returns queued − sent − deferred-this-session (the contract a Session
// relies on to terminate); inbound answers follow a per-MID policy, except that a MID that is
// already in the inbox is rejected ("already received"), like any real mailbox.
package membox

import (
	"errors"
	"sync"
	"sync/atomic"

	"github.com/la5nta/wl2k-go/fbb"
)

// Seq is the global event order shared by all boxes of a process.
var Seq int64

// Event is one handler callback.
type Event struct {
	Seq      int64    `json:"seq"`
	Kind     string   `json:"kind"` // prepare | outbound | sent | deferred | answer | inbound | inbound-error
	MID      string   `json:"mid,omitempty"`
	Rejected bool     `json:"rejected,omitempty"`
	Answer   string   `json:"answer,omitempty"`
	FW       []string `json:"fw,omitempty"`
	N        int      `json:"n,omitempty"`
}

type Out struct {
	MID   string
	Msg   *fbb.Message
	Bytes []byte // serialised at queue time
}

type Box struct {
	mu       sync.Mutex
	Name     string
	Queue    []*Out
	Sent     map[string]int  // MID -> number of SetSent(mid,false)
	Rejected map[string]int  // MID -> number of SetSent(mid,true)
	Deferred map[string]int  // MID -> number of SetDeferred (all sessions)
	deferNow map[string]bool // this session
	Policy   map[string]fbb.ProposalAnswer
	Inbox    map[string][][]byte // MID -> every delivered copy
	InOrder  []string
	Events   []Event
	// FailInboundAt makes the n-th ProcessInbound call (1-based, counted over the box's life) fail.
	FailInboundAt int
	nInbound      int
	PrepareErr    error
	Dedup         bool // reject proposals whose MID is already in the inbox
}

func New(name string) *Box {
	return &Box{Name: name, Sent: map[string]int{}, Rejected: map[string]int{}, Deferred: map[string]int{}, deferNow: map[string]bool{},
		Policy: map[string]fbb.ProposalAnswer{}, Inbox: map[string][][]byte{}, Dedup: true}
}

func (b *Box) ev(e Event) {
	e.Seq = atomic.AddInt64(&Seq, 1)
	b.Events = append(b.Events, e)
}

// Add queues an outbound message.
func (b *Box) Add(m *fbb.Message) error {
	data, err := m.Bytes()
	if err != nil {
		return err
	}
	b.mu.Lock()
	b.Queue = append(b.Queue, &Out{MID: m.MID(), Msg: m, Bytes: data})
	b.mu.Unlock()
	return nil
}

func (b *Box) Prepare() error {
	b.mu.Lock()
	defer b.mu.Unlock()
	b.deferNow = map[string]bool{}
	b.ev(Event{Kind: "prepare"})
	return b.PrepareErr
}

func (b *Box) GetOutbound(fw ...fbb.Address) []*fbb.Message {
	b.mu.Lock()
	defer b.mu.Unlock()
	var fws []string
	for _, a := range fw {
		fws = append(fws, a.String())
	}
	var out []*fbb.Message
	for _, o := range b.Queue {
		if b.Sent[o.MID] > 0 || b.Rejected[o.MID] > 0 || b.deferNow[o.MID] {
			continue
		}
		out = append(out, o.Msg)
	}
	b.ev(Event{Kind: "outbound", FW: fws, N: len(out)})
	return out
}

func (b *Box) SetSent(mid string, rejected bool) {
	b.mu.Lock()
	defer b.mu.Unlock()
	if rejected {
		b.Rejected[mid]++
	} else {
		b.Sent[mid]++
	}
	b.ev(Event{Kind: "sent", MID: mid, Rejected: rejected})
}

func (b *Box) SetDeferred(mid string) {
	b.mu.Lock()
	defer b.mu.Unlock()
	b.Deferred[mid]++
	b.deferNow[mid] = true
	b.ev(Event{Kind: "deferred", MID: mid})
}

var ErrStorage = errors.New("membox: injected storage error")

func (b *Box) ProcessInbound(msgs ...*fbb.Message) error {
	b.mu.Lock()
	defer b.mu.Unlock()
	for _, m := range msgs {
		b.nInbound++
		if b.FailInboundAt > 0 && b.nInbound == b.FailInboundAt {
			b.ev(Event{Kind: "inbound-error", MID: m.MID()})
			return ErrStorage
		}
		data, err := m.Bytes()
		if err != nil {
			b.ev(Event{Kind: "inbound-error", MID: m.MID()})
			return err
		}
		b.Inbox[m.MID()] = append(b.Inbox[m.MID()], data)
		b.InOrder = append(b.InOrder, m.MID())
		b.ev(Event{Kind: "inbound", MID: m.MID(), N: len(data)})
	}
	return nil
}

func (b *Box) answer(p fbb.Proposal) fbb.ProposalAnswer {
	a := fbb.ProposalAnswer(fbb.Accept)
	if v, ok := b.Policy[p.MID()]; ok {
		a = v
	}
	if b.Dedup && len(b.Inbox[p.MID()]) > 0 {
		a = fbb.Reject
	}
	b.ev(Event{Kind: "answer", MID: p.MID(), Answer: string(rune(a)), N: p.CompressedSize()})
	return a
}

func (b *Box) GetInboundAnswer(p fbb.Proposal) fbb.ProposalAnswer {
	b.mu.Lock()
	defer b.mu.Unlock()
	return b.answer(p)
}

// Pending returns the MIDs still to be delivered (not sent, not rejected).
func (b *Box) Pending() []string {
	b.mu.Lock()
	defer b.mu.Unlock()
	var out []string
	for _, o := range b.Queue {
		if b.Sent[o.MID] == 0 && b.Rejected[o.MID] == 0 {
			out = append(out, o.MID)
		}
	}
	return out
}

// Snapshot returns a copy of the event log.
func (b *Box) Snapshot() []Event {
	b.mu.Lock()
	defer b.mu.Unlock()
	return append([]Event(nil), b.Events...)
}

// Batched is a Box that also implements fbb.BatchedInboundHandler.
type Batched struct{ *Box }

func (b Batched) GetInboundAnswers(ps []fbb.Proposal) []fbb.ProposalAnswer {
	b.mu.Lock()
	defer b.mu.Unlock()
	out := make([]fbb.ProposalAnswer, len(ps))
	for i, p := range ps {
		out[i] = b.answer(p)
	}
	return out
}

// Handler returns the box as an fbb.MBoxHandler, batched or not.
func (b *Box) Handler(batched bool) fbb.MBoxHandler {
	if batched {
		return Batched{b}
	}
	return b
}
