#!/usr/bin/env python3
"""seedrun.py <dir with patch.diff, meta.json, demo files> [--tier quick] [--props C06,C07]
Confirms a seeded change (suite still passes, demo fails with / passes without) in scratch copies of
/repo under /tmp and runs ./check against the mutated copy via VERIF_REPO. Prints one summary line."""
import json, os, shutil, subprocess, sys, glob, time
d = os.path.abspath(sys.argv[1])
tier = "quick"
props = None
for i, a in enumerate(sys.argv):
    if a == "--tier": tier = sys.argv[i+1]
    if a == "--props": props = sys.argv[i+1].split(",")
meta = json.load(open(os.path.join(d, "meta.json")))
pid = meta.get("property") or meta.get("breaks")
props = props or [pid]
GO = "/root/go/pkg/mod/golang.org/toolchain@v0.0.1-go1.24.0.linux-amd64/bin/go"
env = dict(os.environ, GOFLAGS="-mod=mod", GOPROXY="off", GOSUMDB="off", GOTOOLCHAIN="local", GO=GO)
def sh(cmd, cwd, timeout=1200):
    r = subprocess.run(cmd, shell=True, cwd=cwd, env=env, stdout=subprocess.PIPE, stderr=subprocess.STDOUT, text=True, errors='replace', timeout=timeout)
    return r.returncode, r.stdout
tag = os.path.basename(d)
mut = "/tmp/mutrun-%s-%d" % (tag, os.getpid())
clean = mut + "-clean"
res = {"seed": tag}
try:
    for x in (mut, clean):
        subprocess.run(["rsync", "-a", "--exclude", ".git", "/repo/", x + "/"], check=True)
    rc, out = sh("patch -p1 --no-backup-if-mismatch < %s/patch.diff" % d, mut)
    if rc != 0:
        print("PATCH-FAILS", tag, out[-500:]); sys.exit(3)
    rc, out = sh("$GO build ./... && $GO test -vet=off -count=1 ./...", mut)
    res["suite_passes_with_patch"] = rc == 0
    if rc != 0: res["suite_out"] = out[-800:]
    # demo
    demos = [f for f in glob.glob(os.path.join(d, "*")) if os.path.basename(f) not in ("patch.diff", "meta.json")]
    demo_cmd = meta.get("demo_cmd", "")
    def run_demo(root):
        import re as _re
        cmd0 = demo_cmd.split("(env:")[0]
        toks = cmd0.replace("&&", " ").split()
        pkg = None
        for tok in toks:
            t = tok.rstrip("/")
            if t.startswith("./") and os.path.isdir(os.path.join(root, t)):
                pkg = t
        if pkg is None:
            for tok in toks:  # cp target such as fbb/ or fbb/zz_seed_demo_test.go
                t = tok.split("/zz_")[0].rstrip("/")
                if t and not t.startswith("/") and os.path.isdir(os.path.join(root, t)):
                    pkg = "./" + t
        if meta.get("demo_dir"):
            pkg = "./" + meta["demo_dir"].strip("./")
        if pkg is None:
            pkg = "."
        for f in demos:
            if os.path.isdir(f):
                shutil.copytree(f, os.path.join(root, pkg, os.path.basename(f)), dirs_exist_ok=True)
            else:
                shutil.copy(f, os.path.join(root, pkg))
        m = _re.search(r"-run[= ]+(\S+)", cmd0)
        pat = m.group(1).strip("'\"") if m else "Seed"
        race = "-race " if "-race" in cmd0 else ""
        if any(f.endswith("main.go") for f in demos) and "go run" in cmd0:
            return sh(cmd0.split("&&")[-1].replace("go run", "$GO run") if "$GO" not in cmd0 else cmd0.split("&&")[-1], root)
        return sh("$GO test -vet=off -count=1 %s-run '%s' %s" % (race, pat, pkg), root)
    rc1, out1 = run_demo(mut)
    rc2, out2 = run_demo(clean)
    res["demo_fails_with_patch"] = rc1 != 0
    res["demo_passes_without"] = rc2 == 0
    if rc1 == 0: res["demo_out_mut"] = out1[-600:]
    if rc2 != 0: res["demo_out_clean"] = out2[-600:]
    # remove demo files from the mutated copy before running the checks
    sh("find . -name 'zz_seed*' -delete", mut)
    for p in props:
        t0 = time.time()
        r = subprocess.run("VERIF_REPO=%s ./check %s --tier %s" % (mut, p, tier), shell=True, cwd="/verif", stdout=subprocess.PIPE, stderr=subprocess.STDOUT, text=True)
        viol = [l for l in r.stdout.split("\n") if l.startswith("VIOLATION")]
        res["check_%s" % p] = {"rc": r.returncode, "wall": round(time.time() - t0, 1), "violations": [v.split("sig=")[-1] for v in viol]}
        if r.returncode not in (0, 1): res["check_%s" % p]["out"] = r.stdout[-1500:]
finally:
    shutil.rmtree(mut, ignore_errors=True); shutil.rmtree(clean, ignore_errors=True)
    subprocess.run("rm -rf /tmp/N0DE*", shell=True)
print(json.dumps(res))
if "--keep" in sys.argv:
    dst = os.path.join("/verif/seeded", tag)
    os.makedirs(dst, exist_ok=True)
    for f in glob.glob(os.path.join(d, "*")):
        if os.path.basename(f) != "meta.json" and os.path.isfile(f):
            shutil.copy(f, dst)
    meta2 = {"breaks": pid, "summary": meta.get("summary"), "needs_to_manifest": meta.get("needs"), "demo_cmd": meta.get("demo_cmd"),
             "files_touched": meta.get("files_touched"),
             "confirmed": {k: res.get(k) for k in ("suite_passes_with_patch", "demo_fails_with_patch", "demo_passes_without")},
             "ran": ["scratch copy of /repo + patch: go build ./... && go test ./... (existing suite)", "demo with and without the patch",
                     "VERIF_REPO=<mutated copy> ./check <ID> --tier %s for: %s" % (tier, ",".join(props))],
             "check_results": {k: v for k, v in res.items() if k.startswith("check_")}}
    old = {}
    mp = os.path.join(dst, "meta.json")
    if os.path.exists(mp):
        old = json.load(open(mp))
        cr = old.get("check_results", {}); cr.update(meta2["check_results"]); meta2["check_results"] = cr
    json.dump(meta2, open(mp, "w"), indent=1)
