module verif

go 1.24.0

require (
	github.com/la5nta/wl2k-go v0.0.0
	pgregory.net/rapid v1.3.0
)

replace github.com/la5nta/wl2k-go => /repo
