#!/usr/bin/env python3
"""Regenerates the seeded-change table (DESIGN.md section 8, between the SEEDTABLE markers) from seeded/*/meta.json."""
import json, glob, os, re
ROOT = os.path.dirname(os.path.abspath(__file__))
rows = []
for d in sorted(glob.glob(os.path.join(ROOT, "seeded", "C*"))):
    mp = os.path.join(d, "meta.json")
    if not os.path.exists(mp):
        continue
    m = json.load(open(mp))
    sid = os.path.basename(d)
    summ = (m.get("summary") or "").replace("|", "/").replace("\n", " ")
    needs = (m.get("needs_to_manifest") or "").replace("|", "/").replace("\n", " ")
    def clip(s, n):
        return s if len(s) <= n else s[: n - 1].rsplit(" ", 1)[0] + " …"
    res = []
    for k, v in sorted(m.get("check_results", {}).items()):
        p = k.replace("check_", "")
        if v.get("rc") == 1:
            res.append("**%s** exit 1: %s" % (p, ", ".join("`%s`" % x for x in v.get("violations", [])[:3])))
        else:
            res.append("%s exit %s (not caught)" % (p, v.get("rc")))
    hist = m.get("history")
    rows.append("| %s | %s | %s | %s%s |" % (sid, clip(summ, 260), clip(needs, 220), "; ".join(res), (" — " + hist) if hist else ""))
table = "| id | change (sub-agent's summary, abridged) | needs in order to manifest | quick check against the change |\n|---|---|---|---|\n" + "\n".join(rows)
p = os.path.join(ROOT, "DESIGN.md")
s = open(p).read()
s2 = re.sub(r"(<!-- SEEDTABLE:BEGIN -->).*?(<!-- SEEDTABLE:END -->)", lambda mo: mo.group(1) + "\n" + table + "\n" + mo.group(2), s, flags=re.S)
open(p, "w").write(s2)
print("rows:", len(rows), "changed:", s != s2)
