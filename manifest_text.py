import json, os, sys
sys.path.insert(0, os.path.dirname(os.path.abspath(__file__)))
from props_config import PROPS, WIP
HOOK_COMMITS = []
ALL = ["C%02d" % i for i in range(1, 21)]
TEXT = {p: c["manifest"] for p, c in PROPS.items() if p not in WIP}
_na = {}
_f = os.path.join(os.path.dirname(os.path.abspath(__file__)), "not_applicable.json")
if os.path.exists(_f):
    _na = json.load(open(_f))
NOT_APPLICABLE = [{"property_id": p, "reason": _na.get(p, "check not built yet in this revision (work in progress; every property is planned, see DESIGN.md)")} for p in ALL if p not in TEXT]
