HOOK_COMMITS = []
ALL = ["C%02d" % i for i in range(1, 21)]
TEXT = {
 "C06": dict(design_ref="DESIGN.md §3 C06",
   text="Generated-input search: thousands of byte strings per run from ten LZHUF-relevant families (incl. window/look-ahead boundary shapes and >32 KiB inputs that reach the adaptive-tree rebuild) are compressed under generated Write partitions and decompressed under generated Read schedules; round trip, Close()==nil and chunking-independence of the compressed bytes are asserted. All strings over {a,b} up to length 12/14 and over {0,1,2} up to 8/9 are enumerated exhaustively. Evidence of absence only within what was generated.",
   note="Trusts the Go runtime and rapid; the reference codec is used for a label only. Inputs above 256 KiB (quick) / 1 MiB (thorough) are not generated."),
 "C07": dict(design_ref="DESIGN.md §3 C07, appendix A",
   text="Differential testing against an independently written canonical LZHUF codec (validated byte-for-byte on the five golden files): library output must be decoded to the input by the strict reference decoder and carry the LE CRC-16/XMODEM + LE size header; canonical and random-parse reference streams (every legal match length/distance incl. overlapping copies and the space-filled initial window) must be decoded by the library with Close()==nil.",
   note="Trusted base: internal/ref/lzhuf (self-tested against golden files without involving the library). Random-parse inputs are small (brute-force parse search)."),
 "C08": dict(design_ref="DESIGN.md §3 C08",
   text="Hostile-stream search: random bytes and structured mutations (truncation, bit flips, size/CRC header edits with and without re-computed CRC, splices, trailing garbage) of valid streams from three encoders, read with generated buffer schedules. Oracle: no panic, the read loop ends (clock-free non-termination detector), bytes yielded <= declared size, and Close()==nil only if CRC, size and the strict reference decoding all agree. Thorough adds a native coverage-guided fuzz campaign.",
   note="Trusted base: internal/ref/lzhuf strict decoder as definition of 'canonical decoding'. CRC is accepted over any prefix of the data that covers the consumed bits (trailing bytes are not part of the container)."),
}
NOT_APPLICABLE = [{"property_id": p, "reason": "check not built yet in this revision (work in progress; every property is planned, see DESIGN.md)"} for p in ALL if p not in TEXT]
