#!/bin/sh
# setup_cmd: offline build of the framework from files on disk; warms the Go build cache and runs
# the reference implementations' self tests (they do not involve the code under test).
set -e
cd "$(dirname "$0")"
GO=/root/go/pkg/mod/golang.org/toolchain@v0.0.1-go1.24.0.linux-amd64/bin/go
[ -x "$GO" ] || GO=go1.26.8
export GOFLAGS=-mod=mod GOPROXY=off GOSUMDB=off GOTOOLCHAIN=local
$GO version
$GO build ./internal/... ./cmd/...
$GO test -count=1 ./internal/ref/... ./internal/fstrace/...
# compile every registered property package once (warms the build cache; -race where the plan asks for it)
for d in props/c*/; do
  [ -f "$d/plan.json" ] || continue
  if grep -q '"race": true' "$d/plan.json"; then
    $GO test -count=1 -vet=off -race -tags verif -run '^$' "./$d" >/dev/null || echo "warning: $d does not build with -race"
  else
    $GO test -count=1 -vet=off -tags verif -run '^$' "./$d" >/dev/null || echo "warning: $d does not build"
  fi
done
echo setup ok
