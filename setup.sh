#!/bin/sh
# setup_cmd: offline build of the framework from files on disk; warms the Go build cache and runs
# the reference implementations' self tests (they do not involve the code under test).
set -e
cd "$(dirname "$0")"
GO=/root/go/pkg/mod/golang.org/toolchain@v0.0.1-go1.24.0.linux-amd64/bin/go
[ -x "$GO" ] || GO=go1.26.8
export GOFLAGS=-mod=mod GOPROXY=off GOSUMDB=off GOTOOLCHAIN=local
$GO version
$GO build ./...
$GO test -count=1 ./internal/...
$GO test -count=1 -vet=off -run '^$' ./props/... >/dev/null
# race-enabled standard library for the -race checks
$GO test -count=1 -vet=off -race -run '^$' ./internal/harness/ >/dev/null 2>&1 || true
echo setup ok
