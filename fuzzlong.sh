#!/bin/sh
# fuzzlong.sh <pkg> <target> <seconds>: a long native fuzz campaign on one target (scratch; results under the package's testdata/fuzz)
GO=/root/go/pkg/mod/golang.org/toolchain@v0.0.1-go1.24.0.linux-amd64/bin/go
export GOFLAGS=-mod=mod GOPROXY=off GOSUMDB=off GOTOOLCHAIN=local VERIF_FUZZING=1
cd "$(dirname "$0")"
$GO test -vet=off -tags verif -run='^$' -fuzz="$2" -fuzztime="${3}s" "$1" 2>&1 | tail -40
ls -la "$1/testdata/fuzz/$2" 2>/dev/null
