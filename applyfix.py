#!/usr/bin/env python3
"""applyfix.py <NN-slug.diff>: applies a reviewed fix patch (commit message text on top, unified diff below) to /repo,
runs the repository's own test suite and commits it as one 'fix:' commit."""
import subprocess, sys, os, re
f = sys.argv[1]
txt = open(f).read()
i = txt.index("\n--- ")
msg, diff = txt[:i].strip(), txt[i+1:]
assert msg.startswith("fix:"), msg[:50]
GO = "/root/go/pkg/mod/golang.org/toolchain@v0.0.1-go1.24.0.linux-amd64/bin/go"
env = dict(os.environ, GOFLAGS="-mod=mod", GOPROXY="off", GOSUMDB="off", GOTOOLCHAIN="local")
r = subprocess.run(["patch", "-p1", "--no-backup-if-mismatch"], input=diff, text=True, cwd="/repo", stdout=subprocess.PIPE, stderr=subprocess.STDOUT)
print(r.stdout)
if r.returncode != 0:
    subprocess.run(["git", "checkout", "--", "."], cwd="/repo"); sys.exit("patch failed")
r = subprocess.run([GO, "test", "-vet=off", "-count=1", "./..."], cwd="/repo", env=env, stdout=subprocess.PIPE, stderr=subprocess.STDOUT, text=True)
print(r.stdout[-1500:])
subprocess.run("rm -rf /tmp/N0DE*", shell=True)
if r.returncode != 0:
    subprocess.run(["git", "checkout", "--", "."], cwd="/repo"); sys.exit("tests failed; reverted")
subprocess.run(["git", "add", "-A"], cwd="/repo", check=True)
subprocess.run(["git", "commit", "-q", "-m", msg], cwd="/repo", check=True)
print(subprocess.run(["git", "log", "--oneline", "-1"], cwd="/repo", stdout=subprocess.PIPE, text=True).stdout)
