// mboxop performs ONE operation of mailbox.DirHandler on a mailbox directory and prints the
// outcome as JSON. It is a separate program because DirHandler.SetSent ends the process with
// log.Fatalf when the rename fails (C12 must survive that) and because C11 traces the system
// calls of exactly one operation.
//
//	mboxop <spec.json>
//
// spec: {"chroot": dir (optional), "mbox": path, "send_only": bool, "prepare": bool,
// "op": "process_inbound"|"add_out"|"set_sent"|"set_deferred"|"set_unread"|"get_inbound_answer"|"none",
// "msg": base64 message bytes, "mid": string, "folder": "in"|"out"|"sent"|"archive",
// "unread": bool, "rejected": bool}
//
// Exit status 0 when the operation returned (with or without error), 3 for a bad spec; anything
// else is the library ending the process.
package main

import (
	"bytes"
	"encoding/json"
	"fmt"
	"os"
	"path/filepath"
	"syscall"

	"github.com/la5nta/wl2k-go/fbb"
	"github.com/la5nta/wl2k-go/mailbox"
)

type Spec struct {
	Chroot   string `json:"chroot,omitempty"`
	Mbox     string `json:"mbox"`
	SendOnly bool   `json:"send_only,omitempty"`
	Prepare  bool   `json:"prepare,omitempty"`
	Op       string `json:"op"`
	Msg      []byte `json:"msg,omitempty"`
	MID      string `json:"mid,omitempty"`
	Folder   string `json:"folder,omitempty"`
	Unread   bool   `json:"unread,omitempty"`
	Rejected bool   `json:"rejected,omitempty"`
	Ext      string `json:"ext,omitempty"` // set_unread: spelling of the stored file's extension (default ".b2f")
	// FirstMbox: the handler is created and prepared for this mailbox first and then pointed at Mbox through its
	// exported MBoxPath field (one long-lived handler serving several call signs)
	FirstMbox string `json:"first_mbox,omitempty"`
	// Msg2 (process_inbound): a second message handed over in the same ProcessInbound call, after Msg
	Msg2 []byte `json:"msg2,omitempty"`
}

type Result struct {
	Returned   bool   `json:"returned"`              // the operation came back
	ParseErr   string `json:"parse_err,omitempty"`   // the message bytes are not a message (nothing was attempted)
	PrepareErr string `json:"prepare_err,omitempty"` // Prepare failed
	Err        string `json:"err,omitempty"`         // error returned by the operation
	Answer     string `json:"answer,omitempty"`      // get_inbound_answer: "+", "-" or "="
	Panic      string `json:"panic,omitempty"`
}

func emit(r Result, code int) {
	b, _ := json.Marshal(r)
	fmt.Println(string(b))
	os.Exit(code)
}

func main() {
	if len(os.Args) != 2 {
		fmt.Fprintln(os.Stderr, "usage: mboxop spec.json")
		os.Exit(3)
	}
	raw, err := os.ReadFile(os.Args[1])
	if err != nil {
		fmt.Fprintln(os.Stderr, err)
		os.Exit(3)
	}
	var s Spec
	if err := json.Unmarshal(raw, &s); err != nil {
		fmt.Fprintln(os.Stderr, err)
		os.Exit(3)
	}
	if s.Chroot != "" {
		if err := syscall.Chroot(s.Chroot); err != nil {
			fmt.Fprintln(os.Stderr, "chroot:", err)
			os.Exit(3)
		}
		if err := os.Chdir("/"); err != nil {
			fmt.Fprintln(os.Stderr, "chdir:", err)
			os.Exit(3)
		}
	}
	var res Result
	defer func() {
		if r := recover(); r != nil {
			res.Panic = fmt.Sprint(r)
			emit(res, 4)
		}
	}()

	h := mailbox.NewDirHandler(s.Mbox, s.SendOnly)
	if s.FirstMbox != "" {
		h = mailbox.NewDirHandler(s.FirstMbox, s.SendOnly)
		h.Prepare()
		h.MBoxPath = s.Mbox
	}
	if s.Prepare {
		if err := h.Prepare(); err != nil {
			res.PrepareErr = err.Error()
			emit(res, 0)
		}
	}
	parse := func() *fbb.Message {
		m := new(fbb.Message)
		if err := m.ReadFrom(bytes.NewReader(s.Msg)); err != nil {
			res.ParseErr = err.Error()
			emit(res, 0)
		}
		return m
	}
	switch s.Op {
	case "none":
	case "process_inbound":
		m := parse()
		batch := []*fbb.Message{m}
		if len(s.Msg2) > 0 {
			m2 := new(fbb.Message)
			if err := m2.ReadFrom(bytes.NewReader(s.Msg2)); err == nil {
				batch = append(batch, m2)
			}
		}
		if err := h.ProcessInbound(batch...); err != nil {
			res.Err = err.Error()
		}
	case "add_out":
		m := parse()
		if err := h.AddOut(m); err != nil {
			res.Err = err.Error()
		}
	case "set_sent":
		h.SetSent(s.MID, s.Rejected)
	case "set_deferred":
		h.SetDeferred(s.MID)
	case "get_inbound_answer":
		p := fbb.NewProposal(s.MID, "title", fbb.Wl2kProposal, []byte("x"))
		res.Answer = string([]byte{byte(h.GetInboundAnswer(*p))})
	case "set_unread":
		ext := mailbox.Ext
		if s.Ext != "" {
			ext = s.Ext
		}
		m, err := mailbox.OpenMessage(filepath.Join(s.Mbox, s.Folder, s.MID+ext))
		if err != nil {
			res.Err = err.Error()
			break
		}
		if err := mailbox.SetUnread(m, s.Unread); err != nil {
			res.Err = err.Error()
		}
	default:
		fmt.Fprintln(os.Stderr, "unknown op", s.Op)
		os.Exit(3)
	}
	res.Returned = true
	emit(res, 0)
}
