// mkreplay prints hand-constructed replay cases (used once when a finding is recorded).
package main

import (
	"encoding/json"
	"fmt"
	"os"

	ref "verif/internal/ref/lzhuf"
)

func main() {
	switch os.Args[1] {
	case "c08-initwindow":
		z, _ := ref.EncodeParse([]byte("   "), true, 1423, func(pos int, c []ref.Match) int {
			for i, m := range c {
				if m.Dist == 1423 && m.Len == 3 {
					return i
				}
			}
			return -1
		})
		out, _ := json.MarshalIndent(map[string]any{"property": "C08", "sig": "close-ok-but-not-canonical", "msg": "copy from distance 1423 in the initial window",
			"case": map[string]any{"stream": z, "b2": true, "reads": []int{16}, "origin": "parse"}}, "", " ")
		fmt.Println(string(out))
	}
}
