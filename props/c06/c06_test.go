// C06 — LZHUF compression is lossless for every input and every chunking.
package c06

import (
	"time"
	"errors"
	"bytes"
	"fmt"
	"io"
	"testing"

	"github.com/la5nta/wl2k-go/lzhuf"
	"pgregory.net/rapid"

	"verif/internal/gen"
	"verif/internal/harness"
	ref "verif/internal/ref/lzhuf"
)

func TestMain(m *testing.M) {
	harness.Property("C06",
		"generated: byte strings from 10 families (raw, small alphabet, uniform, low entropy, periodic around 1..70/1980..2060, runs, 56..63-byte matches at boundary distances, golden text splices, >33 KiB literals forcing the 0x8000 rebuild, mixtures) x write partition x read-buffer schedule x {B2,plain}; exhaustive: every string over {a,b} up to length L2 and over {0,1,2} up to L3, each one-shot, all-1-byte and one split position per index. Non-trivial = non-empty input compressed with >1 Write call or decompressed with >1 Read call; distinct by hash(input, writes, reads, b2).",
		"the reference codec is used only to report whether the 0x8000 rebuild was reached (label), not as the oracle",
	)
	harness.Main(m)
}

type Case struct {
	Input  []byte `json:"input"`
	Writes []int  `json:"writes"`
	Reads  []int  `json:"reads"`
	B2     bool   `json:"b2"`
	Family string `json:"family"`
	// Src: sizes of the pieces in which the compressed stream reaches the Reader (nil: all at once)
	Src []int `json:"src,omitempty"`
	// Prelude > 0: before the case, another compressor in the same process is fed Prelude incompressible bytes
	// and its sink fails after PreludeFail bytes (a connection that drops while a message is being compressed
	// for it); that Writer's Close reports the error. The case itself must be unaffected.
	Prelude     int `json:"prelude,omitempty"`
	PreludeFail int `json:"prelude_fail,omitempty"`
}

type failingSink struct{ left int }

func (f *failingSink) Write(p []byte) (int, error) {
	if len(p) > f.left {
		n := f.left
		f.left = 0
		return n, errors.New("sink failed (injected)")
	}
	f.left -= len(p)
	return len(p), nil
}

func (c Case) sample() any {
	in := c.Input
	if len(in) > 48 {
		in = in[:48]
	}
	return map[string]any{"family": c.Family, "len": len(c.Input), "input_head": fmt.Sprintf("%q", in), "writes": c.Writes, "reads": c.Reads, "b2": c.B2}
}

func compress(in []byte, writes []int, b2 bool) (out []byte, nWrites int, err error) {
	var buf bytes.Buffer
	w := lzhuf.NewWriter(&buf, b2)
	rest := in
	for i := 0; len(rest) > 0 || (i == 0 && len(writes) > 0 && writes[0] == 0); i++ {
		n := writes[i%len(writes)]
		if n > len(rest) {
			n = len(rest)
		}
		m, err := w.Write(rest[:n])
		nWrites++
		if err != nil {
			return nil, nWrites, fmt.Errorf("Write: %v", err)
		}
		if m != n {
			return nil, nWrites, fmt.Errorf("Write returned %d for %d bytes", m, n)
		}
		rest = rest[n:]
		if n == 0 && len(rest) > 0 {
			// zero-length writes are legal; guard against an all-zero schedule
			allZero := true
			for _, x := range writes {
				if x != 0 {
					allZero = false
				}
			}
			if allZero {
				m, err := w.Write(rest)
				nWrites++
				if err != nil || m != len(rest) {
					return nil, nWrites, fmt.Errorf("Write: %d %v", m, err)
				}
				rest = nil
			}
		}
	}
	if err := w.Close(); err != nil {
		return nil, nWrites, fmt.Errorf("Writer.Close: %v", err)
	}
	return buf.Bytes(), nWrites, nil
}

func decompress(z []byte, reads []int, b2 bool, limit int, src []int) (out []byte, nReads int, err error) {
	r, err := lzhuf.NewReader(source(z, src), b2)
	if err != nil {
		return nil, 0, fmt.Errorf("NewReader: %v", err)
	}
	stuck := 0
	for i := 0; ; i++ {
		n := reads[i%len(reads)]
		buf := make([]byte, n)
		m, err := r.Read(buf)
		nReads++
		if m < 0 || m > n {
			return out, nReads, fmt.Errorf("Read returned n=%d for a %d byte buffer", m, n)
		}
		out = append(out, buf[:m]...)
		if err == io.EOF {
			break
		}
		if err != nil {
			return out, nReads, fmt.Errorf("Read: %v", err)
		}
		if len(out) > limit {
			return out, nReads, fmt.Errorf("Read yielded more than the %d input bytes", limit)
		}
		if m == 0 {
			stuck++
			if stuck > 2000 {
				return out, nReads, fmt.Errorf("Read does not terminate: 2000 consecutive empty reads")
			}
		} else {
			stuck = 0
		}
	}
	if err := r.Close(); err != nil {
		return out, nReads, fmt.Errorf("Reader.Close: %v", err)
	}
	return out, nReads, nil
}

// run executes one case and returns ("", "") or (signature, message).
func run(c Case) (sig, msg string, nW, nR int) {
	if len(c.Writes) == 0 {
		c.Writes = []int{1 << 30}
	}
	if len(c.Reads) == 0 {
		c.Reads = []int{1 << 16}
	}
	var psig, pmsg string
	hung, kind := harness.Watch(90*time.Second, func() { psig, pmsg = harness.Catch(func() { runCodec(c, &sig, &msg, &nW, &nR) }) })
	if hung {
		harness.Record("hang:codec-"+kind, c, fmt.Sprintf("compressing/decompressing a %d byte input did not return within 90 s (%s)", len(c.Input), kind))
		harness.ExitHung()
	}
	if psig != "" {
		return psig, pmsg, nW, nR
	}
	return
}

func runCodec(c Case, sigp, msgp *string, nWp, nRp *int) {
	var sig, msg string
	var nW, nR int
	var oneShot, chunked, back []byte
	defer func() { *sigp, *msgp, *nWp, *nRp = sig, msg, nW, nR }()
	func() {
		var err error
		if c.Prelude > 0 {
			w := lzhuf.NewWriter(&failingSink{left: c.PreludeFail}, c.B2)
			sm := gen.NewSM(uint64(c.Prelude)*7919 + uint64(c.PreludeFail))
			junk := make([]byte, c.Prelude)
			for i := range junk {
				junk[i] = byte(sm.Next())
			}
			w.Write(junk)
			w.Close() // fails; nothing of it may leak into later compressors
		}
		oneShot, _, err = compress(c.Input, []int{1 << 30}, c.B2)
		if err != nil {
			sig, msg = "compress-error", err.Error()
			return
		}
		chunked, nW, err = compress(c.Input, c.Writes, c.B2)
		if err != nil {
			sig, msg = "compress-error", err.Error()
			return
		}
		if !bytes.Equal(oneShot, chunked) {
			sig, msg = "chunking-dependent-output", fmt.Sprintf("compressed bytes differ between one Write and the partition %v (%d vs %d bytes)", c.Writes, len(oneShot), len(chunked))
			return
		}
		back, nR, err = decompress(chunked, c.Reads, c.B2, len(c.Input), c.Src)
		if err != nil {
			sig, msg = "decompress-error", err.Error()
			return
		}
		if !bytes.Equal(back, c.Input) {
			sig, msg = "roundtrip-mismatch", fmt.Sprintf("decompressed %d bytes != input %d bytes (first difference at %d)", len(back), len(c.Input), firstDiff(back, c.Input))
		}
	}()
}

// source: without a delivery schedule the stream comes from a bytes.Reader (what fbb hands to the decoder: it
// has Len(), ReadByte, WriteTo), otherwise from the piecewise Source.
func source(z []byte, src []int) io.Reader {
	if len(src) == 0 {
		return bytes.NewReader(z)
	}
	return gen.SourceFor(z, src)
}

func firstDiff(a, b []byte) int {
	for i := 0; i < len(a) && i < len(b); i++ {
		if a[i] != b[i] {
			return i
		}
	}
	if len(a) < len(b) {
		return len(a)
	}
	return len(b)
}

func account(c Case, nW, nR int) {
	harness.Eval()
	harness.Label("family:" + c.Family)
	if c.Prelude > 0 {
		harness.Label("history:earlier-compressor-whose-sink-failed")
	}
	if len(c.Src) > 0 {
		harness.Label("source:delivered-in-pieces")
	}
	if len(c.Input) > 0 && (nW > 1 || nR > 1) {
		harness.NonTrivial(harness.Hash(c.Input, c.Writes, c.Reads, c.B2))
		harness.Label("nontrivial")
	}
	switch n := len(c.Input); {
	case n == 0:
		harness.Label("size:0")
	case n <= 60:
		harness.Label("size:1-60")
	case n <= 2048:
		harness.Label("size:61-2048")
	case n <= 32768:
		harness.Label("size:2049-32768")
	default:
		harness.Label("size:>32768")
	}
	if c.B2 {
		harness.Label("b2")
	} else {
		harness.Label("plain")
	}
	if len(c.Reads) == 1 && c.Reads[0] == 1 {
		harness.Label("reads:all-1-byte")
	}
	if len(c.Writes) == 1 && c.Writes[0] == 1 {
		harness.Label("writes:all-1-byte")
	}
	if len(c.Input) > 30000 {
		if _, st := ref.Encode(c.Input, false); st.Rebuilds > 0 {
			harness.Label("rebuild-reached")
		}
	}
	if harness.WantSample() && len(c.Input) > 0 && nW > 1 {
		harness.Sample(c.sample())
	}
}

func TestProp(t *testing.T) {
	max := harness.Scale(256<<10, 1<<20)
	rapid.Check(t, func(t *rapid.T) {
		in, fam := gen.Bytes(t, max)
		c := Case{Input: in, Family: fam, Writes: gen.Schedule(t, "writes"), Reads: gen.Schedule(t, "reads"), B2: rapid.Bool().Draw(t, "b2"), Src: gen.SourceScheduleEOF(t, "src")}
		if rapid.IntRange(0, 9).Draw(t, "prelude") == 0 {
			c.Prelude = rapid.SampledFrom([]int{100, 4000, 6000, 20000}).Draw(t, "prelude_n")
			c.PreludeFail = rapid.SampledFrom([]int{0, 1, 100, 4096, 5000}).Draw(t, "prelude_fail")
		}
		sig, msg, nW, nR := run(c)
		account(c, nW, nR)
		if sig != "" {
			harness.Fail(t, sig, c, "%s", msg)
		}
	})
}

// TestExhaustive enumerates every string over {a,b} up to length L2 and over {0,1,2} up to L3.
func TestExhaustive(t *testing.T) {
	l2 := harness.Scale(12, 14)
	l3 := harness.Scale(8, 9)
	idx := 0
	check := func(in []byte) {
		idx++
		if !harness.Mine(idx) {
			return
		}
		n := len(in)
		variants := []Case{
			{Input: in, Writes: []int{1 << 30}, Reads: []int{1 << 16}, B2: true, Family: "exhaustive"},
			{Input: in, Writes: []int{1}, Reads: []int{1}, B2: idx%2 == 0, Family: "exhaustive", Src: []int{1}},
		}
		if n >= 2 {
			k := 1 + idx%(n-1)
			variants = append(variants, Case{Input: in, Writes: []int{k, 1 << 30}, Reads: []int{n - k, 0, 1}, B2: idx%3 == 0, Family: "exhaustive"})
		}
		for _, c := range variants {
			sig, msg, nW, nR := run(c)
			harness.Eval()
			if n > 0 && (nW > 1 || nR > 1) {
				harness.NonTrivial(harness.Hash(c.Input, c.Writes, c.Reads, c.B2))
			}
			if sig != "" {
				cc := c
				cc.Input = append([]byte(nil), in...)
				harness.Fail(t, sig, cc, "%s", msg)
			}
		}
	}
	var rec func(prefix []byte, alpha []byte, max int)
	rec = func(prefix []byte, alpha []byte, max int) {
		check(prefix)
		if len(prefix) == max {
			return
		}
		for _, a := range alpha {
			rec(append(prefix, a), alpha, max)
		}
	}
	rec(make([]byte, 0, 16), []byte("ab"), l2)
	rec(make([]byte, 0, 16), []byte{0, 1, 2}, l3)
	if i, _ := harness.Shard(); i == 0 {
		harness.LabelN("exhaustive-strings", idx)
	}
	harness.ExhaustiveSpace(fmt.Sprintf("all strings over {a,b} of length 0..%d and over {0,1,2} of length 0..%d (partitioned over the workers)", l2, l3))
}

func TestReplay(t *testing.T) {
	for _, f := range harness.ReplayFiles() {
		var c Case
		if _, err := harness.ReplayCase(f, &c); err != nil {
			t.Fatalf("%s: %v", f, err)
		}
		sig, msg, _, _ := run(c)
		harness.Eval()
		if sig != "" {
			harness.Fail(t, sig, c, "replay %s: %s", f, msg)
		}
	}
}
