// C08 — the decompressor is safe on arbitrary input and its integrity verdict is sound.
package c08

import (
	"bytes"
	"encoding/binary"
	"errors"
	"fmt"
	"io"
	"math"
	"testing"
	"time"

	"github.com/la5nta/wl2k-go/lzhuf"
	"pgregory.net/rapid"

	"verif/internal/gen"
	"verif/internal/harness"
	ref "verif/internal/ref/lzhuf"
)

func TestMain(m *testing.M) {
	harness.Property("C08",
		"streams: random bytes (0..4 KiB); valid streams from the library writer, the canonical reference encoder and the random-parse reference encoder, mutated by truncation at any length, 1..3 bit flips, header edits (size in {-2^31,-1,0,n-61..n+61,2^31-1}, CRC edits incl. the sum of the data followed by 2 or 4 zero bytes; B2 CRC re-computed or left stale), splices of two streams and trailing garbage; read with generated buffer schedules; B2 and plain. Non-trivial = the constructor accepted the stream (so the read loop ran); distinct by hash(stream, b2, reads).",
		"non-termination is detected without a clock: 200 consecutive Read results (0,nil) on a non-empty buffer",
		"'canonical decoding' = output of the strict reference decoder (internal/ref/lzhuf.Decode), validated on the golden files",
	)
	harness.Main(m)
}

type Case struct {
	Stream []byte `json:"stream"`
	B2     bool   `json:"b2"`
	Reads  []int  `json:"reads"`
	Origin string `json:"origin"`
	// Src: sizes of the pieces in which the stream reaches the Reader (nil: all at once). Fault k > 0: the
	// source read that would start at offset k-1 fails once with a transient error (read deadline) and the
	// data continues afterwards; the verdict clause is unchanged (Close == nil only on the canonical decoding).
	Src   []int `json:"src,omitempty"`
	Fault int   `json:"fault,omitempty"`
}

type outcome struct {
	faulted  bool // the injected transient source error was delivered
	accepted bool
	closeOK  bool
	readErr  error
	n        int
}

func run(c Case) (sig, msg string, o outcome) {
	if len(c.Reads) == 0 {
		c.Reads = []int{512}
	}
	var psig, pmsg string
	hung, kind := harness.Watch(60*time.Second, func() { psig, pmsg = harness.Catch(func() { runReader(c, &sig, &msg, &o) }) })
	if hung {
		harness.Record("hang:read-"+kind, c, fmt.Sprintf("constructing, reading and closing a Reader on a %d byte stream did not return within 60 s (%s): a call does not terminate", len(c.Stream), kind))
		harness.ExitHung()
	}
	if psig != "" {
		return psig, pmsg, o
	}
	return
}

func runReader(c Case, sigp, msgp *string, op *outcome) {
	var sig, msg string
	var o outcome
	defer func() { *sigp, *msgp, *op = sig, msg, o }()
	{
		var in io.Reader = bytes.NewReader(c.Stream) // no pieces, no fault: the kind of source fbb uses (it has Len())
		if len(c.Src) > 0 || c.Fault > 0 {
			src := gen.SourceFor(c.Stream, c.Src)
			if c.Fault > 0 {
				src.FaultAt = c.Fault - 1
			}
			defer func() { o.faulted = src.Faulted() }()
			in = src
		}
		r, err := lzhuf.NewReader(in, c.B2)
		if err != nil {
			if r != nil {
				// constructor returns (reader, err) for a short size field; nothing to read
			}
			return
		}
		o.accepted = true
		hdr := c.Stream
		if c.B2 {
			hdr = hdr[2:]
		}
		declared := int64(int32(binary.LittleEndian.Uint32(hdr)))
		bound := declared
		if bound < 0 {
			bound = 0
		}
		var out []byte
		stuck := 0
		for i := 0; ; i++ {
			buf := make([]byte, c.Reads[i%len(c.Reads)])
			n, err := r.Read(buf)
			if n < 0 || n > len(buf) {
				sig, msg = "read-count", fmt.Sprintf("Read returned n=%d for a %d byte buffer", n, len(buf))
				return
			}
			out = append(out, buf[:n]...)
			if int64(len(out)) > bound {
				sig, msg = "yields-more-than-declared", fmt.Sprintf("Read yielded %d bytes, header declares %d", len(out), declared)
				return
			}
			if err == io.EOF {
				break
			}
			if err != nil {
				o.readErr = err
				break
			}
			if n == 0 && len(buf) > 0 {
				if stuck++; stuck >= 200 {
					sig, msg = "read-never-ends", fmt.Sprintf("200 consecutive Read calls returned (0, nil) after %d bytes (declared size %d): reading to the end does not terminate", len(out), declared)
					return
				}
			} else if n > 0 {
				stuck = 0
			}
		}
		o.n = len(out)
		// Close three times (defer r.Close() next to an explicit Close is the ordinary idiom). A checksum verdict
		// stands: after ErrChecksum no later Close may report success. (A Close that failed on a transient source
		// error may succeed later; whichever Close reports success is held to the full oracle below.)
		cerrs := []error{r.Close(), r.Close(), r.Close()}
		ok := false
		for i, e := range cerrs {
			if e == nil {
				ok = true
			}
			if i > 0 && e == nil && errors.Is(cerrs[i-1], lzhuf.ErrChecksum) {
				sig, msg = "close-verdict-changes", fmt.Sprintf("Close returned %v, Close number %d on the same Reader returned nil", cerrs[i-1], i+1)
				return
			}
		}
		if !ok {
			return
		}
		o.closeOK = true
		if o.readErr != nil {
			sig, msg = "close-ok-after-read-error", fmt.Sprintf("Read failed with %v but Close returned nil", o.readErr)
			return
		}
		// Close == nil: CRC, size and canonical decoding must all agree
		if int64(len(out)) != declared {
			sig, msg = "close-ok-bad-size", fmt.Sprintf("Close returned nil although %d bytes were read and the header declares %d", len(out), declared)
			return
		}
		want, info, derr := ref.Decode(c.Stream, c.B2)
		if derr != nil && derr != ref.ErrCRC {
			sig, msg = "close-ok-but-invalid-stream", fmt.Sprintf("Close returned nil but the strict canonical decoder rejects the stream: %v", derr)
			return
		}
		if !bytes.Equal(want, out) {
			sig, msg = "close-ok-but-not-canonical", fmt.Sprintf("Close returned nil but the bytes read differ from the canonical decoding at byte %d", firstDiff(want, out))
			return
		}
		if c.B2 {
			// The header CRC must be the CRC-16/XMODEM of size||everything that follows: the Reader is given the
			// compressed data as its input, so the sum covers all of it - also bytes behind the last bit the decoder
			// needed (before fix fd60d10 the library summed only what its buffered reader had pulled in, and this
			// check accepted any prefix; the C04 check showed that to deliver damaged messages).
			got := binary.LittleEndian.Uint16(c.Stream)
			body := c.Stream[2:]
			if ref.CRC16(body) != got {
				need := 4 + (info.BitsUsed+7)/8
				sig, msg = "close-ok-bad-crc", fmt.Sprintf("Close returned nil although the header CRC %04x is not the CRC-16/XMODEM of size||data (%04x over all %d bytes; the decoder needed %d of them)", got, ref.CRC16(body), len(body), need)
			}
		}
	}
}

func firstDiff(a, b []byte) int {
	for i := 0; i < len(a) && i < len(b); i++ {
		if a[i] != b[i] {
			return i
		}
	}
	return min(len(a), len(b))
}

func libEncode(in []byte, b2 bool) []byte {
	var buf bytes.Buffer
	w := lzhuf.NewWriter(&buf, b2)
	w.Write(in)
	w.Close()
	return buf.Bytes()
}

func fixCRC(z []byte, b2 bool) {
	if b2 && len(z) >= 6 {
		binary.LittleEndian.PutUint16(z, ref.CRC16(z[2:]))
	}
}

// validStream draws a valid stream and returns it with its origin label.
// deepInput: a symbol distribution (levels symbols with counts base*ratio^j, then fresh never-used byte values)
// that drives the adaptive Huffman tree so deep that the fresh symbols get codes of 16..17 bits - longer than
// the 16 bit code register of the classic encoder, but a decoder walks the tree bit by bit and must follow.
func deepInput(base, ratio float64, levels, fresh int) []byte {
	var in []byte
	for j := 0; j < levels; j++ {
		n := int(math.Round(base * math.Pow(ratio, float64(j))))
		for x := 0; x < n; x++ {
			in = append(in, byte(200+j))
		}
	}
	for i := 0; i < fresh; i++ {
		in = append(in, byte(i))
	}
	return in
}

func validStream(t *rapid.T, b2 bool) ([]byte, string, int) {
	if rapid.IntRange(0, 11).Draw(t, "deep") == 0 {
		in := deepInput(rapid.SampledFrom([]float64{300, 500}).Draw(t, "deep_base"), rapid.SampledFrom([]float64{1.62, 1.7}).Draw(t, "deep_ratio"), 8, rapid.IntRange(40, 120).Draw(t, "deep_fresh"))
		z, st := ref.EncodeLiterals(in, b2)
		return z, fmt.Sprintf("literals/deep-huffman(depth %d)", st.MaxDepth), len(in)
	}
	switch rapid.IntRange(0, 2).Draw(t, "encoder") {
	case 0:
		in, fam := gen.Bytes(t, 8<<10)
		return libEncode(in, b2), "lib/" + fam, len(in)
	case 1:
		in, fam := gen.Bytes(t, 8<<10)
		z, _ := ref.Encode(in, b2)
		return z, "canon/" + fam, len(in)
	default:
		in := rapid.SliceOfN(rapid.SampledFrom([]byte{' ', ' ', 'a', 0, 0}), 0, 150).Draw(t, "pin")
		vec := rapid.SliceOfN(rapid.IntRange(-1, 9000), 1, 8).Draw(t, "parse")
		i := 0
		z, _ := ref.EncodeParse(in, b2, rapid.SampledFrom([]int{0, 60, 1423, 1483, 1988, 1989, 2048}).Draw(t, "reach"), func(pos int, cands []ref.Match) int {
			v := vec[i%len(vec)]
			i++
			if v < 0 || len(cands) == 0 {
				return -1
			}
			if v%3 == 0 { // farthest candidate: reaches the edges of the initial window
				best := 0
				for k, m := range cands {
					if m.Dist >= cands[best].Dist {
						best = k
					}
				}
				return best
			}
			return v % len(cands)
		})
		return z, "parse", len(in)
	}
}

func genCase(t *rapid.T) Case {
	c := Case{B2: rapid.Bool().Draw(t, "b2"), Reads: gen.Schedule(t, "reads")}
	kind := rapid.IntRange(0, 9).Draw(t, "kind")
	if kind < 2 {
		c.Src = gen.SourceScheduleEOF(t, "src")
	}
	if kind == 0 {
		c.Stream = rapid.SliceOfN(rapid.Byte(), 0, 4096).Draw(t, "random")
		c.Origin = "random"
		return c
	}
	if kind == 1 { // random bit stream behind a plausible header
		n := rapid.IntRange(0, 3000).Draw(t, "declared")
		body := rapid.SliceOfN(rapid.Byte(), 0, 600).Draw(t, "bits")
		z := make([]byte, 4, 4+len(body))
		binary.LittleEndian.PutUint32(z, uint32(n))
		z = append(z, body...)
		if c.B2 {
			z = append([]byte{0, 0}, z...)
			if rapid.Bool().Draw(t, "goodcrc") {
				fixCRC(z, true)
			}
		}
		c.Stream, c.Origin = z, "random-bits"
		return c
	}
	z, origin, n := validStream(t, c.B2)
	z = append([]byte(nil), z...)
	hoff := 0
	if c.B2 {
		hoff = 2
	}
	switch kind {
	case 2: // untouched
		c.Origin = "valid:" + origin
	case 3: // truncation
		k := rapid.IntRange(0, len(z)).Draw(t, "cut")
		z = z[:k]
		if rapid.Bool().Draw(t, "recrc") {
			fixCRC(z, c.B2)
		}
		c.Origin = "truncated:" + origin
	case 4: // bit flips
		flips := rapid.IntRange(1, 3).Draw(t, "flips")
		for i := 0; i < flips && len(z) > 0; i++ {
			p := rapid.IntRange(0, len(z)*8-1).Draw(t, "bit")
			z[p/8] ^= 1 << uint(p%8)
		}
		if rapid.Bool().Draw(t, "recrc") {
			fixCRC(z, c.B2)
		}
		c.Origin = "bitflip:" + origin
	case 5, 6: // size edits (CRC recomputed half of the time so only the size check can object)
		var sz int64
		switch rapid.IntRange(0, 5).Draw(t, "szkind") {
		case 0:
			sz = -1 << 31
		case 1:
			sz = -1
		case 2:
			sz = 0
		case 3:
			sz = 1<<31 - 1
		case 4:
			sz = int64(n) + int64(rapid.IntRange(-61, 61).Draw(t, "delta"))
		default:
			sz = int64(rapid.IntRange(-70000, 70000).Draw(t, "sz"))
		}
		if len(z) >= hoff+4 {
			binary.LittleEndian.PutUint32(z[hoff:], uint32(int32(sz)))
		}
		if rapid.IntRange(0, 3).Draw(t, "recrc") > 0 {
			fixCRC(z, c.B2)
		}
		c.Origin = "size-edit:" + origin
	case 7: // CRC edits
		if c.B2 && len(z) >= 2 {
			if rapid.IntRange(0, 3).Draw(t, "crc_of_longer") == 0 {
				// the sum of the data with 2 or 4 zero bytes appended (what a checksum register holds when it is
				// finalised more than once)
				ext := append(append([]byte{}, z[2:]...), make([]byte, 2*rapid.IntRange(1, 2).Draw(t, "crc_ext"))...)
				binary.LittleEndian.PutUint16(z, ref.CRC16(ext))
			} else {
				z[rapid.IntRange(0, 1).Draw(t, "crcbyte")] ^= byte(rapid.IntRange(1, 255).Draw(t, "crcxor"))
			}
		}
		c.Origin = "crc-edit:" + origin
	case 8: // splice of two streams
		z2, o2, _ := validStream(t, c.B2)
		a := rapid.IntRange(0, len(z)).Draw(t, "a")
		b := rapid.IntRange(0, len(z2)).Draw(t, "b")
		z = append(z[:a:a], z2[b:]...)
		if rapid.Bool().Draw(t, "recrc") {
			fixCRC(z, c.B2)
		}
		c.Origin = "splice:" + origin + "+" + o2
	default: // trailing garbage
		if rapid.IntRange(0, 3).Draw(t, "long_garbage") == 0 { // longer than the read-ahead of a buffered reader
			z = append(z, rapid.SliceOfN(rapid.Byte(), 4096, 4200).Draw(t, "garbage")...)
		} else {
			z = append(z, rapid.SliceOfN(rapid.Byte(), 1, 64).Draw(t, "garbage")...)
		}
		if rapid.Bool().Draw(t, "recrc") {
			fixCRC(z, c.B2)
		}
		c.Origin = "trailing-garbage:" + origin
	}
	c.Stream = z
	c.Src = gen.SourceScheduleEOF(t, "src")
	if len(z) > 0 && rapid.IntRange(0, 3).Draw(t, "fault") == 0 {
		c.Fault = 1 + rapid.IntRange(0, len(z)-1).Draw(t, "fault_at")
	}
	return c
}

func account(c Case, o outcome) {
	harness.Eval()
	kind := c.Origin
	if i := bytes.IndexByte([]byte(kind), ':'); i > 0 {
		kind = kind[:i]
	}
	harness.Label("kind:" + kind)
	if o.accepted {
		harness.NonTrivial(harness.Hash(c.Stream, c.B2, c.Reads, c.Src, c.Fault))
		switch {
		case o.closeOK:
			harness.Label("verdict:close-ok")
		case o.readErr != nil:
			harness.Label("verdict:read-error")
		default:
			harness.Label("verdict:close-error")
		}
	} else {
		harness.Label("verdict:constructor-error")
	}
	if len(c.Src) > 0 {
		harness.Label("source:delivered-in-pieces")
	}
	if o.faulted {
		harness.Label("source:transient-read-error-delivered")
		if o.closeOK {
			harness.Label("source:transient-read-error-delivered+close-ok")
		}
	}
	if harness.WantSample() && o.accepted && kind != "valid" {
		s := c.Stream
		if len(s) > 32 {
			s = s[:32]
		}
		harness.Sample(map[string]any{"origin": c.Origin, "b2": c.B2, "stream_len": len(c.Stream), "stream_head_hex": fmt.Sprintf("%x", s), "reads": c.Reads, "bytes_read": o.n, "close_ok": o.closeOK, "read_err": fmt.Sprint(o.readErr)})
	}
}

func prop(t *rapid.T) {
	c := genCase(t)
	harness.Begin(c)
	sig, msg, o := run(c)
	harness.End()
	account(c, o)
	if sig != "" {
		harness.Fail(t, sig, c, "%s", msg)
	}
}

func TestProp(t *testing.T) { rapid.Check(t, prop) }

func FuzzProp(f *testing.F) { f.Fuzz(rapid.MakeFuzz(prop)) }

// FuzzBytes feeds raw fuzzer bytes as the stream (both formats, two read schedules).
func FuzzBytes(f *testing.F) {
	for _, in := range [][]byte{nil, []byte("a"), []byte("hello hello hello hello"), bytes.Repeat([]byte{0}, 100)} {
		f.Add(libEncode(in, true), true, uint8(7))
		f.Add(libEncode(in, false), false, uint8(0))
	}
	f.Add([]byte{0, 0, 0xff, 0xff, 0xff, 0xff, 1, 2, 3}, true, uint8(1))
	f.Add([]byte{0xff, 0xff, 0xff, 0x7f, 1, 2, 3}, false, uint8(1))
	f.Fuzz(func(t *testing.T, z []byte, b2 bool, rd uint8) {
		c := Case{Stream: z, B2: b2, Reads: []int{int(rd) + 1}, Origin: "fuzz"}
		if sig, msg, _ := run(c); sig != "" {
			harness.Fail(t, sig, c, "%s", msg)
		}
	})
}

func TestReplay(t *testing.T) {
	for _, f := range harness.ReplayFiles() {
		var c Case
		if _, err := harness.ReplayCase(f, &c); err != nil {
			t.Fatalf("%s: %v", f, err)
		}
		sig, msg, _ := run(c)
		harness.Eval()
		if sig != "" {
			harness.Fail(t, sig, c, "replay %s: %s", f, msg)
		}
	}
}
