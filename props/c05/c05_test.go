// C05 — wire behaviour conforms to B2F as judged by an independently written peer.
package c05

import (
	"fmt"
	"strings"
	"testing"

	"pgregory.net/rapid"

	"verif/internal/harness"
	"verif/internal/msggen"
	. "verif/internal/peerscen"
)

func TestMain(m *testing.M) {
	harness.Property("C05",
		"library Session (generated role, callsign, locator, user agent, auxiliary addresses, secure-login password, message queue, answer policy, gzip on/off) talks over a segmented duplex stream to the harness's own strict B2F peer (internal/ref/b2f), which validates every byte the Session writes and itself uses a generated choice vector: data block sizes 1..256, every documented answer form in either case incl. zero-offset accepts, comment and ;PM lines before/between/after proposals and before FS, MOTD text, SID feature strings containing B2 anywhere, ;FW lists with |hash, CMS-style early FQ (after an all-refused block or right behind the last frame; in half of those cases the peer also hangs up at once, so that what the Session writes afterwards fails like on net.Pipe), duplicate MIDs inside a block, G flag. Non-trivial = at least one message transferred and at least one non-default encoding choice; distinct by hash of the case.",
		"reference peer written from docs/F6FBB-B2F and the Winlink B2F description; lines end in CR only",
		"answer 'H'/'h' is excluded from the conforming generator (known finding: FBB defines H as 'accepted but will be held' = transfer it, the library defers; pinned by the repository's TestParseProposalAnswer)",
		"answer 'E' (error in the line) has no prescribed sender reaction and is not generated",
	)
	harness.Main(m)
}

func account(c Case, oc Outcome) {
	harness.Eval()
	nondefault := 0
	for k, v := range oc.Choices {
		harness.LabelN("choice:"+k, v)
		if k != "answer:+" {
			nondefault += v
		}
	}
	if c.Peer.HangUp && oc.Choices["early-FQ"] > 0 {
		harness.Label("choice:early-FQ-then-hang-up(library writes fail)")
	}
	if len(c.Peer.BlockSizes) != 1 || c.Peer.BlockSizes[0] != 250 {
		nondefault++
		harness.Label("choice:block-sizes")
	}
	if strings.Contains(strings.Join(c.Peer.FW, " "), "|") {
		nondefault++
		harness.Label("choice:fw-with-hash")
	}
	if c.Peer.Master {
		harness.Label("role:library-calls")
	} else {
		harness.Label("role:library-is-called")
	}
	if c.Peer.Challenge != "" && c.Peer.Master {
		harness.Label("secure-login")
	}
	if c.Lib.Gzip && c.Peer.Gzip {
		harness.Label("gzip-both")
	} else if c.Lib.Gzip != c.Peer.Gzip {
		harness.Label("gzip-one-side-only")
	}
	if len(c.Lib.Queue) > 5 {
		harness.Label("library-blocks>=2")
	}
	if len(c.Lib.Queue) > 12 {
		harness.Label("library-queue>12(sorts no longer stable by accident)")
	}
	if oc.Transferred > 0 && nondefault > 0 {
		harness.NonTrivial(harness.Hash(fmt.Sprintf("%+v", c)))
		harness.Label("nontrivial")
	}
	if harness.WantSample() && oc.Transferred > 1 && nondefault > 1 {
		var lq, pq []string
		for _, m := range c.Lib.Queue {
			lq = append(lq, m.MID+":"+c.Peer.Answers[m.MID])
		}
		for _, m := range c.Peer.Queue {
			pq = append(pq, m.MID+":"+c.Lib.Policy[m.MID])
		}
		harness.Sample(map[string]any{"peer_master": c.Peer.Master, "peer_sid": c.Peer.SID, "peer_fw": c.Peer.FW, "lib_queue(mid:peer answer)": lq, "peer_queue(mid:lib policy)": pq,
			"block_sizes": c.Peer.BlockSizes, "pre_block": c.Peer.PreBlock, "mid_block": c.Peer.MidBlock, "pre_fs": c.Peer.PreFS, "early_fq": c.Peer.EarlyFQ, "dup": c.Peer.Dup, "aux": c.Lib.Aux, "challenge": c.Peer.Challenge})
	}
}

func TestProp(t *testing.T) {
	rapid.Check(t, func(t *rapid.T) {
		c := GenCase(t)
		harness.Begin(c)
		sig, msg, oc := Run(c)
		harness.End()
		account(c, oc)
		if sig != "" {
			harness.Fail(t, sig, c, "%s", msg)
		}
	})
}

// TestKnownProbe re-demonstrates the listed known finding: a peer that answers 'H' ("message is
// accepted but will be held", FBB protocol description) expects the message to be transferred; the
// library treats H as a deferral and sends nothing, so the session stalls.
func TestKnownProbe(t *testing.T) {
	if i, _ := harness.Shard(); i != 0 {
		return
	}
	spec := msggen.Spec{MID: "HOLDME", From: "LA5NTA", To: []string{"N0CALL"}, Subject: "hold", Body: "x", Minute: 1}
	c := Case{
		Lib:  Lib{Call: "LA5NTA", Target: "N0CALL", Locator: "JO29PJ", UAName: "wl2kgo", UAVer: "0.1a", Queue: []msggen.Spec{spec}},
		Peer: Peer{Master: true, Call: "N0CALL", Locator: "JO59", SID: "[FBB-7.0-B2FHM$]", FW: []string{"N0CALL"}, Prompt: "N0CALL>", Answers: map[string]string{"HOLDME": "H"}, BlockSizes: []int{250}, HoldIsAccept: true},
	}
	sig, _, _ := Run(c)
	fmt.Printf("KNOWN-PROBE sig=answer-H-treated-as-defer reproduced=%v\n", sig != "")
}

func TestReplay(t *testing.T) {
	for _, f := range harness.ReplayFiles() {
		var c Case
		if _, err := harness.ReplayCase(f, &c); err != nil {
			t.Fatalf("%s: %v", f, err)
		}
		sig, msg, _ := Run(c)
		harness.Eval()
		if sig != "" {
			harness.Fail(t, sig, c, "replay %s: %s", f, msg)
		}
	}
}
