// C14 — an ARDOP connection is a reliable ordered byte stream with correct host framing.
//
// The peer and oracle is internal/ref/ardopsim, a TNC simulator written from the ARDOP host
// interface description. Every choice of a case (mode, segmentation, dialogue scripts, frame and
// buffer sizes, fault positions, event interleaving, malformed bytes) is in Case; run() drives the
// library sequentially from one goroutine, so no verdict depends on scheduling or on a clock.
package c14

import (
	"bytes"
	"fmt"
	"io"
	"log"
	"net"
	"runtime"
	"strings"
	"sync"
	"sync/atomic"
	"testing"
	"time"

	"github.com/la5nta/wl2k-go/transport/ardop"

	"pgregory.net/rapid"

	"verif/internal/gen"
	"verif/internal/harness"
	sim "verif/internal/ref/ardopsim"
)

func TestMain(m *testing.M) {
	log.SetOutput(io.Discard) // the library logs every line it cannot parse
	harness.Property("C14",
		"cases: serial (in-memory line, generated read segmentation incl. 1-byte reads) or TCP (loopback, ports p/p+1); dial, dial with bandwidth, failed dial or listen/accept; steps = ARQ frames TNC->host (1..65532 bytes) with IDF/FEC/ERR frames in between, BUFFER/NEWSTATE/PTT/BUSY/PENDING/STATUS events, host writes of 1..70000 bytes with 0..3 CRCFAULTs each, (serial) write pairs - two Writes back to back while the TNC sends an unsolicited BUFFER progress report at the moment the first frame is half way down a slow port (the port takes the second half of the caller's buffer only at the end of the write call); both frames must arrive intact and in order -, reads with a generated buffer schedule, Flush with BUFFER 0 sent at a later step, then Close (DISCONNECT answered immediately or at a later step) or a remote disconnect; plus a malformed-input family (no-crash oracle). Non-trivial = conforming case with at least one data frame each way and a CRCFAULT, a reader buffer smaller than a frame, or a write > 65535; distinct by hash of the whole case.",
		"outside the write-pair step the simulator orders events as a modem does: BUFFER 0 is sent strictly after the write's own BUFFER n notification has been consumed (Write returned), ARQ data only after Dial/Accept returned, an inbound connect only after Accept is pending; in TCP mode the session is not ended while ARQ data is unread (control and data sockets are not ordered relative to each other)",
		"malformed family: oracle is only 'process does not die and every call returns'; the link is dropped (EOF) after the malformed bytes, because a TNC that swallowed a reply can block the library for ever and the property has no bounded-time clause",
		"loopback TCP segmentation is requested (TCP_NODELAY, separate writes), not guaranteed",
	)
	harness.Main(m)
}

// Step is one action of the connected phase, executed in order by the test goroutine.
type Step struct {
	Op   string `json:"op"`             // tnc-data | event | progress | write | read | flush-start | drain | flush-wait
	Typ  string `json:"typ,omitempty"`  // tnc-data: ARQ, IDF, FEC, ERR
	N    int    `json:"n,omitempty"`    // size (tnc-data, write), number of Read calls (read), percent (progress)
	Seed uint64 `json:"seed,omitempty"` // content seed
	Text string `json:"text,omitempty"` // event: the control line
	// write (serial): another goroutine of the application issues commands (VERSION) while the Write runs
	Concurrent bool `json:"concurrent,omitempty"`
	// write-pair (serial): two Writes back to back (N and N2 bytes) while the TNC sends a progress report for
	// earlier data at the moment the first frame is half way down a slow port
	N2 int `json:"n2,omitempty"`
}

type Case struct {
	Family  string `json:"family"` // conforming | malformed
	TCP     bool   `json:"tcp"`
	Sched   []int  `json:"sched"`
	Mycall  string `json:"mycall"`
	Grid    string `json:"grid"`
	Target  string `json:"target"`
	Connect string `json:"connect"` // dial | dialbw | dial-fail | listen | none

	DialScript []string `json:"dial_script,omitempty"` // events between the ARQCALL echo and CONNECTED (or the failure)
	Faults     []int    `json:"faults,omitempty"`      // CRCFAULTs for the i-th write (serial)
	Steps      []Step   `json:"steps,omitempty"`
	ReadBufs   []int    `json:"read_bufs,omitempty"`
	End        string   `json:"end,omitempty"` // close | remote-disc
	HoldDisc   bool     `json:"hold_disc,omitempty"`
	DiscScript []string `json:"disc_script,omitempty"`

	// malformed family
	Blob        []byte `json:"blob,omitempty"`
	BlobOnData  bool   `json:"blob_on_data,omitempty"` // TCP: inject on the data socket
	Shape       string `json:"shape,omitempty"`        // label of the generator that made the blob
	After       string `json:"after,omitempty"`        // eof | txfail
	PendingRead bool   `json:"pending_read,omitempty"` // a Read is blocked while the bytes arrive

	// conforming, listen: the application calls Accept late. Early > 0 ARQ frames (sizes EarlyN, content from
	// EarlySeed) are delivered by the TNC after CONNECTED and before Accept is called.
	// conforming, dial: a second session on the same TNC. The first session ends as generated (optionally with
	// LateARQ frames after NEWSTATE DISC and/or without a DISCONNECTED line), Stray ARQ-typed frames arrive
	// while no session exists (the library's control loop documents that ARDOPc sends such frames and drops
	// them), then the station dials again and the second session's Read must yield exactly the second
	// session's payloads.
	SlowWriteUS    int  `json:"slow_write_us,omitempty"` // serial: duration of every host write call
	PTTKeyUS       int  `json:"ptt_key_us,omitempty"`    // the PTT controller needs that long to key the transmitter
	Second         bool `json:"second,omitempty"`
	LateARQ        int  `json:"late_arq,omitempty"`
	NoDisconnected bool `json:"no_disconnected,omitempty"`
	Stray          int  `json:"stray,omitempty"`
	SecondFrames   int  `json:"second_frames,omitempty"`

	Early     int    `json:"early,omitempty"`
	EarlyN    int    `json:"early_n,omitempty"`
	EarlySeed uint64 `json:"early_seed,omitempty"`
}

const hangLimit = 90 * time.Second

// waitDone waits for done in one-second ticks and gives up after hangLimit worth of ticks. Counting
// ticks instead of arming one long timer means that a frozen process or a stalled machine costs one
// tick, however long the stall was.
func waitDone(done <-chan struct{}) bool {
	for i := 0; i < int(hangLimit/time.Second); i++ {
		select {
		case <-done:
			return true
		case <-time.After(time.Second):
		}
	}
	select {
	case <-done:
		return true
	default:
		return false
	}
}

func content(seed uint64, n int) []byte {
	sm := gen.NewSM(seed)
	b := make([]byte, n)
	for i := 0; i < n; i += 8 {
		v := sm.Next()
		for j := 0; j < 8 && i+j < n; j++ {
			b[i+j] = byte(v >> (8 * uint(j)))
		}
	}
	return b
}

type pttRec struct {
	mu  sync.Mutex
	seq []bool
	// keyTime: how long the rig control takes to key the transmitter (SetPTT(true)); a request counts when it
	// has taken effect, i.e. when SetPTT returns
	keyTime time.Duration
	busy    int32
	overlap bool
}

func (p *pttRec) SetPTT(on bool) error {
	if atomic.AddInt32(&p.busy, 1) > 1 {
		p.mu.Lock()
		p.overlap = true
		p.mu.Unlock()
	}
	if on && p.keyTime > 0 {
		time.Sleep(p.keyTime)
	}
	p.mu.Lock()
	p.seq = append(p.seq, on)
	p.mu.Unlock()
	atomic.AddInt32(&p.busy, -1)
	return nil
}
func (p *pttRec) get() []bool { p.mu.Lock(); defer p.mu.Unlock(); return append([]bool(nil), p.seq...) }

// stats is what account() needs to classify a case.
type stats struct {
	opened, connected       bool
	arqFrames, otherFrames  int
	writes, faultedWrites   int
	pairs                   int // write-pair steps
	bigWrite, smallBuf      bool
	failedWrite, flushes    int
	events, ptt             int
	maxFrame, reads         int
	bytesIn, bytesOut       int
	readAfterDisc, heldDisc bool
	postCalls               int
	early                   bool // ARQ frames were delivered between CONNECTED and a late Accept
	second                  bool // a second session ran on the same TNC
	concurrent              bool // commands were issued by another goroutine while a Write was running
}

// runner holds the state of one executing case.
type runner struct {
	c    Case
	s    *sim.Sim
	tnc  *ardop.TNC
	conn net.Conn
	ln   net.Listener
	ptt  *pttRec
	st   stats

	sig, msg string // first violation

	expect    []byte // concatenated ARQ payloads sent so far
	got       int    // bytes of expect already read and compared
	maxUnread int
	rbPos     int
	pttSent   []bool
	writeIdx  int

	flushDone chan struct{} // non-nil while a Flush call is pending
	flushErr  error
	flushSig  string
	flushMsg  string
	frameEnds []int // offsets in expect where an ARQ frame ends
	lastN     int64 // seq of the BUFFER n that acknowledged the last accepted write
}

func (r *runner) fail(sig, format string, a ...any) {
	if r.sig == "" {
		r.sig, r.msg = sig, fmt.Sprintf(format, a...)
	}
}

// call runs one library call: a panic in the calling goroutine becomes a violation, a call that does
// not return within the (very generous) limit is recorded as a hang and ends the worker.
func (r *runner) call(name string, f func()) {
	var psig, pmsg string
	done := make(chan struct{})
	go func() { defer close(done); psig, pmsg = harness.Catch(f) }()
	if !waitDone(done) {
		if name == "Read" && r.c.Family == "conforming" && r.tnc != nil {
			// Reads are only issued for payload bytes the simulator has already written to the host. A Read
			// that is still blocked after the limit is judged with a barrier instead of the clock: a command
			// round trip (VERSION) is sent through the same TNC link; when its answer has come back, the
			// library's receive loop has certainly handled everything the TNC wrote before it (one ordered
			// stream in serial mode; in TCP mode the data socket had the whole limit plus the round trip).
			// If the Read still does not return after that and another full limit, the data was lost: that is
			// the stream clause of the property ("Read yields exactly the concatenated ARQ payloads"), not a
			// liveness question.
			ok := make(chan struct{})
			go func() { defer close(ok); harness.Catch(func() { r.tnc.Version() }) }()
			if waitDone(ok) && !waitDone(done) {
				harness.Record("read-never-returns-delivered-data", r.c, fmt.Sprintf("the TNC delivered %d ARQ payload bytes for the connection, %d were returned by Read; the next Read is blocked although a later command round trip (VERSION) through the same link has completed: the frame(s) were dropped. %s%s", len(r.expect), r.got, r.transcript(10), stacks()))
				harness.ExitHung()
			}
			select {
			case <-done:
				if psig != "" {
					r.fail(psig, "%s: %s", name, pmsg)
				}
				return
			default:
			}
		}
		harness.Record("hang:"+name, r.c, fmt.Sprintf("%s did not return within %v: %s%s", name, hangLimit, r.transcript(8), stacks()))
		harness.ExitHung()
	}
	if psig != "" {
		if strings.HasPrefix(psig, "panic-chan:") && r.c.Family == "malformed" {
			// a send on a channel that TNC.close() has closed, after the link was dropped: the known finding
			// (the generated cases do not overlap the loss with a call, but the library's own clean-up runs
			// asynchronously)
			psig = knownLinkLossSig
		}
		r.fail(psig, "%s: %s", name, pmsg)
	}
}

var _ = strings.TrimSpace
var _ = bytes.Equal

// hostCmds returns the command texts the simulator has received so far.
func hostCmds(recs []sim.Record) []string {
	var l []string
	for _, x := range recs {
		if x.Dir == "host" && x.Kind == "cmd" {
			l = append(l, x.Text)
		}
	}
	return l
}

func has(l []string, want string) bool {
	for _, x := range l {
		if x == want {
			return true
		}
	}
	return false
}

// open starts the simulator and opens the TNC through the exported API.
func (r *runner) open() bool {
	c := r.c
	cfg := sim.Config{Sched: c.Sched, Faults: c.Faults, DialScript: c.DialScript, DiscScript: c.DiscScript, HoldDisc: c.HoldDisc, NoDisconnected: c.NoDisconnected, SlowWriteUS: c.SlowWriteUS}
	for i := 0; i < c.LateARQ; i++ {
		cfg.LateARQ = append(cfg.LateARQ, content(c.EarlySeed+1000+uint64(i), 20+i))
	}
	var err error
	if c.TCP {
		var addr string
		r.s, addr, err = sim.NewTCP(cfg)
		if err != nil {
			return false // no port pair: harness trouble, not a verdict
		}
		r.call("OpenTCP", func() { r.tnc, err = ardop.OpenTCP(addr, c.Mycall, c.Grid) })
	} else {
		r.s = sim.NewSerial(cfg)
		r.call("Open", func() { r.tnc, err = ardop.Open(r.s.Host(), c.Mycall, c.Grid) })
	}
	if r.sig != "" {
		return false
	}
	if c.Family == "conforming" {
		if err != nil {
			r.fail("open-failed", "Open returned %v against a TNC that answered every command (transcript: %s)", err, r.transcript(12))
			return false
		}
		cmds := hostCmds(r.s.Records())
		for _, want := range []string{"INITIALIZE", "MYCALL " + c.Mycall, "GRIDSQUARE " + c.Grid} {
			if !has(cmds, want) {
				r.fail("open-dialogue", "Open(%q,%q) returned nil but the TNC never received %q; it received %q", c.Mycall, c.Grid, want, cmds)
				return false
			}
		}
	}
	if err != nil || r.tnc == nil {
		return false
	}
	r.st.opened = true
	r.ptt = &pttRec{keyTime: time.Duration(c.PTTKeyUS) * time.Microsecond}
	r.tnc.SetPTT(r.ptt)
	return true
}

func (r *runner) notePTT(lines ...string) {
	for _, l := range lines {
		f := strings.Fields(strings.ToUpper(l))
		if len(f) == 2 && f[0] == "PTT" {
			r.pttSent = append(r.pttSent, f[1] == "TRUE")
			r.st.ptt++
		}
	}
}

// connect establishes the ARQ session as the case says. It returns false if the case ends here.
func (r *runner) connect() bool {
	c := r.c
	var err error
	switch c.Connect {
	case "dial", "dialbw", "dial-fail":
		r.notePTT(c.DialScript...)
		bw, reqs := ardop.Bandwidth{}, 0
		if c.Connect == "dialbw" {
			bw, reqs = ardop.Bandwidth500Max, 3
		}
		r.call("Dial", func() { r.conn, err = r.tnc.DialBandwidth(c.Target, bw, reqs) })
		if r.sig != "" {
			return false
		}
		if c.Family != "conforming" {
			return err == nil && r.conn != nil
		}
		wantReqs := reqs
		if wantReqs == 0 {
			wantReqs = ardop.DefaultConnectRequests
		}
		if want := fmt.Sprintf("ARQCALL %s %d", c.Target, wantReqs); !has(hostCmds(r.s.Records()), want) {
			r.fail("dial-dialogue", "Dial(%q) returned (err=%v) but the TNC never received %q; it received %q", c.Target, err, want, hostCmds(r.s.Records()))
			return false
		}
		if c.Connect == "dial-fail" {
			if err == nil {
				r.fail("dial-succeeded-on-failure", "the TNC answered ARQCALL with %q (no CONNECTED) but Dial returned a connection", c.DialScript)
			}
			return false
		}
		if err != nil || r.conn == nil {
			r.fail("dial-failed", "the TNC answered ARQCALL with %q but Dial returned %v", c.DialScript, err)
			return false
		}
		if c.Connect == "dialbw" && !has(hostCmds(r.s.Records()), "ARQBW 500MAX") {
			r.fail("dial-dialogue", "DialBandwidth(500MAX) connected but the TNC never received \"ARQBW 500MAX\"; it received %q", hostCmds(r.s.Records()))
			return false
		}
		if got := r.conn.RemoteAddr().String(); got != c.Target {
			r.fail("addr", "RemoteAddr of a connection dialled to %q is %q", c.Target, got)
		}
	case "listen":
		var lgid string
		r.call("Listen", func() { lgid = gid(); r.ln, err = r.tnc.Listen() })
		if r.sig != "" {
			return false
		}
		if err != nil {
			if c.Family == "conforming" {
				r.fail("listen-failed", "Listen returned %v (transcript: %s)", err, r.transcript(8))
			}
			return false
		}
		if !has(hostCmds(r.s.Records()), "LISTEN true") && !has(hostCmds(r.s.Records()), "LISTEN TRUE") {
			r.fail("listen-dialogue", "Listen returned nil but the TNC never received LISTEN true; it received %q", hostCmds(r.s.Records()))
			return false
		}
		acc := make(chan struct{})
		var asig, amsg string
		var aerr error
		accept := func() {
			go func() {
				defer close(acc)
				asig, amsg = harness.Catch(func() { r.conn, aerr = r.ln.Accept() })
			}()
		}
		late := c.Family == "conforming" && c.Early > 0
		if !late {
			accept()
		}
		// A station connects seconds after LISTEN at the earliest; the library registers its listener for
		// TARGET/CONNECTED in a goroutine that Listen() starts but does not wait for. Wait until that
		// goroutine sits in its select loop (observed through the runtime, no clock in any verdict).
		r.waitListener(lgid, "[select")
		remote := c.Target
		r.notePTT(c.DialScript...)
		r.s.InboundConnect(c.DialScript, c.Mycall, remote, 500)
		if late {
			// The application is busy and calls Accept late; the remote station starts sending at once. The
			// frames are sent once the library's listener goroutine is seen waiting to hand the connection over
			// (it has processed CONNECTED); if that is not observed the early frames are skipped.
			if r.waitListener(lgid, "[chan send") {
				for i := 0; i < c.Early; i++ {
					r.step(Step{Op: "tnc-data", Typ: "ARQ", N: max(1, c.EarlyN), Seed: c.EarlySeed + uint64(i)})
				}
				r.st.early = true
			}
			accept()
		}
		if !waitDone(acc) {
			harness.Record("hang:Accept", c, "Accept did not return after TARGET/CONNECTED: "+r.transcript(10)+stacks())
			harness.ExitHung()
		}
		if asig != "" {
			r.fail(asig, "Accept: %s", amsg)
			return false
		}
		if aerr != nil || r.conn == nil {
			if c.Family == "conforming" {
				r.fail("accept-failed", "TNC sent TARGET %s, CONNECTED %s 500 but Accept returned %v", c.Mycall, remote, aerr)
			}
			return false
		}
		if c.Family == "conforming" {
			if got := r.conn.RemoteAddr().String(); got != remote {
				r.fail("addr", "RemoteAddr of a connection accepted from %q is %q", remote, got)
			}
		}
	default:
		return false
	}
	r.st.connected = r.sig == ""
	return r.sig == ""
}

// transcript renders the last n records for a failure message.
func (r *runner) transcript(n int) string {
	recs := r.s.Records()
	if len(recs) > n {
		recs = recs[len(recs)-n:]
	}
	var b strings.Builder
	for _, x := range recs {
		switch {
		case x.Kind == "data":
			fmt.Fprintf(&b, "[%d %s data %s %d bytes %s] ", x.Seq, x.Dir, x.Text, len(x.Data), x.Reply)
		default:
			fmt.Fprintf(&b, "[%d %s %q] ", x.Seq, x.Dir, x.Text)
		}
	}
	return b.String()
}

func (r *runner) unread() int { return len(r.expect) - r.got }

// readSome performs up to calls Read calls (never more than there is unread data for, so that no
// Read blocks on correct code) and compares what comes back with the ARQ payloads sent.
func (r *runner) readSome(calls int) {
	if r.unread() == 0 || r.sig != "" {
		return
	}
	bufs := r.c.ReadBufs
	if len(bufs) == 0 {
		bufs = []int{4096}
	}
	r.call("Read", func() {
		for i := 0; i < calls && r.unread() > 0; i++ {
			size := bufs[r.rbPos%len(bufs)]
			r.rbPos++
			if size <= 0 {
				size = 1
			}
			for len(r.frameEnds) > 0 && r.frameEnds[0] <= r.got {
				r.frameEnds = r.frameEnds[1:]
			}
			if len(r.frameEnds) > 0 && size < r.frameEnds[0]-r.got {
				r.st.smallBuf = true
			}
			buf := make([]byte, size)
			n, err := r.conn.Read(buf)
			r.st.reads++
			if n < 0 || n > len(buf) {
				r.fail("read-count", "Read returned n=%d for a %d byte buffer", n, len(buf))
				return
			}
			if n > r.unread() || !bytes.Equal(buf[:n], r.expect[r.got:r.got+min(n, r.unread())]) {
				r.fail("read-stream", "Read (buffer %d) returned %d bytes that are not the next bytes of the ARQ payload stream (offset %d of %d sent); got %x…, want %x…",
					size, n, r.got, len(r.expect), head(buf[:n]), head(r.expect[r.got:]))
				return
			}
			r.got += n
			if err != nil {
				r.fail("read-error", "Read returned error %v with %d of %d ARQ payload bytes still undelivered and the session up", err, r.unread(), len(r.expect))
				return
			}
			if n == 0 {
				r.fail("read-empty", "Read returned (0, nil) for a %d byte buffer while %d payload bytes are undelivered", size, r.unread())
				return
			}
		}
	})
}

func head(b []byte) []byte {
	if len(b) > 16 {
		return b[:16]
	}
	return b
}

func (r *runner) readAll() {
	for r.unread() > 0 && r.sig == "" {
		r.readSome(1 << 30)
	}
}

// hostData returns the host data-frame records from index from on.
func hostData(recs []sim.Record, from int) []sim.Record {
	var l []sim.Record
	for _, x := range recs[from:] {
		if x.Dir == "host" && x.Kind == "data" {
			l = append(l, x)
		}
	}
	return l
}

// checkHostFrames: every frame the TNC got so far is well formed.
func (r *runner) checkHostFrames() {
	if b := r.s.Broken(); b != "" {
		r.fail("host-framing", "host->TNC stream: %s", b)
		return
	}
	for _, x := range r.s.Records() {
		if x.Dir == "host" && len(x.Problems) > 0 {
			r.fail("host-crc", "host->TNC frame: %s", strings.Join(x.Problems, "; "))
			return
		}
	}
}

func (r *runner) write(st Step) {
	r.finishFlush() // one call at a time on the connection
	if r.sig != "" {
		return
	}
	// Write takes any BUFFER report as the acknowledgement of its frame. A report about earlier data that
	// is still on its way when Write starts is a real-time coincidence the property does not cover: a
	// command round trip makes sure every event sent so far has been dispatched.
	r.call("Version", func() { r.tnc.Version() })
	if r.sig != "" {
		return
	}
	p := content(st.Seed, st.N)
	acc := min(len(p), 65535)
	faults := 0
	if !r.c.TCP && r.writeIdx < len(r.c.Faults) {
		faults = r.c.Faults[r.writeIdx]
	}
	r.writeIdx++
	r.st.writes++
	r.s.ExpectData(acc)
	before := len(r.s.Records())
	var n int
	var err error
	var cmds chan struct{}
	if st.Concurrent && !r.c.TCP {
		// the application's other goroutine (status display, keep-alive) talks to the TNC while the Write runs:
		// command frames and the data frame share the serial line and must not be spliced into each other
		cmds = make(chan struct{})
		r.st.concurrent = true
		go func() {
			defer close(cmds)
			harness.Catch(func() {
				for i := 0; i < 4; i++ {
					r.tnc.Version()
				}
			})
		}()
	}
	r.call("Write", func() { n, err = r.conn.Write(p) })
	if cmds != nil && !waitDone(cmds) {
		harness.Record("hang:Version", r.c, "commands issued while a Write was running did not return: "+r.transcript(8)+stacks())
		harness.ExitHung()
	}
	if r.sig != "" {
		return
	}
	r.checkHostFrames()
	if r.sig != "" {
		return
	}
	frames := hostData(r.s.Records(), before)
	ref := sim.HostDataFrame(r.c.TCP, p[:acc])
	wantFrames := min(faults, 2) + 1
	if len(frames) != wantFrames {
		r.fail("write-frame-count", "Write of %d bytes answered by %d CRCFAULT(s): the TNC received %d data frame(s), want %d (the same frame again after each CRCFAULT, three tries); Write returned (%d, %v)", len(p), faults, len(frames), wantFrames, n, err)
		return
	}
	for i, f := range frames {
		if !bytes.Equal(f.Data, p[:acc]) {
			r.fail("write-payload", "Write of %d bytes, frame %d: payload (%d bytes, %x…) is not the first %d bytes written (%x…)", len(p), i, len(f.Data), head(f.Data), acc, head(p))
			return
		}
		if !bytes.Equal(f.Raw, ref) {
			r.fail("write-frame", "Write of %d bytes, frame %d: bytes on the wire %x… differ from prefix+BE length+data+CRC %x…", len(p), i, head(f.Raw), head(ref))
			return
		}
	}
	if faults >= 3 {
		r.st.failedWrite++
		if err == nil {
			r.fail("write-no-error", "three CRCFAULTs in a row for a %d byte Write, yet it returned (%d, nil)", len(p), n)
		}
		return
	}
	if faults > 0 {
		r.st.faultedWrites++
	}
	if err != nil {
		r.fail("write-error", "Write of %d bytes (TNC answered %d CRCFAULT then BUFFER) returned (%d, %v)", len(p), faults, n, err)
		return
	}
	if n != acc {
		r.fail("write-count", "Write of %d bytes returned n=%d, but the TNC was handed %d bytes (16 bit frame length)", len(p), n, acc)
		return
	}
	if len(p) > 65535 {
		r.st.bigWrite = true
	}
	r.st.bytesOut += acc
	r.lastN = frames[len(frames)-1].Seq
}

// writePair: an unsolicited BUFFER report (progress of data queued earlier) reaches the host while the frame of the
// first Write is still being clocked out of the serial port; the application writes again at once. Whatever the
// Writes make of that report, the TNC must receive both frames intact and in order.
func (r *runner) writePair(st Step) {
	r.finishFlush()
	if r.sig != "" {
		return
	}
	r.call("Version", func() { r.tnc.Version() })
	if r.sig != "" {
		return
	}
	ps := [][]byte{content(st.Seed, min(st.N, 60000)), content(st.Seed+1, min(st.N2, 60000))}
	r.writeIdx += 2
	r.st.writes += 2
	r.st.pairs++
	r.s.ExpectData(-1)
	before := len(r.s.Records())
	r.s.ArmStaleBuffer()
	var ns [2]int
	var errs [2]error
	for i := range ps {
		r.call("Write", func() { ns[i], errs[i] = r.conn.Write(ps[i]) })
		if r.sig != "" {
			return
		}
	}
	var frames []sim.Record
	for deadline := time.Now().Add(20 * time.Second); ; time.Sleep(200 * time.Microsecond) {
		frames = hostData(r.s.Records(), before)
		if len(frames) >= 2 || r.s.Broken() != "" || time.Now().After(deadline) {
			break
		}
	}
	r.checkHostFrames()
	if r.sig != "" {
		return
	}
	if len(frames) != 2 {
		r.fail("write-frame-count", "two Writes (%d and %d bytes) while a BUFFER progress report arrived during the first: the TNC received %d data frame(s), want 2; Writes returned (%d, %v) and (%d, %v)", len(ps[0]), len(ps[1]), len(frames), ns[0], errs[0], ns[1], errs[1])
		return
	}
	for i, f := range frames {
		if !bytes.Equal(f.Data, ps[i]) {
			r.fail("write-payload", "two Writes while a BUFFER progress report arrived during the first: frame %d carries %d bytes %x…, the Write was %d bytes %x…", i, len(f.Data), head(f.Data), len(ps[i]), head(ps[i]))
			return
		}
		if ref := sim.HostDataFrame(false, ps[i]); !bytes.Equal(f.Raw, ref) {
			r.fail("write-frame", "two Writes while a BUFFER progress report arrived during the first: frame %d on the wire %x… differs from prefix+BE length+data+CRC %x…", i, head(f.Raw), head(ref))
			return
		}
		if errs[i] != nil || ns[i] != len(ps[i]) {
			r.fail("write-error", "Write %d of %d bytes (frame accepted by the TNC) returned (%d, %v)", i, len(ps[i]), ns[i], errs[i])
			return
		}
		r.st.bytesOut += len(ps[i])
	}
	r.lastN = frames[1].Seq
	// the replies to both frames are on their way; the command round trip of the next step collects them
	r.call("Version", func() { r.tnc.Version() })
}

func (r *runner) startFlush() {
	if r.flushDone != nil || r.sig != "" {
		return
	}
	fl, ok := r.conn.(interface{ Flush() error })
	if !ok {
		r.fail("no-flush", "connection does not implement Flush")
		return
	}
	r.st.flushes++
	done := make(chan struct{})
	r.flushDone = done
	pendingAtStart := r.s.Outstanding() > 0
	go func() {
		defer close(done)
		sig, msg := harness.Catch(func() { r.flushErr = fl.Flush() })
		ret := r.s.Mark("Flush returned")
		if sig != "" {
			r.flushSig, r.flushMsg = sig, "Flush: "+msg
			return
		}
		// the last BUFFER report the TNC sent before Flush returned must be BUFFER 0
		if pendingAtStart {
			last := ""
			for _, x := range r.s.Records() {
				if x.Seq < ret && x.Dir == "tnc" && strings.HasPrefix(x.Text, "BUFFER ") {
					last = x.Text
				}
			}
			if last != "BUFFER 0" && r.flushErr == nil {
				r.flushSig, r.flushMsg = "flush-early", fmt.Sprintf("Flush returned nil at sequence %d although the TNC's last buffer report before that was %q (no BUFFER 0 since the last write)", ret, last)
			}
		}
	}()
}

func (r *runner) drain() {
	if r.flushDone != nil {
		// give a Flush that (wrongly) does not wait the chance to show it; affects detection only
		select {
		case <-r.flushDone:
		case <-time.After(300 * time.Microsecond):
		}
	}
	if r.s.Outstanding() > 0 {
		r.s.Drain()
	}
}

func (r *runner) finishFlush() {
	if r.flushDone == nil {
		return
	}
	r.drain()
	if !waitDone(r.flushDone) {
		harness.Record("hang:Flush", r.c, "Flush did not return after BUFFER 0")
		harness.ExitHung()
	}
	r.flushDone = nil
	if r.flushSig != "" {
		r.fail(r.flushSig, "%s", r.flushMsg)
	}
}

func (r *runner) step(st Step) {
	switch st.Op {
	case "tnc-data":
		p := content(st.Seed, st.N)
		if st.Typ == "ARQ" {
			if len(r.expect)+len(p) > 1<<20 {
				return
			}
			r.expect = append(r.expect, p...)
			r.frameEnds = append(r.frameEnds, len(r.expect))
			r.st.arqFrames++
			r.st.bytesIn += len(p)
			r.st.maxFrame = max(r.st.maxFrame, len(p))
		} else {
			r.st.otherFrames++
		}
		r.s.SendData(st.Typ, p)
	case "event":
		r.notePTT(st.Text)
		r.st.events++
		r.s.Send(st.Text)
	case "progress":
		if o := r.s.Outstanding(); o > 1 {
			r.s.Progress(max(1, o*st.N/100))
			r.st.events++
		}
	case "write":
		r.write(st)
	case "write-pair":
		r.writePair(st)
	case "read":
		r.readSome(max(1, st.N))
	case "flush-start":
		r.startFlush()
	case "drain":
		r.drain()
	case "flush-wait":
		r.finishFlush()
	}
}

// lineBefore reports whether the simulator sent text before sequence number seq.
func sentBefore(recs []sim.Record, text string, seq int64) bool {
	for _, x := range recs {
		if x.Dir == "tnc" && x.Text == text && x.Seq < seq {
			return true
		}
	}
	return false
}

// end finishes a connected conforming case: Close, or the remote station disconnecting.
func (r *runner) end() {
	r.finishFlush()
	if r.s.Outstanding() > 0 { // Close waits (up to 30 s) for the TX buffer to drain: stay on the fast path
		r.s.Drain()
	}
	if r.sig != "" {
		return
	}
	if r.c.End == "remote-disc" {
		if r.c.TCP {
			r.readAll() // control and data sockets are not ordered relative to each other
		}
		r.s.RemoteDisconnect()
		if r.unread() > 0 {
			r.st.readAfterDisc = true
		}
		r.readAll() // data delivered before the disconnect is still readable
	} else {
		r.readAll()
		if r.sig != "" {
			return
		}
		r.notePTT(r.c.DiscScript...)
		done := make(chan struct{})
		var cerr error
		var csig, cmsg string
		var ret int64
		go func() {
			defer close(done)
			csig, cmsg = harness.Catch(func() { cerr = r.conn.Close() })
			ret = r.s.Mark("Close returned")
		}()
		if r.c.HoldDisc {
			r.st.heldDisc = true
			// the TNC answers DISCONNECT at a later point; wait until it has the command (Close is blocked on us)
			deadline := time.Now().Add(hangLimit)
			for !r.s.DisconnectHeld() && !closed(done) && time.Now().Before(deadline) {
				time.Sleep(50 * time.Microsecond)
			}
			if !closed(done) {
				select { // detection aid only: a Close that does not wait gets the chance to show it
				case <-done:
				case <-time.After(300 * time.Microsecond):
				}
			}
			if closed(done) && csig == "" && cerr == nil && r.s.DisconnectHeld() {
				r.fail("close-early", "Close returned nil before the TNC reported NEWSTATE DISC / DISCONNECTED (transcript: %s)", r.transcript(6))
			}
			r.s.ReleaseDisconnect()
		}
		if !waitDone(done) {
			harness.Record("hang:Close", r.c, "Close did not return after NEWSTATE DISC / DISCONNECTED: "+r.transcript(8)+stacks())
			harness.ExitHung()
		}
		if csig != "" {
			r.fail(csig, "Close: %s", cmsg)
			return
		}
		if r.sig != "" {
			return
		}
		recs := r.s.Records()
		if !has(hostCmds(recs), "DISCONNECT") {
			r.fail("close-no-disconnect", "Close returned %v but the TNC never received DISCONNECT; it received %q", cerr, hostCmds(recs))
			return
		}
		if cerr != nil {
			r.fail("close-error", "the TNC answered DISCONNECT with NEWSTATE DISC, DISCONNECTED but Close returned %v", cerr)
			return
		}
		if !sentBefore(recs, "NEWSTATE DISC", ret) {
			r.fail("close-early", "Close returned nil (sequence %d) before the TNC sent NEWSTATE DISC (transcript: %s)", ret, r.transcript(8))
			return
		}
	}
	if r.sig != "" {
		return
	}
	// the session is over: nothing but EOF may follow the payload stream
	r.call("Read", func() {
		buf := make([]byte, 64)
		n, err := r.conn.Read(buf)
		if n != 0 {
			r.fail("read-stream", "Read after the end of the session returned %d bytes (%x) beyond the %d ARQ payload bytes sent", n, buf[:n], len(r.expect))
		} else if err == nil {
			r.fail("read-empty", "Read after the end of the session returned (0, nil)")
		}
	})
}

// secondSession: the station uses the same TNC for another session (serial mode: one ordered stream, so a
// command round trip is a barrier for everything the TNC sent before it).
func (r *runner) secondSession() {
	c := r.c
	for i := 0; i < c.Stray; i++ {
		r.s.SendData("ARQ", content(c.EarlySeed+2000+uint64(i), 22+i)) // nobody is connected: must be dropped
	}
	r.call("Version", func() { r.tnc.Version() })
	if r.sig != "" {
		return
	}
	var err error
	var conn2 net.Conn
	r.notePTT(c.DialScript...)
	r.call("Dial", func() { conn2, err = r.tnc.Dial(c.Target) })
	if r.sig != "" {
		return
	}
	if err != nil || conn2 == nil {
		r.fail("dial-failed", "second session on the same TNC: the TNC answered ARQCALL with %q but Dial returned %v (transcript: %s)", c.DialScript, err, r.transcript(10))
		return
	}
	r.conn, r.expect, r.got, r.frameEnds = conn2, nil, 0, nil
	r.st.second = true
	for i := 0; i < max(1, c.SecondFrames); i++ {
		r.step(Step{Op: "tnc-data", Typ: "ARQ", N: 24 + 7*i, Seed: c.EarlySeed + 3000 + uint64(i)})
	}
	r.readAll()
	if r.sig == "" {
		r.end()
	}
}

// gid returns the id of the calling goroutine.
func gid() string {
	buf := make([]byte, 64)
	f := strings.Fields(string(buf[:runtime.Stack(buf, false)]))
	if len(f) > 1 {
		return f[1]
	}
	return "?"
}

// waitListener returns once the goroutine started by TNC.Listen (called from goroutine creator) is
// blocked in its select loop, i.e. has registered for control messages. Best effort after 5 s.
func (r *runner) waitListener(creator, state string) bool {
	buf := make([]byte, 4<<20)
	deadline := time.Now().Add(5 * time.Second)
	for time.Now().Before(deadline) {
		for _, g := range strings.Split(string(buf[:runtime.Stack(buf, true)]), "\n\n") {
			if strings.Contains(g, "ardop.(*TNC).Listen.func1") && strings.Contains(g, "in goroutine "+creator+"\n") && strings.Contains(strings.SplitN(g, "\n", 2)[0], state) {
				return true
			}
		}
		time.Sleep(20 * time.Microsecond)
	}
	harness.Label("listener-not-observed:" + state)
	return false
}

// stacks renders the library's goroutines for a hang report.
func stacks() string {
	buf := make([]byte, 1<<20)
	buf = buf[:runtime.Stack(buf, true)]
	var keep []string
	for _, g := range strings.Split(string(buf), "\n\n") {
		if strings.Contains(g, "ardop.decodeTNCStream") && strings.Contains(g, "[chan send") {
			continue // left over from earlier cases (the decoder of a closed TNC has nobody to report to)
		}
		if strings.Contains(g, "wl2k-go/transport/ardop") || strings.Contains(g, "ardopsim") {
			keep = append(keep, g)
		}
	}
	return "\n" + strings.Join(keep, "\n\n")
}

func closed(ch chan struct{}) bool {
	select {
	case <-ch:
		return true
	default:
		return false
	}
}

// teardown closes listener and TNC (still part of the case: PTT and framing verdicts come after it).
func (r *runner) teardown() {
	if r.ln != nil {
		r.call("Listener.Close", func() {
			r.ln.Close()
			r.ln.Accept() // lets the listener goroutine deliver its "closed" notice and end
		})
	}
	if r.tnc != nil {
		var err error
		r.call("TNC.Close", func() { err = r.tnc.Close() })
		if r.c.Family == "conforming" && r.sig == "" {
			if err != nil {
				r.fail("tnc-close-error", "TNC.Close returned %v (transcript: %s)", err, r.transcript(8))
			}
			// TNC.Close waited for the LISTEN echo, which the TNC sent after every event: all PTT requests were dispatched
			got := r.ptt.get()
			if fmt.Sprint(got) != fmt.Sprint(r.pttSent) {
				r.fail("ptt-sequence", "PTT controller saw %v (in the order in which the requests took effect; keying takes %d us), the TNC requested %v", got, r.c.PTTKeyUS, r.pttSent)
			}
			r.checkHostFrames()
		}
	}
}

// malformed: inject the bytes, drop the link, then make every call a caller would still make.
func (r *runner) malformed() {
	c := r.c
	var pend chan struct{}
	waitPend := func() {}
	if c.PendingRead && r.conn != nil {
		pend = make(chan struct{})
		var psig, pmsg string
		go func() {
			defer close(pend)
			psig, pmsg = harness.Catch(func() {
				buf := make([]byte, max(1, firstOr(c.ReadBufs, 16)))
				r.conn.Read(buf)
			})
		}()
		waitPend = func() {
			if !waitDone(pend) {
				harness.Record("hang:Read", c, "a Read that was pending when the TNC link went down never returned")
				harness.ExitHung()
			}
			if psig != "" {
				r.fail(psig, "pending Read: %s", pmsg)
			}
		}
	}
	onData := c.TCP && c.BlobOnData
	if len(c.Blob) > 0 {
		r.s.SendRaw(onData, c.Blob)
	}
	if c.After == "txfail" && !c.TCP && r.conn != nil {
		r.s.BreakTx() // the line dies in the TX direction first: the next host write fails, then reads see EOF
		r.call("Write", func() { r.conn.Write([]byte("x")) })
		r.s.CloseStream(false) // in case the connection was already gone and Write never touched the line
	} else {
		r.s.CloseStream(onData)
	}
	// the library notices EOF and closes its side; every byte sent before has been consumed by then
	if !waitDone(r.s.HostClosed()) {
		harness.Record("hang:link-eof", c, "the library did not close the TNC link within the limit after EOF: "+r.transcript(8)+stacks())
		harness.ExitHung()
	}
	waitPend() // the link is gone: a Read that was pending returns
	if r.conn != nil {
		r.call("Read", func() {
			buf := make([]byte, max(1, firstOr(c.ReadBufs, 16)))
			for i := 0; i < 20000; i++ {
				if _, err := r.conn.Read(buf); err != nil {
					break
				}
			}
		})
		r.call("Write", func() { r.conn.Write([]byte("hello")) })
		if fl, ok := r.conn.(interface{ Flush() error }); ok {
			r.call("Flush", func() { fl.Flush() })
		}
		r.call("Close", func() { r.conn.Close() })
		r.st.postCalls += 4
	}
	if r.ln != nil { // the listener reports the lost TNC (or a connection it had queued) to Accept
		r.call("Accept", func() {
			for i := 0; i < 3; i++ {
				if _, err := r.ln.Accept(); err != nil {
					break
				}
			}
		})
	}
	r.call("TNC.Close", func() { r.tnc.Close() })
	r.call("Dial", func() { r.tnc.Dial(c.Target) })
	r.st.postCalls += 2
}

func firstOr(l []int, d int) int {
	if len(l) > 0 && l[0] > 0 {
		return l[0]
	}
	return d
}

func run(c Case) (sig, msg string, st stats) {
	r := &runner{c: c}
	defer func() {
		if r.s != nil {
			r.s.Shutdown()
		}
	}()
	if !r.open() {
		return r.sig, r.msg, r.st
	}
	if c.Family == "malformed" {
		if c.Connect != "none" && c.Connect != "" {
			if !r.connect() && r.sig != "" {
				return r.sig, r.msg, r.st
			}
		}
		r.malformed()
		return r.sig, r.msg, r.st
	}
	if r.connect() {
		for _, st := range c.Steps {
			if r.sig != "" {
				break
			}
			r.step(st)
		}
		if r.sig == "" {
			r.end()
		}
		if r.sig == "" && c.Second && !c.TCP {
			r.secondSession()
		}
	}
	if r.sig == "" {
		r.teardown()
	}
	return r.sig, r.msg, r.st
}

func account(c Case, st stats, sig string) {
	harness.Eval()
	mode := "serial"
	if c.TCP {
		mode = "tcp"
	}
	harness.Label("family:"+c.Family, "mode:"+mode, "connect:"+c.Connect)
	if len(c.Sched) == 1 && c.Sched[0] == 1 {
		harness.Label("sched:1-byte")
	}
	if c.Family == "malformed" {
		harness.Label("malformed-after:" + c.After)
		for _, k := range strings.Split(c.Shape, "+") {
			harness.Label("shape:" + k)
		}
		if c.PendingRead {
			harness.Label("malformed:pending-read")
		}
		return
	}
	if !st.connected {
		return
	}
	harness.Label("end:" + c.End)
	lab := func(cond bool, name string) {
		if cond {
			harness.Label(name)
		}
	}
	lab(st.arqFrames > 0, "has:arq-frame")
	lab(st.otherFrames > 0, "has:idf-fec-err-frame")
	lab(st.maxFrame >= 65529, "has:arq-frame>=65529")
	lab(st.writes > 0, "has:write")
	lab(st.faultedWrites > 0, "has:crcfault-retransmit")
	lab(st.pairs > 0, "has:write-pair-with-progress-report-during-slow-port-write")
	lab(st.failedWrite > 0, "has:crcfault-x3")
	lab(st.bigWrite, "has:write>65535")
	lab(st.smallBuf, "has:reader-buffer<frame")
	lab(st.early, "has:data-delivered-before-late-Accept")
	lab(st.second, "has:second-session-on-the-same-TNC")
	lab(st.concurrent, "has:commands-from-another-goroutine-during-Write(serial)")
	lab(st.second && (c.Stray > 0 || c.LateARQ > 0), "has:second-session+stray-or-late-ARQ-frames-between-sessions")
	lab(st.flushes > 0, "has:flush")
	lab(st.ptt > 0, "has:ptt")
	lab(st.events > 0, "has:events")
	lab(st.readAfterDisc, "has:read-after-remote-disconnect")
	lab(st.heldDisc, "has:held-disconnect")
	if sig == "" && st.arqFrames > 0 && st.writes > st.failedWrite && (st.faultedWrites > 0 || st.failedWrite > 0 || st.smallBuf || st.bigWrite) {
		harness.Label("non-trivial")
		harness.NonTrivial(harness.Hash(fmt.Sprintf("%+v", c)))
	}
	if harness.WantSample() && st.arqFrames > 0 && st.writes > 0 {
		harness.Sample(map[string]any{"mode": mode, "sched": c.Sched, "connect": c.Connect, "end": c.End, "steps": len(c.Steps), "arq_frames": st.arqFrames,
			"bytes_in": st.bytesIn, "bytes_out": st.bytesOut, "writes": st.writes, "faults": c.Faults, "read_bufs": c.ReadBufs, "reads": st.reads, "ptt": st.ptt})
	}
}

func prop(t *rapid.T) {
	c := genCase(t)
	harness.Begin(c)
	sig, msg, st := run(c)
	if sig != "" && !strings.HasPrefix(sig, "panic") {
		// The library has real-time constants (a listener that does not take a message within 500 ms is
		// dropped, Close gives up after 30 s). On a starved machine they can fire on correct code; a defect
		// reproduces. A verdict other than a panic is therefore confirmed by one re-execution of the case;
		// an unconfirmed one is kept visible in the evidence (class unconfirmed:<sig>).
		sig2, msg2, st2 := run(c)
		if sig2 == "" {
			harness.Label("unconfirmed:" + sig)
			harness.Note("unconfirmed (not reproduced on re-execution): %s: %.300s", sig, msg)
		}
		sig, msg, st = sig2, msg2, st2
	}
	harness.End()
	account(c, st, sig)
	if sig != "" {
		harness.Fail(t, sig, c, "%s", msg)
	}
}

func TestProp(t *testing.T) { rapid.Check(t, prop) }

func TestReplay(t *testing.T) {
	for _, f := range harness.ReplayFiles() {
		var c Case
		if _, err := harness.ReplayCase(f, &c); err != nil {
			t.Fatalf("%s: %v", f, err)
		}
		harness.Begin(c)
		sig, msg, _ := run(c)
		harness.End()
		harness.Eval()
		if sig != "" {
			harness.Fail(t, sig, c, "replay %s: %s", f, msg)
		}
	}
}
