package c14

import (
	"fmt"

	"pgregory.net/rapid"

	"verif/internal/gen"
	"verif/internal/harness"
	sim "verif/internal/ref/ardopsim"
)

var (
	calls  = []string{"LA5NTA", "N0CALL", "W1AW-5", "LE3OF", "K1ABC-10"}
	grids  = []string{"JP20QE", "FN31", "JO59JW12"}
	events = []string{"PTT TRUE", "PTT FALSE", "PTT True", "PTT false", "BUSY TRUE", "BUSY FALSE", "NEWSTATE IRS", "NEWSTATE ISS",
		"NEWSTATE IDLE", "NEWSTATE IRS ", "PENDING", "CANCELPENDING", "STATUS QUEUE COMMAND RECEIVED", "INPUTPEAKS 1021 887", "FREQUENCY 14105000"}
	preEvents = []string{"PTT TRUE", "PTT FALSE", "BUSY TRUE", "BUSY FALSE", "PENDING", "STATUS CONNECTING", "INPUTPEAKS 12 13"}
	readSizes = []int{1, 1, 2, 3, 5, 16, 64, 100, 1000, 4096, 65536, 70000}
)

func frameSize(t *rapid.T, label string) int {
	switch rapid.IntRange(0, 11).Draw(t, label+"_cls") {
	case 0, 1, 2, 3:
		return rapid.IntRange(1, 20).Draw(t, label)
	case 4, 5, 6:
		return rapid.IntRange(20, 300).Draw(t, label)
	case 7, 8:
		return rapid.IntRange(1000, 5000).Draw(t, label)
	case 9:
		return rapid.IntRange(65529, 65532).Draw(t, label) // the 16 bit length limit: 3 type bytes + data
	case 10:
		return rapid.IntRange(5000, 65532).Draw(t, label)
	default:
		return rapid.IntRange(250, 260).Draw(t, label)
	}
}

func writeSize(t *rapid.T) int {
	switch rapid.IntRange(0, 9).Draw(t, "wsize_cls") {
	case 0, 1, 2, 3:
		return rapid.IntRange(1, 100).Draw(t, "wsize")
	case 4, 5:
		return rapid.IntRange(100, 5000).Draw(t, "wsize")
	case 6:
		return rapid.IntRange(65530, 65540).Draw(t, "wsize")
	case 7:
		return rapid.IntRange(65536, 70000).Draw(t, "wsize")
	default:
		return rapid.IntRange(5000, 65535).Draw(t, "wsize")
	}
}

func genCommon(t *rapid.T, c *Case) {
	c.TCP = rapid.IntRange(0, 9).Draw(t, "mode") >= 6
	c.Sched = gen.Schedule(t, "sched")
	c.Mycall = rapid.SampledFrom(calls).Draw(t, "mycall")
	c.Grid = rapid.SampledFrom(grids).Draw(t, "grid")
	c.Target = rapid.SampledFrom(calls).Draw(t, "target")
	c.ReadBufs = rapid.SliceOfN(rapid.SampledFrom(readSizes), 1, 4).Draw(t, "read_bufs")
}

func genConforming(t *rapid.T) Case {
	c := Case{Family: "conforming"}
	genCommon(t, &c)
	if rapid.IntRange(0, 5).Draw(t, "slow_ptt") == 0 {
		c.PTTKeyUS = rapid.SampledFrom([]int{200, 1000, 3000}).Draw(t, "ptt_key_us")
	}
	pre := rapid.SliceOfN(rapid.SampledFrom(preEvents), 0, 5).Draw(t, "pre_events")
	switch k := rapid.IntRange(0, 19).Draw(t, "connect"); {
	case k < 9:
		c.Connect = "dial"
	case k < 12:
		c.Connect = "dialbw"
	case k < 18:
		c.Connect = "listen"
		c.DialScript = pre
		if rapid.IntRange(0, 2).Draw(t, "late_accept") == 0 {
			c.Early = rapid.IntRange(1, 4).Draw(t, "early")
			c.EarlyN = rapid.SampledFrom([]int{1, 5, 64, 500, 3000}).Draw(t, "early_n")
			c.EarlySeed = rapid.Uint64().Draw(t, "early_seed")
		}
	default:
		c.Connect = "dial-fail"
	}
	if (c.Connect == "dial" || c.Connect == "dialbw") && !c.TCP && rapid.IntRange(0, 3).Draw(t, "second") == 0 {
		c.Second = true
		c.LateARQ = rapid.SampledFrom([]int{0, 0, 1, 2}).Draw(t, "late_arq")
		c.NoDisconnected = rapid.IntRange(0, 2).Draw(t, "no_disconnected") == 0
		c.Stray = rapid.SampledFrom([]int{0, 1, 1, 3}).Draw(t, "stray")
		c.SecondFrames = rapid.IntRange(1, 3).Draw(t, "second_frames")
		c.EarlySeed = rapid.Uint64().Draw(t, "second_seed")
	}
	switch c.Connect {
	case "dial", "dialbw":
		c.DialScript = append(append([]string{"NEWSTATE ISS"}, pre...), fmt.Sprintf("CONNECTED %s 500", c.Target))
	case "dial-fail":
		c.DialScript = append(append([]string{"NEWSTATE ISS"}, pre...), "STATUS CONNECT TO "+c.Target+" FAILED!", "NEWSTATE DISC", "DISCONNECTED")
		return c
	}
	n := rapid.IntRange(0, 14).Draw(t, "nsteps")
	for i := 0; i < n; i++ {
		var st Step
		switch k := rapid.IntRange(0, 99).Draw(t, "op"); {
		case k < 30:
			st = Step{Op: "tnc-data", Typ: "ARQ", N: frameSize(t, "arq"), Seed: rapid.Uint64().Draw(t, "seed")}
		case k < 36:
			st = Step{Op: "tnc-data", Typ: rapid.SampledFrom([]string{"IDF", "FEC", "ERR"}).Draw(t, "typ"), N: rapid.IntRange(0, 60).Draw(t, "other_n"), Seed: rapid.Uint64().Draw(t, "seed")}
		case k < 52:
			st = Step{Op: "event", Text: rapid.SampledFrom(events).Draw(t, "event")}
		case k < 72:
			st = Step{Op: "write", N: writeSize(t), Seed: rapid.Uint64().Draw(t, "seed")}
			if !c.TCP && rapid.IntRange(0, 3).Draw(t, "concurrent") == 0 {
				st.Concurrent = true
				if c.SlowWriteUS == 0 {
					c.SlowWriteUS = rapid.SampledFrom([]int{1, 60, 200, 500}).Draw(t, "slow_write_us")
				}
			}
			f := 0
			if !c.TCP {
				f = rapid.SampledFrom([]int{0, 0, 0, 0, 1, 1, 2, 2, 3}).Draw(t, "faults")
			}
			c.Faults = append(c.Faults, f)
		case k < 75 && !c.TCP:
			st = Step{Op: "write-pair", N: rapid.SampledFrom([]int{8, 40, 300, 2000}).Draw(t, "pair_n1"), N2: rapid.SampledFrom([]int{8, 40, 300, 2000}).Draw(t, "pair_n2"), Seed: rapid.Uint64().Draw(t, "seed")}
			if c.SlowWriteUS == 0 {
				c.SlowWriteUS = rapid.SampledFrom([]int{60, 200, 500}).Draw(t, "slow_write_us")
			}
			c.Faults = append(c.Faults, 0, 0)
		case k < 86:
			st = Step{Op: "read", N: rapid.IntRange(1, 40).Draw(t, "nreads")}
		case k < 90:
			st = Step{Op: "progress", N: rapid.IntRange(1, 99).Draw(t, "pct")}
		case k < 95:
			st = Step{Op: "flush-start"}
		case k < 98:
			st = Step{Op: "drain"}
		default:
			st = Step{Op: "flush-wait"}
		}
		c.Steps = append(c.Steps, st)
	}
	if rapid.IntRange(0, 3).Draw(t, "end") == 0 {
		c.End = "remote-disc"
	} else {
		c.End = "close"
		c.HoldDisc = rapid.Bool().Draw(t, "hold_disc")
		c.DiscScript = rapid.SliceOfN(rapid.SampledFrom([]string{"PTT TRUE", "PTT FALSE", "STATUS END", "BUFFER 0"}), 0, 3).Draw(t, "disc_script")
	}
	return c
}

// IDF frames carry a station id; FEC/ERR arbitrary bytes.
var _ = sim.CtrlFrame

var (
	bareCmds = []string{"PTT", "BUFFER", "LISTEN", "NEWSTATE", "STATE", "BUSY", "FAULT", "CONNECTED", "MYCALL", "TARGET", "ARQTIMEOUT",
		"CODEC", "GRIDSQUARE", "VERSION", "STATUS", "ARQBW", "MYAUX", "FREQUENCY", "DRIVELEVEL", "CWID", "AUTOBREAK", "CAPTURE", "PLAYBACK",
		"TWOTONETEST", "FSKONLY", "CATPUREDEVICES", "PLAYBACKDEVICES"}
	oddCmds = []string{"BUFFER abc", "BUFFER -1", "BUFFER 99999999999999999999", "BUFFER now", "NEWSTATE FOO", "NEWSTATE now", "STATE ???", "PTT maybe",
		"PTT now", "ARQTIMEOUT x", "FREQUENCY 1e9", "", " ", "now", "now now", "\x00", "CONNECTED  ", "CONNECTED X", "TARGET ", "ptt", "buffer",
		"FOO", "FOO BAR", "DISCONNECTED now", "CRCFAULT", "c:PTT TRUE", "NEWSTATE DISC", "DISCONNECTED", "BUSY", "INPUTPEAKS"}
)

// piece draws one malformed fragment for the control/serial stream (data=false) or the TCP data stream.
func piece(t *rapid.T, tcp, data bool) ([]byte, string) {
	dframe := func(declared int, body []byte, good bool) []byte { return sim.RawDataFrame(tcp, declared, body, good) }
	body := func(n int) []byte {
		b := content(rapid.Uint64().Draw(t, "bseed"), n)
		if n >= 3 && rapid.IntRange(0, 3).Draw(t, "arqtype") > 0 {
			copy(b, "ARQ")
		}
		return b
	}
	kinds := []string{"random", "bare-cmd", "odd-param", "short-d", "huge-d", "lying-d", "bad-crc", "unknown-type", "valid"}
	if tcp && data {
		kinds = []string{"random", "short-d", "huge-d", "lying-d", "unknown-type", "valid"}
	} else if tcp {
		kinds = []string{"random", "bare-cmd", "odd-param", "valid"}
	}
	switch k := rapid.SampledFrom(kinds).Draw(t, "shape"); k {
	case "random":
		return rapid.SliceOfN(rapid.Byte(), 1, 200).Draw(t, "random"), k
	case "bare-cmd":
		return sim.CtrlFrame(tcp, rapid.SampledFrom(bareCmds).Draw(t, "bare")), k
	case "odd-param":
		return sim.CtrlFrame(tcp, rapid.SampledFrom(oddCmds).Draw(t, "odd")), k
	case "short-d":
		n := rapid.IntRange(0, 4).Draw(t, "short")
		return dframe(n, body(n), true), k
	case "huge-d":
		n := rapid.IntRange(65533, 65535).Draw(t, "huge")
		return dframe(n, body(n), true), k
	case "lying-d":
		return dframe(rapid.SampledFrom([]int{0, 1, 2, 5, 100, 40000, 65535}).Draw(t, "declared"), body(rapid.IntRange(0, 120).Draw(t, "actual")), rapid.Bool().Draw(t, "goodcrc")), k
	case "bad-crc":
		if rapid.Bool().Draw(t, "crc_on_cmd") {
			f := sim.CtrlFrame(false, rapid.SampledFrom(events).Draw(t, "ev"))
			f[len(f)-1] ^= 0x01
			return f, k
		}
		n := rapid.IntRange(3, 50).Draw(t, "n")
		return dframe(n, body(n), false), k
	case "unknown-type":
		n := rapid.IntRange(3, 40).Draw(t, "n")
		b := body(n)
		copy(b, rapid.SampledFrom([]string{"XYZ", "arq", "\x00\x00\x00", "ID "}).Draw(t, "type"))
		return dframe(n, b, true), k
	default:
		if data || (!tcp && rapid.Bool().Draw(t, "valid_d")) {
			return sim.DataFrame(tcp, "ARQ", body(rapid.IntRange(1, 80).Draw(t, "n"))), "valid"
		}
		return sim.CtrlFrame(tcp, rapid.SampledFrom(events).Draw(t, "ev")), "valid"
	}
}

func genMalformed(t *rapid.T) Case {
	c := Case{Family: "malformed"}
	genCommon(t, &c)
	switch k := rapid.IntRange(0, 9).Draw(t, "stage"); {
	case k < 3:
		c.Connect = "none"
	case k < 8:
		c.Connect = "dial"
		c.DialScript = []string{"NEWSTATE ISS", fmt.Sprintf("CONNECTED %s 500", c.Target)}
	default:
		c.Connect = "listen"
	}
	c.BlobOnData = c.TCP && rapid.Bool().Draw(t, "on_data")
	n := rapid.IntRange(0, 4).Draw(t, "pieces")
	for i := 0; i < n; i++ {
		p, k := piece(t, c.TCP, c.BlobOnData)
		c.Blob = append(c.Blob, p...)
		if c.Shape != "" {
			c.Shape += "+"
		}
		c.Shape += k
	}
	if len(c.Blob) > 0 && rapid.IntRange(0, 3).Draw(t, "truncate") == 0 { // mid-frame EOF
		c.Blob = c.Blob[:rapid.IntRange(0, len(c.Blob)-1).Draw(t, "cut")]
		c.Shape += "+cut"
	}
	if c.Shape == "" {
		c.Shape = "eof-only"
	}
	c.After = "eof"
	if !c.TCP && c.Connect != "none" && rapid.IntRange(0, 5).Draw(t, "txfail") == 0 {
		// The line dies in the TX direction while a Write is in progress. Nothing else is injected: a CRCFAULT
		// that makes Write retransmit at the very moment the TNC shuts its channels is a real-time race
		// inside the library (send on a channel being closed) that no schedule of ours can order.
		c.After, c.Blob, c.Shape = "txfail", nil, "txfail-only"
		harness.Excluded("malformed bytes combined with a TX-side link failure during Write")
	}
	c.PendingRead = c.Connect != "none" && rapid.Bool().Draw(t, "pending_read")
	return c
}

func genCase(t *rapid.T) Case {
	if rapid.IntRange(0, 3).Draw(t, "family") == 0 {
		return genMalformed(t)
	}
	return genConforming(t)
}
