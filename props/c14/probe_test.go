package c14

import (
	"fmt"
	"os"
	"os/exec"
	"regexp"
	"strings"
	"sync"
	"testing"
	"time"

	"github.com/la5nta/wl2k-go/transport/ardop"

	sim "verif/internal/ref/ardopsim"
)

// knownLinkLossSig: the TNC link is lost while an API call is in flight. TNC.close() closes the channels
// the calls send on (tnc.out, tnc.dataOut) and stops the broadcaster the calls register with, without any
// synchronisation with those calls: depending on scheduling a conn.Write that overlaps the loss panics with
// "send on closed channel" or blocks for ever (registering with the stopped broadcaster). The package's own
// comments name the race (tnc.go: "bug(martinhpedersen): Data race in tnc.Close can cause panic"). The
// generated families never overlap a loss of the link with a call in flight (counted under
// excluded_by_construction); this probe re-demonstrates the finding.
const knownLinkLossSig = "ardop-link-loss-during-call"

// TestKnownProbe runs the attempts in a child process: a panic in one of the library's own goroutines
// would take the process down, which is a reproduction too and must not end the replay tier.
func TestKnownProbe(t *testing.T) {
	if os.Getenv("VERIF_C14_PROBE_CHILD") == "1" {
		probeChild()
		return
	}
	cmd := exec.Command(os.Args[0], "-test.run=^TestKnownProbe$", "-test.count=1", "-test.timeout=300s")
	for _, e := range os.Environ() {
		if strings.HasPrefix(e, "VERIF_FRAGMENT=") || strings.HasPrefix(e, "VERIF_CASEFILE=") || strings.HasPrefix(e, "VERIF_FAILDIR=") {
			continue // the child must not write the parent's evidence fragment
		}
		cmd.Env = append(cmd.Env, e)
	}
	cmd.Env = append(cmd.Env, "VERIF_C14_PROBE_CHILD=1")
	out, err := cmd.CombinedOutput()
	if m := regexp.MustCompile(`PROBE-RESULT attempts=(\d+) panics=(\d+) stuck=(\d+)`).FindStringSubmatch(string(out)); m != nil {
		fmt.Printf("KNOWN-PROBE sig=%s reproduced=%v attempts=%s write-panicked(send on closed channel)=%s write-never-returned=%s\n", knownLinkLossSig, m[2] != "0" || m[3] != "0", m[1], m[2], m[3])
		return
	}
	if err != nil && (strings.Contains(string(out), "closed channel") || strings.Contains(string(out), "panic:")) {
		fmt.Printf("KNOWN-PROBE sig=%s reproduced=true the probe process died: %s\n", knownLinkLossSig, firstLine(string(out), "panic:"))
		return
	}
	fmt.Printf("KNOWN-PROBE sig=%s reproduced=false (probe could not run: %v)\n", knownLinkLossSig, err)
}

func firstLine(s, with string) string {
	for _, l := range strings.Split(s, "\n") {
		if strings.Contains(l, with) {
			return l
		}
	}
	return ""
}

// probeChild: dial, start three Writes, cut the whole TNC link a few microseconds later; until the first
// reproduction or 2500 attempts (about 1 % of the attempts reproduce).
func probeChild() {
	panics, stuck, n := 0, 0, 0
	var mu sync.Mutex
	for n = 0; n < 2500 && panics == 0 && stuck == 0; n++ {
		s := sim.NewSerial(sim.Config{DialScript: []string{"NEWSTATE ISS", "CONNECTED N0CALL 500"}, Faults: []int{2, 2, 2, 2}})
		tnc, err := ardop.Open(s.Host(), "LA5NTA", "JO29")
		if err != nil {
			s.Shutdown()
			continue
		}
		conn, err := tnc.Dial("N0CALL")
		if err != nil {
			s.Shutdown()
			continue
		}
		done := make(chan struct{})
		go func() {
			defer close(done)
			defer func() {
				if r := recover(); r != nil {
					mu.Lock()
					panics++
					mu.Unlock()
				}
			}()
			for k := 0; k < 3; k++ {
				if _, err := conn.Write(make([]byte, 200)); err != nil {
					return
				}
			}
		}()
		time.Sleep(time.Duration(n%40) * 5 * time.Microsecond)
		s.CloseLink()
		select {
		case <-done:
		case <-time.After(20 * time.Second): // the link is gone: a Write that has not returned by now never will
			stuck++
		}
		s.Shutdown()
	}
	mu.Lock()
	fmt.Printf("PROBE-RESULT attempts=%d panics=%d stuck=%d\n", n, panics, stuck)
	mu.Unlock()
}
