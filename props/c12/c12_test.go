// C12 — the mailbox never touches files outside its own directory.
package c12

import (
	"encoding/base64"
	"bytes"
	"crypto/sha256"
	"fmt"
	"io/fs"
	"os"
	"path"
	"path/filepath"
	"sort"
	"strings"
	"syscall"
	"testing"
	"time"
	"unicode/utf8"

	"pgregory.net/rapid"

	"verif/internal/harness"
	"verif/internal/mboxrun"
)

func TestMain(m *testing.M) {
	harness.Property("C12",
		"case = one operation {ProcessInbound of a parsed message carrying the Mid header, GetInboundAnswer of a proposal, SetDeferred, SetSent with a file pre-placed where the joined path resolves} x one identifier from a hostile grammar (.., ../x, ../../x, a/../../b, absolute, out/../.., empty, 1..4 KiB, non-ASCII, NUL, backslashes, trailing dots/slashes, random mixtures of such segments; a fifth of them wrapped as RFC 2047 Q/B encoded-words, percent-encoded, or written with characters that become separators when only their low byte is kept (U+012E, U+012F ...) or compatibility forms are folded (U+FF0E, U+FF0F); a twelfth of the ProcessInbound messages carry the identifier in padded field names ('Mid : harmless' followed by 'MID : hostile', no ordinary Mid field); benign alphanumerics as control) x header-name spelling x extra hostile header x send-only; run by the mboxop helper (chroot'ed into the scratch tree) in a fresh tree base/s/d1/d2/mbox with decoy files and sibling directories on every level. Oracle: recursive snapshot (path, type, mode, size, mtime, inode, SHA-256, link target) of everything except mbox/ is identical before and after. Non-trivial = identifier with a separator, a dot-dot segment, an absolute or the empty form, or an encoded form of a hostile identifier, or a handler that was pointed at the mailbox after serving a neighbouring one; distinct by hash(op, identifier, header spelling, extra header).",
		"the helper's exit status and the operation's error value are not judged (SetSent ends the process when the rename fails)",
		"identifiers reach ProcessInbound the way a remote's do: as the Mid field of message bytes parsed by fbb.Message.ReadFrom; bytes that do not parse are counted (helper:parse_err) and judged like any other case",
	)
	harness.Main(m)
}

// Case holds every choice of one case. MID is a byte string (it need not be UTF-8).
type Case struct {
	Op       string `json:"op"` // process_inbound | get_inbound_answer | set_deferred | set_sent
	MID      []byte `json:"mid"`
	MidKey   string `json:"mid_key"`   // spelling of the header field name
	Extra    string `json:"extra"`     // additional header line(s) of the received message ("" = none)
	SendOnly bool   `json:"send_only"` // handler mode
	Family   string `json:"family"`
	// Repoint: one long-lived handler; it was created and prepared for the neighbouring mailbox mbox2 and then
	// pointed at the mailbox under test through its exported MBoxPath field (and prepared again)
	Repoint bool `json:"repoint,omitempty"`
	// Batch (process_inbound): the hostile message is handed over together with a harmless one that follows it in
	// the same ProcessInbound call (the handler interface takes a batch)
	Batch bool `json:"batch,omitempty"`
}

const mboxRel = "s/d1/d2/mbox"

var past = time.Date(2001, 2, 3, 4, 5, 6, 0, time.UTC)

// buildTree lays out base/{x.b2f,decoy.b2f,s/{...,d1/{...,d2/{...,in/,out/,sent/,mbox2/,mbox/{in,out,sent,archive}}},sib/}}.
func buildTree(base string) error {
	dirs := []string{"s", "s/sib", "s/d1", "s/d1/d2", "s/d1/d2/in", "s/d1/d2/out", "s/d1/d2/sent", "s/d1/d2/mbox2", "s/d1/d2/mbox2/in", "s/d1/d2/mbox2/out", "s/d1/d2/mbox2/sent", "s/d1/d2/mbox2/archive",
		mboxRel, mboxRel + "/in", mboxRel + "/out", mboxRel + "/sent", mboxRel + "/archive", "etc", "tmp"}
	for _, d := range dirs {
		if err := os.MkdirAll(filepath.Join(base, d), 0o755); err != nil {
			return err
		}
	}
	for _, d := range []string{"", "s", "s/sib", "s/d1", "s/d1/d2", "s/d1/d2/in", "s/d1/d2/out", "s/d1/d2/sent", "s/d1/d2/mbox2", "s/d1/d2/mbox2/in", "etc", "tmp"} {
		for _, n := range []string{"x.b2f", "decoy.b2f", "escaped.txt", "A1.b2f"} {
			if err := os.WriteFile(filepath.Join(base, d, n), []byte("decoy "+d+"/"+n+"\n"), 0o644); err != nil {
				return err
			}
		}
	}
	// a stored message, so that "already received" and the rename have something real to act on
	for _, f := range []string{"in", "out"} {
		if err := os.WriteFile(filepath.Join(base, mboxRel, f, "A1.b2f"), message([]byte("A1"), "Mid", ""), 0o644); err != nil {
			return err
		}
	}
	return nil
}

// age sets every mtime outside the mailbox to a fixed past instant: any later write shows.
func age(base string) error {
	skip := filepath.Join(base, mboxRel)
	return filepath.WalkDir(base, func(p string, d fs.DirEntry, err error) error {
		if err != nil {
			return err
		}
		if p == skip {
			return fs.SkipDir
		}
		return os.Chtimes(p, past, past)
	})
}

type entry struct {
	Mode  fs.FileMode
	Size  int64
	Mtime int64
	Ino   uint64
	Sum   [32]byte
	Link  string
}

func snapshot(base string) (map[string]entry, error) {
	skip := filepath.Join(base, mboxRel)
	snap := map[string]entry{}
	err := filepath.WalkDir(base, func(p string, d fs.DirEntry, err error) error {
		if err != nil {
			return err
		}
		if p == skip {
			return fs.SkipDir
		}
		st, err := os.Lstat(p)
		if err != nil {
			return err
		}
		e := entry{Mode: st.Mode(), Mtime: st.ModTime().UnixNano()}
		if sys, ok := st.Sys().(*syscall.Stat_t); ok {
			e.Ino = sys.Ino
		}
		switch {
		case st.Mode().IsRegular():
			b, err := os.ReadFile(p)
			if err != nil {
				return err
			}
			e.Size, e.Sum = st.Size(), sha256.Sum256(b)
		case st.Mode()&fs.ModeSymlink != 0:
			e.Link, _ = os.Readlink(p)
		}
		rel, _ := filepath.Rel(base, p)
		snap[rel] = e
		return nil
	})
	return snap, err
}

func diff(a, b map[string]entry) []string {
	var out []string
	for p, ea := range a {
		eb, ok := b[p]
		switch {
		case !ok:
			out = append(out, fmt.Sprintf("deleted %q", p))
		case ea != eb:
			what := []string{}
			if ea.Mode != eb.Mode {
				what = append(what, fmt.Sprintf("mode %v->%v", ea.Mode, eb.Mode))
			}
			if ea.Size != eb.Size {
				what = append(what, fmt.Sprintf("size %d->%d", ea.Size, eb.Size))
			}
			if ea.Sum != eb.Sum {
				what = append(what, "content")
			}
			if ea.Ino != eb.Ino {
				what = append(what, "replaced (inode)")
			}
			if ea.Mtime != eb.Mtime {
				what = append(what, "mtime")
			}
			if ea.Link != eb.Link {
				what = append(what, "link target")
			}
			out = append(out, fmt.Sprintf("modified %q (%s)", p, strings.Join(what, ", ")))
		}
	}
	for p, eb := range b {
		if _, ok := a[p]; !ok {
			out = append(out, fmt.Sprintf("created %q (%v, %d bytes)", p, eb.Mode, eb.Size))
		}
	}
	sort.Strings(out)
	return out
}

// message renders the bytes a remote station sends: the identifier is the value of the Mid field.
func message(mid []byte, key, extra string) []byte {
	var b bytes.Buffer
	b.WriteString(key + ": ")
	b.Write(mid)
	b.WriteString("\r\nBody: 7\r\nDate: 2024/05/06 07:08\r\nFrom: LA1B\r\nMbo: LA1B\r\nSubject: test\r\nTo: N0CALL\r\nType: Private\r\n")
	if extra != "" {
		b.WriteString(extra + "\r\n")
	}
	b.WriteString("\r\nhello\r\n")
	return b.Bytes()
}

var chrootOK = os.Geteuid() == 0

// insideBase reports whether the paths the handler can build from mid stay (lexically) inside
// base — only needed when the helper cannot be confined by chroot.
func insideBase(base string, mid []byte) bool {
	for _, f := range []string{"/in/", "/out/", "/sent/"} {
		p := path.Join(base, mboxRel, f, string(mid)+".b2f")
		if !strings.HasPrefix(p, base+"/") {
			return false
		}
	}
	return true
}

// preplace puts a file where path.Join(mbox, "/out/", MID+".b2f") resolves, so that SetSent's
// rename has a source. Nothing is placed when the name cannot exist or an entry is already there.
func preplace(base string, mid []byte) (placed string) {
	view := "/" + mboxRel // the mailbox path as the helper sees it
	if !chrootOK {
		view = filepath.Join(base, mboxRel)
	}
	p := path.Join(view, "/out/", string(mid)+".b2f")
	if chrootOK {
		p = filepath.Join(base, p)
	}
	// a handler that reduces the identifier to its last element on one side of the rename must
	// find a source, too
	if last := path.Base(string(mid)); last != "." && last != "/" && last != ".." && len(last) <= 200 && bytes.IndexByte(mid, 0) < 0 {
		q := filepath.Join(base, mboxRel, "out", last+".b2f")
		if _, err := os.Lstat(q); err != nil {
			os.WriteFile(q, message([]byte(last), "Mid", ""), 0o644)
		}
	}
	if bytes.IndexByte(mid, 0) >= 0 || !strings.HasPrefix(p, base+"/") {
		return ""
	}
	for _, seg := range strings.Split(p, "/") {
		if len(seg) > 255 {
			return ""
		}
	}
	if _, err := os.Lstat(p); err == nil {
		return "existing:" + p
	}
	if os.MkdirAll(filepath.Dir(p), 0o755) != nil {
		return ""
	}
	if os.WriteFile(p, message(mid, "Mid", ""), 0o644) != nil {
		return ""
	}
	return p
}

type outcome struct {
	res     mboxrun.Result
	placed  string
	escapes bool // the joined path lies (lexically) outside the mailbox
	skipped bool
}

func lexicalEscape(mid []byte) bool {
	for _, f := range []string{"/in/", "/out/", "/sent/"} {
		p := path.Join("/r/mbox", f, string(mid)+".b2f")
		if !strings.HasPrefix(p, "/r/mbox/") {
			return true
		}
	}
	return false
}

func run(c Case) (sig, msg string, o outcome) {
	o.escapes = lexicalEscape(c.MID)
	base, err := mboxrun.TempBase("verif-c12-")
	if err != nil {
		panic("harness: " + err.Error())
	}
	defer os.RemoveAll(base)
	if !chrootOK && !insideBase(base, c.MID) {
		harness.Excluded("path leaves the scratch tree and the helper cannot chroot (not root)")
		o.skipped = true
		return
	}
	if err := buildTree(base); err != nil {
		panic("harness: " + err.Error())
	}
	spec := mboxrun.Spec{Mbox: filepath.Join(base, mboxRel), SendOnly: c.SendOnly, Prepare: true, Op: c.Op, MID: string(c.MID)}
	if chrootOK {
		spec.Chroot, spec.Mbox = base, "/"+mboxRel
	}
	if c.Repoint {
		// the handler served the neighbouring mailbox mbox2 (complete, so preparing it changes nothing) before
		// it was pointed at the mailbox under test; mbox2 is outside the configured directory now
		spec.FirstMbox = filepath.Join(filepath.Dir(spec.Mbox), "mbox2")
	}
	switch c.Op {
	case "process_inbound":
		key := c.MidKey
		if key == "" {
			key = "Mid"
		}
		spec.Msg = message(c.MID, key, c.Extra)
		if c.Batch {
			spec.Msg2 = message([]byte("BATCHOK00001"), "Mid", "")
		}
	case "set_sent":
		o.placed = preplace(base, c.MID)
	}
	specPath := filepath.Join(base, "spec.json")
	if err := mboxrun.WriteSpec(specPath, spec); err != nil {
		panic("harness: " + err.Error())
	}
	if err := age(base); err != nil {
		panic("harness: " + err.Error())
	}
	before, err := snapshot(base)
	if err != nil {
		panic("harness: " + err.Error())
	}
	o.res, err = mboxrun.Run(specPath)
	if err != nil {
		panic("harness: " + err.Error())
	}
	after, err := snapshot(base)
	if err != nil {
		panic("harness: " + err.Error())
	}
	if d := diff(before, after); len(d) > 0 {
		if len(d) > 6 {
			d = append(d[:6], fmt.Sprintf("... %d more", len(d)-6))
		}
		return "outside-mailbox:" + c.Op, fmt.Sprintf("%s with identifier %q (mailbox %s, helper %s) changed files outside the mailbox directory: %s",
			c.Op, clip(string(c.MID)), mboxRel, helperClass(o.res), strings.Join(d, "; ")), o
	}
	return "", "", o
}

func helperClass(r mboxrun.Result) string {
	switch {
	case r.ParseErr != "":
		return "parse_err"
	case r.Panic != "":
		return "panic"
	case !r.Returned:
		return fmt.Sprintf("died(exit %d)", r.Exit)
	case r.Err != "":
		return "returned_error"
	}
	return "returned_ok"
}

// ---- generator ---------------------------------------------------------------------------------

// named are the forms the property's quantifier lists; TestExhaustive runs each with every operation.
var named = []string{
	"..", "../x", "../../x", "../../escaped", "../../../x", "../../../../x", "../../../../../x", "../../../../../../../../x",
	"a/../../b", "a/../../../x", "/etc/x", "/x", "/tmp/../x", "//x", "out/../..", "out/../../x", "../out/x", "../sent/A1", "../../in/x", "../../mbox2/in/x",
	"", " ", ".", "/", "./x", "x/", "x/.", "x/..", "x.", "x..", "../", "../x/", "..\\..\\x", "..\\x", "a\\..\\..\\b", "../../x\x00", "\x00", "x\x00/../../y",
	"../../æøå", "æ/../../x", "\xff\xfe/../../x", "../../decoy", "../../A1", "A1", "A1/../../../x", "ABCDEF123456", "x",
	"=?utf-8?q?..=2F..=2Fescaped?=", "=?utf-8?b?Li4vLi4vZXNjYXBlZA==?=", "=?iso-8859-1?q?=2E=2E=2F=2E=2E=2Fx?=", "=?utf-8?q?=2Fs=2Fx?=",
	"../../x.b2f", "../../escaped.txt\x00", "....//....//x", "..//..//x", ".../x", "%2e%2e/%2e%2e/x", "..%2f..%2fx",
}

var segs = []string{"..", "..", "..", ".", "x", "escaped", "decoy", "new", "A1", "out", "in", "sent", "archive", "mbox", "mbox2", "d1", "d2", "s", "sib", "etc", "tmp", "",
	"a\\b", "..\\..", "æø", "\xff", "n\x00", "x.", "x..", "...", " ", "x.b2f"}

func genMID(t *rapid.T) ([]byte, string) {
	switch rapid.IntRange(0, 9).Draw(t, "family") {
	case 0:
		return []byte(rapid.StringMatching(`[A-Z0-9]{1,12}`).Draw(t, "benign")), "benign"
	case 1, 2:
		return []byte(rapid.SampledFrom(named).Draw(t, "named")), "named"
	case 3:
		// long: 1..4 KiB
		n := rapid.IntRange(1024, 4096).Draw(t, "len")
		switch rapid.IntRange(0, 3).Draw(t, "longkind") {
		case 0:
			return bytes.Repeat([]byte("A"), n), "long"
		case 1:
			return append(bytes.Repeat([]byte("../"), n/3), 'x'), "long"
		case 2:
			return append([]byte("../../"), bytes.Repeat([]byte("B"), n)...), "long"
		default:
			return append(bytes.Repeat([]byte("a/"), n/2), []byte("../../x")...), "long"
		}
	case 4:
		// climb k levels then descend to a target
		k := rapid.IntRange(1, 9).Draw(t, "up")
		tail := rapid.SampledFrom([]string{"x", "escaped", "decoy", "new", "A1", "in/x", "out/new", "sib/x", "d1/x", "s/d1/x", "mbox2/in/x", "etc/x", "tmp/new"}).Draw(t, "tail")
		pre := rapid.SampledFrom([]string{"", "", "a/", "out/", "/", "./", "a/b/../"}).Draw(t, "pre")
		if pre == "a/" || pre == "out/" {
			k++
		}
		return []byte(pre + strings.Repeat("../", k) + tail), "climb"
	case 5:
		p := rapid.SampledFrom([]string{"/", "//", "/s/", "/etc/", "/tmp/", "/s/d1/d2/", "/s/d1/d2/mbox2/in/"}).Draw(t, "root")
		return []byte(p + rapid.SampledFrom([]string{"x", "new", "decoy", "escaped", "../x"}).Draw(t, "leaf")), "absolute"
	default:
		n := rapid.IntRange(1, 8).Draw(t, "nseg")
		parts := make([]string, n)
		for i := range parts {
			parts[i] = rapid.SampledFrom(segs).Draw(t, "seg")
		}
		sep := rapid.SampledFrom([]string{"/", "/", "/", "//", "\\", "/./"}).Draw(t, "sep")
		s := strings.Join(parts, sep)
		if rapid.IntRange(0, 5).Draw(t, "lead") == 0 {
			s = "/" + s
		}
		switch rapid.IntRange(0, 7).Draw(t, "trail") {
		case 0:
			s += "/"
		case 1:
			s += "."
		case 2:
			s += "/.."
		}
		return []byte(s), "mixture"
	}
}

// encodeMID wraps raw in an encoding that contains no path separator itself.
func encodeMID(raw []byte, kind string) []byte {
	switch kind {
	case "q", "q-latin1":
		cs := "utf-8"
		if kind == "q-latin1" {
			cs = "iso-8859-1"
		}
		var b strings.Builder
		b.WriteString("=?" + cs + "?q?")
		for _, c := range raw {
			if (c >= 'A' && c <= 'Z') || (c >= 'a' && c <= 'z') || (c >= '0' && c <= '9') || c == '.' {
				b.WriteByte(c)
			} else {
				fmt.Fprintf(&b, "=%02X", c)
			}
		}
		b.WriteString("?=")
		return []byte(b.String())
	case "b":
		return []byte("=?utf-8?b?" + base64.StdEncoding.EncodeToString(raw) + "?=")
	case "rune-low-byte", "rune-low-byte-2", "fullwidth":
		// characters that turn into '.', '/' or '\\' when a conversion keeps only their low byte (U+012E, U+012F,
		// U+015C / U+022E ...) or folds compatibility forms (U+FF0E, U+FF0F, U+FF3C)
		var b strings.Builder
		for _, c := range raw {
			switch {
			case c != '/' && c != '.' && c != '\\':
				b.WriteByte(c)
			case kind == "rune-low-byte":
				b.WriteRune(0x100 + rune(c))
			case kind == "rune-low-byte-2":
				b.WriteRune(0x200 + rune(c))
			default:
				b.WriteRune(0xFF00 + rune(c) - 0x20)
			}
		}
		return []byte(b.String())
	default:
		var b strings.Builder
		for _, c := range raw {
			if c == '/' || c == '.' || c == '\\' || c < 0x20 || c >= 0x7f {
				fmt.Fprintf(&b, "%%%02x", c)
			} else {
				b.WriteByte(c)
			}
		}
		return []byte(b.String())
	}
}

var ops = []string{"process_inbound", "get_inbound_answer", "set_deferred", "set_sent"}

func genCase(t *rapid.T) Case {
	c := Case{MidKey: "Mid"}
	c.Op = rapid.SampledFrom([]string{"process_inbound", "process_inbound", "process_inbound", "get_inbound_answer", "set_deferred", "set_sent", "set_sent"}).Draw(t, "op")
	c.MID, c.Family = genMID(t)
	// a long harmless prefix in front of the hostile part (a check that looks at a prefix or a truncated copy)
	if c.Family != "benign" && c.Family != "long" && len(c.MID) > 0 && c.MID[0] != '/' && rapid.IntRange(0, 5).Draw(t, "prefixed") == 0 {
		n := rapid.SampledFrom([]int{15, 16, 31, 32, 63, 64, 65, 127, 128, 200, 255, 256, 1000}).Draw(t, "prefix_len")
		c.MID = append(append(bytes.Repeat([]byte("A"), n), '/'), c.MID...)
		c.Family += "+long-harmless-prefix"
	}
	c.Repoint = rapid.IntRange(0, 7).Draw(t, "repoint") == 0
	c.Batch = c.Op == "process_inbound" && rapid.IntRange(0, 3).Draw(t, "batch") == 0
	// the same hostile identifiers in the encodings a "helpful" decoding step would undo before the name is
	// used (the mailbox decodes RFC 2047 words in subjects and attachment names, URLs are percent-decoded)
	if c.Family != "benign" && c.Family != "long" && rapid.IntRange(0, 4).Draw(t, "encoded") == 0 {
		c.MID = encodeMID(c.MID, rapid.SampledFrom([]string{"q", "q-latin1", "b", "b", "pct", "rune-low-byte", "rune-low-byte", "rune-low-byte-2", "fullwidth"}).Draw(t, "encoding"))
		c.Family += "+encoded"
	}
	if c.Op == "process_inbound" {
		c.MidKey = rapid.SampledFrom([]string{"Mid", "Mid", "Mid", "MID", "mid", "mId"}).Draw(t, "midkey")
		c.Extra = rapid.SampledFrom([]string{"", "", "", "X-FilePath: ../../x.b2f", "X-FilePath: /s/x.b2f", "X-Unread: ../../x", "File: 0 ../../x", "X-P2POnly: true", "Mid: ../../x", "Subject: ../../x"}).Draw(t, "extra")
	}
	if c.Op == "process_inbound" && rapid.IntRange(0, 11).Draw(t, "padded_names") == 0 {
		// field names with padding ("Mid : x"), which the MIME header reader keeps as written: the message has no
		// ordinary Mid field but two padded ones, the first harmless, the second the hostile identifier
		c.MidKey = rapid.SampledFrom([]string{"Mid ", "mid ", "Mid  "}).Draw(t, "padded_key") + ": GOODMID12345\r\n" + rapid.SampledFrom([]string{"MID ", "MId ", "mID  "}).Draw(t, "padded_key2")
		c.Family += "+padded-field-names"
	}
	c.SendOnly = rapid.IntRange(0, 5).Draw(t, "sendonly") == 0
	return c
}

func midClasses(mid []byte) (cls []string, nontrivial bool) {
	s := string(mid)
	add := func(c string, nt bool) {
		cls = append(cls, "mid:"+c)
		nontrivial = nontrivial || nt
	}
	if s == "" {
		add("empty", true)
	}
	if strings.Contains(s, "/") {
		add("separator", true)
	}
	for _, seg := range strings.FieldsFunc(s, func(r rune) bool { return r == '/' || r == '\\' }) {
		if seg == ".." {
			add("dotdot", true)
			break
		}
	}
	if strings.HasPrefix(s, "/") {
		add("absolute", true)
	}
	if strings.Contains(s, "\\") {
		add("backslash", false)
	}
	if strings.Contains(s, "\x00") {
		add("nul", false)
	}
	if len(s) >= 1024 {
		add("long", false)
	}
	if !utf8.ValidString(s) {
		add("invalid-utf8", false)
	} else if strings.IndexFunc(s, func(r rune) bool { return r > 127 }) >= 0 {
		add("non-ascii", false)
	}
	if strings.HasSuffix(s, ".") || strings.HasSuffix(s, "/") {
		add("trailing-dot-or-slash", false)
	}
	if len(cls) == 0 {
		add("plain", false)
	}
	return
}

func account(c Case, o outcome) {
	if o.skipped {
		return
	}
	harness.Eval()
	cls, nt := midClasses(c.MID)
	if c.Batch {
		harness.Label("process_inbound:batch(hostile message followed by a harmless one)")
	}
	if c.Repoint {
		harness.Label("history:handler-repointed-from-a-neighbouring-mailbox")
		cls, nt = append(cls, "repointed-handler"), true
	}
	if strings.HasSuffix(c.Family, "+encoded") {
		// an encoded identifier is non-trivial when the identifier it encodes is (it was drawn from the hostile grammar)
		cls, nt = append(cls, "encoded(rfc2047-word or percent)"), true
	}
	harness.Label(cls...)
	harness.Label("op:"+c.Op, "family:"+c.Family, "helper:"+strings.SplitN(helperClass(o.res), "(", 2)[0])
	if o.escapes {
		harness.Label("joined-path-outside-mailbox", "joined-path-outside-mailbox:"+c.Op)
	}
	if c.Op == "set_sent" {
		switch {
		case strings.HasPrefix(o.placed, "existing:"):
			harness.Label("set_sent:source-is-decoy")
		case o.placed != "":
			harness.Label("set_sent:source-preplaced")
		default:
			harness.Label("set_sent:no-source")
		}
	}
	if nt {
		harness.NonTrivial(harness.Hash(c.Op, c.MID, c.MidKey, c.Extra))
	}
	if harness.WantSample() && o.escapes {
		harness.Sample(map[string]any{"op": c.Op, "mid": clip(fmt.Sprintf("%q", c.MID)), "mid_len": len(c.MID), "family": c.Family, "helper": helperClass(o.res), "err": clip(o.res.Err), "answer": o.res.Answer})
	}
}

func clip(s string) string {
	if len(s) > 120 {
		return s[:120] + "..."
	}
	return s
}

func execute(t harness.TB, c Case) {
	harness.Begin(c)
	var o outcome
	var sig, msg string
	psig, pmsg := harness.Catch(func() { sig, msg, o = run(c) })
	harness.End()
	if psig != "" {
		// a panic here is the harness' own (scratch tree, helper start): not a verdict on the library
		t.Fatalf("harness problem: %s", pmsg)
	}
	account(c, o)
	if sig != "" {
		harness.Fail(t, sig, c, "%s", msg)
	}
}

func TestProp(t *testing.T) {
	rapid.Check(t, func(t *rapid.T) { execute(t, genCase(t)) })
}

// TestExhaustive runs every named form of the quantifier with every operation (both modes for the answer).
func TestExhaustive(t *testing.T) {
	idx := 0
	for _, m := range named {
		for _, op := range ops {
			for _, so := range []bool{false, true} {
				if so && op != "get_inbound_answer" {
					continue
				}
				idx++
				if !harness.Mine(idx) {
					continue
				}
				execute(t, Case{Op: op, MID: []byte(m), MidKey: "Mid", SendOnly: so, Family: "named"})
			}
		}
	}
	if i, _ := harness.Shard(); i == 0 {
		harness.ExhaustiveSpace(fmt.Sprintf("the %d named identifier forms x 4 operations (+ send-only answers): %d cases", len(named), idx))
	}
}

func TestReplay(t *testing.T) {
	for _, f := range harness.ReplayFiles() {
		var c Case
		if _, err := harness.ReplayCase(f, &c); err != nil {
			t.Fatalf("%s: %v", f, err)
		}
		execute(t, c)
	}
}
