// C01 — a completed exchange delivers every accepted message exactly once, intact.
package c01

import (
	"fmt"
	"testing"

	"pgregory.net/rapid"

	"verif/internal/harness"
	"verif/internal/scen"
)

func TestMain(m *testing.M) {
	harness.Property("C01",
		"scenario = two real Sessions over an in-memory duplex stream: per side callsign, master/slave, MOTD lines (outside the reserved line grammar), user agent, batched/unbatched handler, 0..N valid messages (MID 1-12 alnum, Latin-1 subjects with/without precedence markers up to the 128 byte limit, text or arbitrary-byte bodies, 0..3 attachments of arbitrary bytes with Latin-1 names), per-MID answer policy accept/reject/defer, read schedule per direction (1-byte reads included), GZIP_EXPERIMENT on/off. Oracle = history invariant over both handlers' callback logs. Non-trivial = at least one message transferred; distinct by hash of the scenario.",
		"the mailbox handler is the harness's recording in-memory handler whose GetOutbound returns queued-sent-deferred(this session)",
		"GZIP_EXPERIMENT is process-global, so both sides share the setting within a case; mixed settings are exercised against the independent peer in C05",
	)
	harness.Main(m)
}

type Case struct {
	Sc scen.Scenario `json:"scenario"`
}

type info struct{ transferred, blocks2, both, attach, nonascii int }

func run(c Case) (sig, msg string, nt info) {
	sa, err := scen.NewStation(c.Sc.A)
	if err != nil {
		return "harness-generator", err.Error(), nt
	}
	sb, err := scen.NewStation(c.Sc.B)
	if err != nil {
		return "harness-generator", err.Error(), nt
	}
	out := scen.RunSession(c.Sc, sa, sb, scen.Hooks{})
	if out.Hung {
		harness.Record("hang:exchange-"+out.HangKind, c, "Exchange did not return within the hang limit")
		harness.ExitHung()
	}
	for _, r := range []struct {
		n string
		r scen.SessionResult
	}{{"A", out.A}, {"B", out.B}} {
		if r.r.PSig != "" {
			return r.r.PSig, r.n + ": " + r.r.Panic, nt
		}
	}
	if out.EndA.Deadlocked() {
		return "deadlock", fmt.Sprintf("both sessions blocked reading with nothing in flight (A err=%v, B err=%v)", out.A.Err, out.B.Err), nt
	}
	if out.A.Err != nil || out.B.Err != nil {
		return "exchange-error", fmt.Sprintf("Exchange returned errors on a reliable stream: A=%v B=%v", out.A.Err, out.B.Err), nt
	}
	if s, m := scen.CheckDirection("A->B", sa, sb, out.A.Stats, out.B.Stats); s != "" {
		return s, m, nt
	}
	if s, m := scen.CheckDirection("B->A", sb, sa, out.B.Stats, out.A.Stats); s != "" {
		return s, m, nt
	}
	if out.EndA.CloseCount() < 1 || out.EndB.CloseCount() < 1 {
		return "conn-not-closed", fmt.Sprintf("Close calls: A=%d B=%d", out.EndA.CloseCount(), out.EndB.CloseCount()), nt
	}
	nt.transferred = len(out.A.Stats.Sent) + len(out.B.Stats.Sent)
	if len(out.A.Stats.Sent) > 0 && len(out.B.Stats.Sent) > 0 {
		nt.both = 1
	}
	return "", "", nt
}

func account(c Case, nt info) {
	harness.Eval()
	if nt.transferred > 0 {
		harness.NonTrivial(harness.Hash(fmt.Sprintf("%+v", c.Sc)))
		harness.Label("transferred>=1")
	}
	if nt.both > 0 {
		harness.Label("both-directions")
	}
	if len(c.Sc.A.Queue) > 5 || len(c.Sc.B.Queue) > 5 {
		harness.Label("blocks>=2")
	}
	if len(c.Sc.A.Queue) > 5 && len(c.Sc.B.Queue) > 5 {
		harness.Label("blocks>=2-both-sides")
	}
	if c.Sc.Gzip {
		harness.Label("gzip")
	}
	if c.Sc.A.Batched || c.Sc.B.Batched {
		harness.Label("batched")
	}
	one := func(s []int) bool { return len(s) == 1 && s[0] == 1 }
	if one(c.Sc.A.Sched) || one(c.Sc.B.Sched) {
		harness.Label("1-byte-reads")
	}
	hasAtt, nonASCII, raw, defer_, reject := false, false, false, false, false
	for _, side := range []scen.Side{c.Sc.A, c.Sc.B} {
		for _, m := range side.Queue {
			if len(m.Files) > 0 {
				hasAtt = true
			}
			for _, r := range m.Subject {
				if r > 127 {
					nonASCII = true
				}
			}
			if m.RawBody != nil {
				raw = true
			}
		}
		for _, p := range side.Policy {
			if p == "=" {
				defer_ = true
			}
			if p == "-" {
				reject = true
			}
		}
	}
	if hasAtt {
		harness.Label("attachment")
	}
	if nonASCII {
		harness.Label("non-ascii-subject")
	}
	if raw {
		harness.Label("arbitrary-body-bytes")
	}
	if defer_ {
		harness.Label("policy:defer")
	}
	if reject {
		harness.Label("policy:reject")
	}
	if len(c.Sc.A.MOTD)+len(c.Sc.B.MOTD) > 0 {
		harness.Label("motd")
	}
	if harness.WantSample() && nt.transferred > 1 {
		harness.Sample(summary(c))
	}
}

func summary(c Case) any {
	side := func(s scen.Side) any {
		var q []string
		for _, m := range s.Queue {
			body := len(m.Body)
			if m.RawBody != nil {
				body = len(m.RawBody)
			}
			q = append(q, fmt.Sprintf("%s subj=%q body=%dB files=%d", m.MID, m.Subject, body, len(m.Files)))
		}
		return map[string]any{"call": s.Call, "queue": q, "policy": s.Policy, "sched": s.Sched, "batched": s.Batched, "motd": s.MOTD}
	}
	return map[string]any{"a_is_master": c.Sc.AIsMaster, "gzip": c.Sc.Gzip, "A": side(c.Sc.A), "B": side(c.Sc.B)}
}

func TestProp(t *testing.T) {
	maxMsgs := harness.Scale(12, 16)
	big := harness.Scale(32<<10, 256<<10)
	rapid.Check(t, func(t *rapid.T) {
		c := Case{Sc: scen.Gen(t, maxMsgs, big)}
		harness.Begin(c)
		sig, msg, nt := run(c)
		harness.End()
		account(c, nt)
		if sig != "" {
			harness.Fail(t, sig, c, "%s", msg)
		}
	})
}

func TestReplay(t *testing.T) {
	for _, f := range harness.ReplayFiles() {
		var c Case
		if _, err := harness.ReplayCase(f, &c); err != nil {
			t.Fatalf("%s: %v", f, err)
		}
		sig, msg, _ := run(c)
		harness.Eval()
		if sig != "" {
			harness.Fail(t, sig, c, "replay %s: %s", f, msg)
		}
	}
}
