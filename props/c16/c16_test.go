// C16 — secure-login answers follow the Winlink algorithm, never exposing the password.
package c16

import (
	"bytes"
	"errors"
	"fmt"
	"io"
	"log"
	"math"
	"strings"
	"sync"
	"testing"
	"time"

	"github.com/la5nta/wl2k-go/fbb"
	"pgregory.net/rapid"

	"verif/internal/gen"
	"verif/internal/harness"
	"verif/internal/ref/secure"
	"verif/internal/stream"
)

func TestMain(m *testing.M) {
	harness.Property("C16",
		"scripted master (MOTD, SID, ;PQ: <challenge>, prompt, then FQ after the slave's FF) against a real slave Session; challenge = digits (typical), printable ASCII without edge spaces, 1..32 chars, or (an eighth) a byte string with Latin-1 / high bytes and NULs inside; password = any bytes without CR (0..24, the empty password included), in a third of the cases extended by a searched suffix so that the 30 bit value has fewer than 8 decimal digits (zero padding corner); 0..4 auxiliary addresses each with password / empty password / callback error; main callback ok / error / not registered; in an eighth of the ok cases 2..8 sessions of the process (challenge and passwords made distinct per session) run 1..12 exchanges each at the same time and every exchange is judged on its own, binary built with the race detector. Oracle = independent formulation of the algorithm (internal/ref/secure, pinned by the published vector). Non-trivial = at least one auxiliary address; distinct by hash of the case.",
		"the password-on-the-wire clause is only checked for passwords of >= 6 bytes that are not a substring of the legitimately expected output",
	)
	harness.Main(m)
}

type Aux struct {
	Addr     string `json:"addr"`
	Password []byte `json:"password"`
	Err      bool   `json:"err"`
}

type Case struct {
	Call      string   `json:"call"`
	Target    string   `json:"target"`
	Locator   string   `json:"locator"`
	Challenge string   `json:"challenge"`
	Password  []byte   `json:"password"`
	Callback  string   `json:"callback"` // ok | error | none
	Aux       []Aux    `json:"aux"`
	MOTD      []string `json:"motd"`
	PQFirst   bool     `json:"pq_before_sid"`
	Sched     []int    `json:"sched"`
	// Retry (callback ok only): before the judged exchange the same Session runs an exchange against another
	// challenge during which the password callback fails for every address (the user aborts the prompt); that
	// exchange must fail without a ;PR, and the judged exchange afterwards must be answered as if nothing had
	// happened (the callback is asked again).
	Retry      bool   `json:"retry,omitempty"`
	Challenge2 string `json:"challenge2,omitempty"`
	// PwLen / ChLen > len: the password / challenge is repeated cyclically to that many bytes (long pass-phrases)
	PwLen int `json:"pw_len,omitempty"`
	ChLen int `json:"ch_len,omitempty"`
	// Parallel > 1: that many sessions of one process (a gateway that logs in on several links) answer their
	// challenges at the same time: session i gets the challenge with i appended and the password with i appended,
	// each runs Rounds exchanges, every one is judged on its own; the binary is built with the race detector.
	Parallel int `json:"parallel,omitempty"`
	Rounds   int `json:"rounds,omitempty"`
	// ChRaw: the challenge as bytes when it is not valid UTF-8 text (Latin-1 letters, an interior NUL); replaces Challenge
	ChRaw []byte `json:"ch_raw,omitempty"`
}

func cyc(unit []byte, n int) []byte {
	if n <= len(unit) || len(unit) == 0 {
		return unit
	}
	out := make([]byte, n)
	for i := 0; i < n; i += copy(out[i:], unit) {
	}
	return out
}

// lookup is what the password callback answers for addr in case c (shared by callback and expectation).
func lookup(c Case, addr string) (pw []byte, fails bool) {
	if addr == fbb.AddressFromString(c.Call).Addr {
		return c.Password, c.Callback == "error"
	}
	for _, a := range c.Aux {
		if fbb.AddressFromString(a.Addr).Addr == addr {
			return a.Password, a.Err
		}
	}
	return nil, false
}

var discard = log.New(io.Discard, "", 0)

func run(c Case) (sig, msg string) {
	if c.Parallel <= 1 {
		return runOne(c)
	}
	type res struct{ sig, msg string }
	out := make([]res, c.Parallel)
	var wg sync.WaitGroup
	start := make(chan struct{})
	for i := 0; i < c.Parallel; i++ {
		ci := c
		ci.Parallel, ci.Retry = 0, false
		ci.Challenge = fmt.Sprintf("%s%d", c.Challenge, i)
		ci.Password = append(append([]byte{}, c.Password...), byte('0'+i))
		ci.Aux = append([]Aux{}, c.Aux...)
		for k := range ci.Aux {
			if len(ci.Aux[k].Password) > 0 {
				ci.Aux[k].Password = append(append([]byte{}, ci.Aux[k].Password...), byte('a'+i))
			}
		}
		wg.Add(1)
		go func(i int, ci Case) {
			defer wg.Done()
			<-start
			for r := 0; r < max(c.Rounds, 1) && out[i].sig == ""; r++ {
				out[i].sig, out[i].msg = runOne(ci)
			}
		}(i, ci)
	}
	close(start)
	wg.Wait()
	for i, r := range out {
		if r.sig != "" {
			return "concurrent:" + r.sig, fmt.Sprintf("session %d of %d that log in at the same time: %s", i+1, c.Parallel, r.msg)
		}
	}
	return "", ""
}

func runOne(c Case) (sig, msg string) {
	if len(c.ChRaw) > 0 {
		c.Challenge = string(c.ChRaw)
	}
	c.Password = cyc(c.Password, c.PwLen)
	if ch := cyc([]byte(c.Challenge), c.ChLen); len(ch) > 0 {
		if ch[len(ch)-1] == ' ' || ch[len(ch)-1] == 0 {
			ch[len(ch)-1] = '#' // the domain is challenges without edge spaces or NULs (the line reader trims them)
		}
		c.Challenge = string(ch)
	}
	var script bytes.Buffer
	for _, m := range c.MOTD {
		script.WriteString(m + "\r")
	}
	if c.PQFirst {
		script.WriteString(";PQ: " + c.Challenge + "\r[WL2K-5.0-B2FWIHJM$]\r")
	} else {
		script.WriteString("[WL2K-5.0-B2FWIHJM$]\r;PQ: " + c.Challenge + "\r")
	}
	script.WriteString("CMS via test >\r")
	script.WriteString("FQ\r")
	conn := stream.NewScripted(script.Bytes(), c.Sched)
	s := fbb.NewSession(c.Call, c.Target, c.Locator, nil)
	s.SetLogger(discard)
	for _, a := range c.Aux {
		s.AddAuxiliaryAddress(fbb.AddressFromString(a.Addr))
	}
	cbErr := errors.New("user aborted password prompt")
	aborting := false // the user aborts every password prompt (first exchange of a Retry case)
	if c.Callback != "none" {
		s.SetSecureLoginHandleFunc(func(addr fbb.Address) (string, error) {
			pw, fails := lookup(c, addr.Addr)
			if fails || aborting {
				return "", cbErr
			}
			return string(pw), nil
		})
	}
	var xerr error
	var psig, pmsg string
	if c.Retry && c.Callback == "ok" {
		aborting = true
		first := stream.NewScripted([]byte("[WL2K-5.0-B2FWIHJM$]\r;PQ: "+c.Challenge2+"\rCMS via test >\rFQ\r"), c.Sched)
		var ferr error
		hung, kind := harness.Watch(60*time.Second, func() {
			psig, pmsg = harness.Catch(func() { _, ferr = s.Exchange(first) })
		})
		if hung {
			harness.Record("hang:exchange-"+kind, c, "Exchange did not return")
			harness.ExitHung()
		}
		if psig != "" {
			return psig, pmsg
		}
		if ferr == nil || bytes.Contains(first.Out, []byte(";PR")) {
			return "callback-error-ignored", fmt.Sprintf("first exchange of a retry case: the password callback failed but Exchange returned %v and wrote %q", ferr, first.Out)
		}
		aborting = false
	}
	hung, kind := harness.Watch(60*time.Second, func() {
		psig, pmsg = harness.Catch(func() { _, xerr = s.Exchange(conn) })
	})
	if hung {
		harness.Record("hang:exchange-"+kind, c, "Exchange did not return")
		harness.ExitHung()
	}
	if psig != "" {
		return psig, pmsg
	}
	out := string(conn.Out)
	lines := strings.Split(out, "\r")
	hasPR := false
	for _, l := range lines {
		if strings.HasPrefix(l, ";PR") {
			hasPR = true
		}
	}
	switch c.Callback {
	case "none":
		if xerr == nil {
			return "no-callback-accepted", "a ;PQ challenge without a registered password callback did not fail the handshake"
		}
		if hasPR {
			return "pr-without-callback", fmt.Sprintf("a ;PR line was sent although no callback is registered: %q", out)
		}
		return "", ""
	case "error":
		if xerr == nil {
			return "callback-error-ignored", "the password callback failed but Exchange returned nil"
		}
		if hasPR {
			return "pr-after-callback-error", fmt.Sprintf("a ;PR line was sent although the callback failed: %q", out)
		}
		return "", ""
	}
	if xerr != nil {
		return "exchange-error", fmt.Sprintf("Exchange failed: %v (written %q)", xerr, out)
	}
	// expected handshake
	fw := ";FW: " + fbb.AddressFromString(c.Call).Addr
	for _, a := range c.Aux {
		addr := fbb.AddressFromString(a.Addr).Addr
		if pw, fails := lookup(c, addr); !fails && len(pw) > 0 {
			fw += " " + addr + "|" + secure.Response(c.Challenge, string(pw))
		} else {
			fw += " " + addr
		}
	}
	want := []string{fw, "[wl2kgo-0.1a-B2FHM$]", ";PR: " + secure.Response(c.Challenge, string(c.Password)),
		fmt.Sprintf("; %s DE %s (%s)", strings.ToUpper(c.Target), strings.ToUpper(c.Call), c.Locator), "FF", ""}
	if len(lines) != len(want) {
		return "handshake-lines", fmt.Sprintf("slave wrote %q, expected lines %q", out, want)
	}
	for i := range want {
		if lines[i] != want[i] {
			sig := "handshake-lines"
			if i == 2 {
				sig = "wrong-response"
			} else if i == 0 {
				sig = "wrong-fw-line"
			}
			return sig, fmt.Sprintf("line %d: got %q, expected %q (challenge %q, password % x)", i, lines[i], want[i], c.Challenge, c.Password)
		}
	}
	// the password itself never appears on the wire
	all := append([][]byte{c.Password}, nil...)
	for _, a := range c.Aux {
		all = append(all, a.Password)
	}
	expected := strings.Join(want, "\r")
	for _, pw := range all {
		if len(pw) >= 6 && !strings.Contains(expected, string(pw)) && bytes.Contains(conn.Out, pw) {
			return "password-on-the-wire", fmt.Sprintf("password % x appears in the bytes written", pw)
		}
	}
	return "", ""
}

// smallValueSuffix searches a printable suffix that makes the 30 bit value short (leading zeros).
func smallValueSuffix(challenge string, pw []byte, digits int) []byte {
	for i := 0; i < 200000; i++ {
		cand := append(append([]byte(nil), pw...), []byte(fmt.Sprintf("~%d", i))...)
		// the whole 30 bit value is short (not only its last eight digits): the number has to be zero padded
		if v := secure.Value(challenge, string(cand)); v < uint32(math.Pow10(digits)) {
			return cand
		}
	}
	return pw
}

func genPassword(t *rapid.T, label string) []byte {
	switch rapid.IntRange(0, 3).Draw(t, label+"_kind") {
	case 3: // the empty password is a password too (for an auxiliary address it means "unknown")
		return []byte{}
	case 0:
		return []byte(rapid.StringMatching(`[A-Za-z0-9]{1,12}`).Draw(t, label))
	case 1:
		return []byte(rapid.StringMatching(`[ -~]{1,24}`).Draw(t, label))
	default:
		b := rapid.SliceOfN(rapid.Byte(), 1, 24).Draw(t, label)
		for i := range b {
			if b[i] == '\r' {
				b[i] = '\n'
			}
		}
		return b
	}
}

func genCase(t *rapid.T) Case {
	c := Case{Call: rapid.SampledFrom([]string{"LA5NTA", "n0call", "W1AW-5", "LA1B-10"}).Draw(t, "call"), Target: rapid.SampledFrom([]string{"LA1B-10", "wl2k", "N0CALL"}).Draw(t, "target"),
		Locator: rapid.SampledFrom([]string{"JO29PJ", "", "JP20qe"}).Draw(t, "loc"), Sched: gen.Schedule(t, "sched"), PQFirst: rapid.Bool().Draw(t, "pqfirst")}
	if rapid.IntRange(0, 2).Draw(t, "chkind") > 0 {
		c.Challenge = rapid.StringMatching(`[0-9]{1,10}`).Draw(t, "challenge")
	} else {
		c.Challenge = rapid.StringMatching(`[!-~]([ -~]{0,30}[!-~])?`).Draw(t, "challenge")
	}
	if rapid.IntRange(0, 7).Draw(t, "ch_bytes") == 0 {
		// a challenge is a byte string: Latin-1 / arbitrary high bytes and NULs inside it (no CR or LF, and a printable
		// ASCII character at both ends, because the line reader trims blanks and NUL padding)
		mid := rapid.SliceOfN(rapid.SampledFrom([]byte{0, 0x80, 0x85, 0xa0, 0xc3, 0xe5, 0xe6, 0xf8, 0xff, 'a', '7', ' '}), 1, 12).Draw(t, "ch_mid")
		c.ChRaw = append(append([]byte{byte(rapid.IntRange('!', '~').Draw(t, "ch_first"))}, mid...), byte(rapid.IntRange('!', '~').Draw(t, "ch_last")))
		c.Challenge = string(c.ChRaw)
	}
	c.Password = genPassword(t, "password")
	if rapid.IntRange(0, 2).Draw(t, "small") == 0 {
		c.Password = smallValueSuffix(c.Challenge, c.Password, rapid.IntRange(5, 7).Draw(t, "digits"))
	}
	// long pass-phrases and challenges: lengths around 56/57 (64 bytes with an 8 digit challenge), 64, 128, and beyond
	if len(c.Password) > 0 && rapid.IntRange(0, 5).Draw(t, "pw_long") == 0 {
		c.PwLen = rapid.SampledFrom([]int{40, 55, 56, 57, 58, 63, 64, 65, 100, 119, 120, 121, 127, 128, 129, 300, 4096}).Draw(t, "pw_len")
	}
	if rapid.IntRange(0, 9).Draw(t, "ch_long") == 0 {
		c.ChLen = rapid.SampledFrom([]int{32, 56, 64, 65, 128, 129, 300}).Draw(t, "ch_len")
	}
	c.Callback = rapid.SampledFrom([]string{"ok", "ok", "ok", "ok", "error", "none"}).Draw(t, "callback")
	if c.Callback == "ok" && rapid.IntRange(0, 3).Draw(t, "retry") == 0 {
		c.Retry = true
		c.Challenge2 = rapid.StringMatching(`[0-9]{8}`).Draw(t, "challenge2")
	}
	naux := rapid.SampledFrom([]int{0, 1, 1, 2, 3, 4}).Draw(t, "naux")
	pool := []string{"LA9XYZ", "EMCOMM-1", "TAC1", "N0AUX", "SK0QO", "tac2"}
	for i := 0; i < naux; i++ {
		a := Aux{Addr: pool[(i+rapid.IntRange(0, 5).Draw(t, "auxoff"))%len(pool)]}
		dup := false
		for _, b := range c.Aux {
			if strings.EqualFold(b.Addr, a.Addr) {
				dup = true
			}
		}
		if dup || strings.EqualFold(a.Addr, c.Call) {
			continue
		}
		switch rapid.IntRange(0, 3).Draw(t, "auxkind") {
		case 0:
			a.Err = true
		case 1: // empty password
		default:
			a.Password = genPassword(t, "auxpw")
			if rapid.IntRange(0, 3).Draw(t, "auxsmall") == 0 {
				a.Password = smallValueSuffix(c.Challenge, a.Password, 6)
			}
		}
		c.Aux = append(c.Aux, a)
	}
	if rapid.IntRange(0, 5).Draw(t, "own_aux") == 0 {
		// the station's own call is also listed as an auxiliary address (the callback answers it like the primary)
		own := Aux{Addr: c.Call, Password: c.Password, Err: c.Callback == "error"}
		k := rapid.IntRange(0, len(c.Aux)).Draw(t, "own_pos")
		c.Aux = append(c.Aux[:k:k], append([]Aux{own}, c.Aux[k:]...)...)
	}
	for i := rapid.IntRange(0, 2).Draw(t, "nmotd"); i > 0; i-- {
		c.MOTD = append(c.MOTD, rapid.StringMatching(`[A-Za-z0-9*][ -=?-~]{0,40}[A-Za-z0-9.]`).Draw(t, "motd"))
	}
	if c.Callback == "ok" && !c.Retry && rapid.IntRange(0, 7).Draw(t, "parallel") == 0 {
		c.Parallel = rapid.IntRange(2, 8).Draw(t, "sessions")
		c.Rounds = rapid.IntRange(1, 12).Draw(t, "rounds")
	}
	return c
}

func TestProp(t *testing.T) {
	rapid.Check(t, func(t *rapid.T) {
		c := genCase(t)
		sig, msg := run(c)
		harness.Eval()
		harness.Label("callback:" + c.Callback)
		if c.Retry {
			harness.Label("history:retry-after-aborted-password-prompt")
		}
		if c.Parallel > 1 {
			harness.Label("concurrent-sessions-in-one-process")
		}
		if c.PwLen > 56 || c.ChLen > 56 {
			harness.Label("long-credentials(challenge+password > 64 bytes)")
		}
		for _, a := range c.Aux {
			if strings.EqualFold(a.Addr, c.Call) {
				harness.Label("own-call-also-auxiliary")
			}
		}
		if len(c.Aux) > 0 {
			harness.NonTrivial(harness.Hash(fmt.Sprintf("%+v", c)))
			harness.Label("aux>=1")
		}
		if c.Callback == "ok" {
			r := secure.Response(c.Challenge, string(c.Password))
			if r[0] == '0' {
				harness.Label("response-has-leading-zero")
			}
		}
		if len(c.ChRaw) > 0 {
			harness.Label("challenge:bytes(not UTF-8 text / NUL inside)")
		}
		nonDigit := strings.Trim(c.Challenge, "0123456789") != ""
		if nonDigit {
			harness.Label("challenge:non-digit")
		}
		if harness.WantSample() && len(c.Aux) > 1 && c.Callback == "ok" {
			harness.Sample(map[string]any{"call": c.Call, "challenge": c.Challenge, "password_hex": fmt.Sprintf("%x", c.Password), "aux": c.Aux, "expected_pr": secure.Response(c.Challenge, string(c.Password))})
		}
		if sig != "" {
			harness.Fail(t, sig, c, "%s", msg)
		}
	})
}

func TestReplay(t *testing.T) {
	for _, f := range harness.ReplayFiles() {
		var c Case
		if _, err := harness.ReplayCase(f, &c); err != nil {
			t.Fatalf("%s: %v", f, err)
		}
		sig, msg := run(c)
		harness.Eval()
		if sig != "" {
			harness.Fail(t, sig, c, "replay %s: %s", f, msg)
		}
	}
}
