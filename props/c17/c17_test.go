// C17 — transfer progress reporting is race-free and well-formed.
package c17

import (
	"bytes"
	"fmt"
	"net"
	"sync"
	"testing"
	"time"

	"github.com/la5nta/wl2k-go/fbb"
	"pgregory.net/rapid"

	"verif/internal/gen"
	"verif/internal/harness"
	"verif/internal/msggen"
	"verif/internal/scen"
	"verif/internal/stream"
)

func TestMain(m *testing.M) {
	harness.Property("C17",
		"race-detector build; scenario = messages with compressed sizes 200 B..60 KiB transferred between two real Sessions with a StatusUpdater installed on both sides, transport pacing drawn per write from 0 to 400 ms (so the 250 ms reporter ticks 0..n times), transports with and without TxBufferLen/Flush (modem models: a quarter, half or all of the written bytes queued until Flush; the buffer query answers at once or after 30..240 ms); in a fifth of the cases the receiving station's answer is rewritten in transit to an offset accept (FS !n), so that the sender performs a resumed transfer. Oracle: no data race report whose stack contains a wl2k-go frame (driver parses the race detector output), and per transferred message and side every Status names the proposal, 0 <= BytesTransferred <= BytesTotal == compressed size, exactly one Done and it is the last. Non-trivial = at least one non-final report was delivered during a transfer; distinct by hash(scenario, pacing).",
		"the final Done report is asynchronous: the harness waits up to 30 s for it after Exchange returns (a missing report after 30 s is a violation: normal latency is microseconds)",
		"race freedom is decided by the Go race detector on the executed interleavings only",
	)
	harness.Main(m)
}

type Case struct {
	Sc     scen.Scenario `json:"scenario"`
	PaceA  []int         `json:"pace_a_ms"`
	PaceB  []int         `json:"pace_b_ms"`
	ModemA bool          `json:"modem_a"`
	ModemB bool          `json:"modem_b"`
	// part of the written bytes the modem reports as still queued, in quarters (0 = 2 = half; 4 = nothing
	// leaves the modem before Flush, so the queue always exceeds the message bytes handed over so far)
	QueueA int `json:"queue_a_quarters,omitempty"`
	QueueB int `json:"queue_b_quarters,omitempty"`
	// FlushA/FlushB > 0 (and no modem on that side): the transport implements Flush only (no TxBufferLen), and a
	// Flush takes that many milliseconds
	FlushA int `json:"flush_a_ms,omitempty"`
	FlushB int `json:"flush_b_ms,omitempty"`
	// how long the modem takes to answer TxBufferLen (ms)
	QueryA int `json:"query_a_ms,omitempty"`
	QueryB int `json:"query_b_ms,omitempty"`
	// ResumeAt > 0 (A has exactly one message for B, B none): B's answer "FS +" is rewritten in transit to
	// "FS !<ResumeAt>", i.e. the receiving station asks for a resumed transfer from that offset (legal B2F that
	// the library's own receiving side never produces). Only A's reports are judged: B, which did not ask for
	// an offset, rejects the resumed frame and both Exchange calls fail, which is not this property's business.
	ResumeAt int `json:"resume_at,omitempty"`
}

type rec struct {
	mu  sync.Mutex
	all []fbb.Status
}

func (r *rec) UpdateStatus(s fbb.Status) {
	r.mu.Lock()
	r.all = append(r.all, s)
	r.mu.Unlock()
}

func (r *rec) snapshot() []fbb.Status {
	r.mu.Lock()
	defer r.mu.Unlock()
	return append([]fbb.Status(nil), r.all...)
}

func ms(l []int) []time.Duration {
	var out []time.Duration
	for _, x := range l {
		out = append(out, time.Duration(x)*time.Millisecond)
	}
	return out
}

func run(c Case) (sig, msg string, nonFinal int) {
	sa, err := scen.NewStation(c.Sc.A)
	if err != nil {
		return "harness-generator", err.Error(), 0
	}
	sb, err := scen.NewStation(c.Sc.B)
	if err != nil {
		return "harness-generator", err.Error(), 0
	}
	ra, rb := &rec{}, &rec{}
	var resume []stream.Edit
	resumeMID := ""
	if c.ResumeAt > 0 {
		// locate B's answer line in a clean run of the same scenario
		ca, _ := scen.NewStation(c.Sc.A)
		cb, _ := scen.NewStation(c.Sc.B)
		clean := scen.RunSession(c.Sc, ca, cb, scen.Hooks{Limit: 10 * time.Minute})
		if clean.Hung || clean.A.Err != nil || clean.B.Err != nil || len(clean.A.Stats.Sent) != 1 {
			return "harness-generator", fmt.Sprintf("resume family: the clean run did not transfer exactly one message (A=%v B=%v sent=%v)", clean.A.Err, clean.B.Err, clean.A.Stats.Sent), 0
		}
		w := clean.EndB.Written()
		at := bytes.Index(w, []byte("FS +\r"))
		if at < 0 || bytes.Index(w[at+1:], []byte("FS +\r")) >= 0 {
			return "harness-generator", "resume family: B's answer line not found exactly once", 0
		}
		resumeMID = clean.A.Stats.Sent[0]
		resume = []stream.Edit{{Off: int64(at + 3), Kind: "sub", Val: '!'}}
		for _, d := range []byte(fmt.Sprint(c.ResumeAt)) {
			resume = append(resume, stream.Edit{Off: int64(at + 4), Kind: "ins", Val: d})
		}
	}
	out := scen.RunSession(c.Sc, sa, sb, scen.Hooks{
		Link: func(a, b *stream.End) {
			a.SetPacing(ms(c.PaceA))
			b.SetPacing(ms(c.PaceB))
			if resume != nil {
				b.Tamper(resume)
			}
		},
		Session: func(side string, s *fbb.Session) {
			if side == "A" {
				s.SetStatusUpdater(ra)
			} else {
				s.SetStatusUpdater(rb)
			}
		},
		Conn: func(side string, e *stream.End) net.Conn {
			if (side == "A" && c.ModemA) || (side == "B" && c.ModemB) {
				m := stream.NewModem(e)
				m.Quarters, m.QueryDelay = c.QueueA, time.Duration(c.QueryA)*time.Millisecond
				if side == "B" {
					m.Quarters, m.QueryDelay = c.QueueB, time.Duration(c.QueryB)*time.Millisecond
				}
				return m
			}
			if side == "A" && c.FlushA > 0 {
				return &stream.FlushOnly{End: e, FlushTime: time.Duration(c.FlushA) * time.Millisecond}
			}
			if side == "B" && c.FlushB > 0 {
				return &stream.FlushOnly{End: e, FlushTime: time.Duration(c.FlushB) * time.Millisecond}
			}
			return e
		},
		Limit: 10 * time.Minute,
	})
	if out.Hung {
		return "harness-hang", "sessions did not finish", 0
	}
	if out.A.PSig != "" {
		return out.A.PSig, out.A.Panic, 0
	}
	if out.B.PSig != "" {
		return out.B.PSig, out.B.Panic, 0
	}
	if resume == nil && (out.A.Err != nil || out.B.Err != nil) {
		return "exchange-error", fmt.Sprintf("A=%v B=%v", out.A.Err, out.B.Err), 0
	}
	// expected transfers per side
	type want struct {
		r        *rec
		sending  []string
		receiving []string
		name     string
	}
	ws := []want{{ra, out.A.Stats.Sent, out.A.Stats.Received, "A"}, {rb, out.B.Stats.Sent, out.B.Stats.Received, "B"}}
	if resume != nil {
		// A wrote the whole resumed frame (the link buffers), so its transfer ran to the end and must have been
		// reported like any other; B's side is not judged
		ws = []want{{ra, []string{resumeMID}, nil, "A(resumed transfer)"}}
	}
	// wait for the asynchronous Done reports
	deadline := time.Now().Add(30 * time.Second)
	for {
		missing := 0
		for _, w := range ws {
			done := map[string]int{}
			for _, s := range w.r.snapshot() {
				if s.Done {
					if s.Sending != nil {
						done["S"+s.Sending.MID()]++
					}
					if s.Receiving != nil {
						done["R"+s.Receiving.MID()]++
					}
				}
			}
			for _, m := range w.sending {
				if done["S"+m] == 0 {
					missing++
				}
			}
			for _, m := range w.receiving {
				if done["R"+m] == 0 {
					missing++
				}
			}
		}
		if missing == 0 || time.Now().After(deadline) {
			break
		}
		time.Sleep(5 * time.Millisecond)
	}
	time.Sleep(20 * time.Millisecond) // let a stray second Done (if any) arrive
	for _, w := range ws {
		type agg struct {
			n, done int
			lastDone bool
			total    int
		}
		per := map[string]*agg{}
		for i, s := range w.r.snapshot() {
			if (s.Sending == nil) == (s.Receiving == nil) {
				return "status-names-no-message", fmt.Sprintf("%s: report %d names sending=%v receiving=%v", w.name, i, s.Sending, s.Receiving), 0
			}
			var p *fbb.Proposal
			key := ""
			if s.Sending != nil {
				p, key = s.Sending, "S"+s.Sending.MID()
			} else {
				p, key = s.Receiving, "R"+s.Receiving.MID()
			}
			a := per[key]
			if a == nil {
				a = &agg{}
				per[key] = a
			}
			if a.lastDone {
				return "report-after-done", fmt.Sprintf("%s: %s: a report (done=%v) was delivered after the final Done report", w.name, key, s.Done), 0
			}
			a.n++
			if s.Done {
				a.done++
				a.lastDone = true
			} else {
				nonFinal++
			}
			if s.BytesTotal != p.CompressedSize() {
				return "bytes-total", fmt.Sprintf("%s: %s: BytesTotal %d, compressed size %d", w.name, key, s.BytesTotal, p.CompressedSize()), 0
			}
			if s.BytesTransferred < 0 || s.BytesTransferred > s.BytesTotal {
				return "bytes-transferred-range", fmt.Sprintf("%s: %s: BytesTransferred %d outside [0,%d]", w.name, key, s.BytesTransferred, s.BytesTotal), 0
			}
		}
		chk := func(kind string, mids []string) (string, string) {
			for _, m := range mids {
				a := per[kind+m]
				if a == nil || a.done != 1 {
					n := 0
					if a != nil {
						n = a.done
					}
					return "done-count", fmt.Sprintf("%s: transferred message %s%s got %d final Done reports (want exactly one)", w.name, kind, m, n)
				}
			}
			return "", ""
		}
		if s, m := chk("S", w.sending); s != "" {
			return s, m, 0
		}
		if s, m := chk("R", w.receiving); s != "" {
			return s, m, 0
		}
		for key, a := range per {
			if a.done > 1 {
				return "done-count", fmt.Sprintf("%s: %s got %d Done reports", w.name, key, a.done), 0
			}
		}
	}
	return "", "", nonFinal
}

func genCase(t *rapid.T) Case {
	used := map[string]bool{}
	sc := scen.Scenario{AIsMaster: rapid.Bool().Draw(t, "a_master")}
	sc.A = scen.Side{Call: "LA5NTA", Sched: gen.Schedule(t, "schedA")}
	sc.B = scen.Side{Call: "N0CALL", Sched: gen.Schedule(t, "schedB")}
	n := rapid.IntRange(1, 3).Draw(t, "nmsgs")
	resumeAt := 0
	if rapid.IntRange(0, 4).Draw(t, "resumed") == 0 {
		n, resumeAt = 1, rapid.SampledFrom([]int{1, 6, 100, 150, 199}).Draw(t, "resume_at")
	}
	for i := 0; i < n; i++ {
		spec := msggen.Gen(t, used, "LA5NTA", "N0CALL", 200)
		spec.Tuned = ""
		// body of incompressible bytes so that the compressed size is controlled: 200 B .. 60 KiB
		size := rapid.SampledFrom([]int{200, 1000, 4000, 12000, 30000, 60000}).Draw(t, "size")
		sm := gen.NewSM(rapid.Uint64().Draw(t, "seed"))
		b := make([]byte, size)
		for j := range b {
			b[j] = byte(sm.Next())
		}
		spec.RawBody, spec.Body, spec.Files = b, "", nil
		if rapid.Bool().Draw(t, "dirAB") || resumeAt > 0 {
			sc.A.Queue = append(sc.A.Queue, spec)
		} else {
			spec.From, spec.To = "N0CALL", []string{"LA5NTA"}
			sc.B.Queue = append(sc.B.Queue, spec)
		}
	}
	pace := func(label string) []int {
		switch rapid.IntRange(0, 3).Draw(t, label+"_kind") {
		case 0:
			return nil
		case 1: // a few long stalls among fast writes
			return []int{0, 0, 0, 0, 0, 0, 0, rapid.IntRange(100, 400).Draw(t, label+"_stall"), 0, 0, 0, 0, 0, 0, 0, 0, 0, 0, 0, 0}
		default:
			l := rapid.SliceOfN(rapid.SampledFrom([]int{0, 0, 0, 0, 1, 2, 5, 30, 120, 260, 400}), 1, 12).Draw(t, label)
			return l
		}
	}
	c := Case{Sc: sc, PaceA: pace("paceA"), PaceB: pace("paceB"), ModemA: rapid.Bool().Draw(t, "modemA"), ModemB: rapid.Bool().Draw(t, "modemB"),
		QueueA: rapid.SampledFrom([]int{1, 2, 4, 4}).Draw(t, "queueA"), QueueB: rapid.SampledFrom([]int{1, 2, 4, 4}).Draw(t, "queueB"),
		QueryA: rapid.SampledFrom([]int{0, 0, 0, 30, 120, 240}).Draw(t, "queryA"), QueryB: rapid.SampledFrom([]int{0, 0, 0, 30, 120, 240}).Draw(t, "queryB"),
		ResumeAt: resumeAt}
	if !c.ModemA && rapid.IntRange(0, 2).Draw(t, "flush_only_a") == 0 {
		c.FlushA = rapid.SampledFrom([]int{1, 300, 600}).Draw(t, "flush_a")
	}
	if !c.ModemB && rapid.IntRange(0, 2).Draw(t, "flush_only_b") == 0 {
		c.FlushB = rapid.SampledFrom([]int{1, 300, 600}).Draw(t, "flush_b")
	}
	return c
}

// bound the total sleeping of a case (writes are ~ size/125 per message)
func cost(c Case) time.Duration {
	var total time.Duration
	est := func(q []msggen.Spec, pace []int) {
		if len(pace) == 0 {
			return
		}
		sum := 0
		for _, p := range pace {
			sum += p
		}
		avg := float64(sum) / float64(len(pace))
		for _, m := range q {
			total += time.Duration(float64(len(m.RawBody)/125+10)*avg) * time.Millisecond
		}
	}
	est(c.Sc.A.Queue, c.PaceA)
	est(c.Sc.B.Queue, c.PaceB)
	return total
}

func TestProp(t *testing.T) {
	rapid.Check(t, func(t *rapid.T) {
		c := genCase(t)
		for cost(c) > 4*time.Second {
			// keep a case's sleeping bounded: thin out the pacing rather than rejecting the case
			for i := range c.PaceA {
				c.PaceA[i] /= 2
			}
			for i := range c.PaceB {
				c.PaceB[i] /= 2
			}
			c.PaceA = append(c.PaceA, 0, 0, 0, 0, 0, 0, 0, 0)
			c.PaceB = append(c.PaceB, 0, 0, 0, 0, 0, 0, 0, 0)
		}
		harness.Begin(c)
		sig, msg, nonFinal := run(c)
		harness.End()
		harness.Eval()
		if nonFinal > 0 {
			harness.NonTrivial(harness.Hash(fmt.Sprintf("%+v", c)))
			harness.Label("non-final-report-delivered")
		}
		if c.ModemA || c.ModemB {
			harness.Label("txbuffer-transport")
		}
		if c.ResumeAt > 0 {
			harness.Label("resumed-transfer(FS !offset)")
		}
		if (c.FlushA >= 300 && len(c.Sc.A.Queue) > 0) || (c.FlushB >= 300 && len(c.Sc.B.Queue) > 0) {
			harness.Label("flush-only-transport(sender)-with-Flush>=300ms")
		}
		if (c.ModemA && c.QueryA > 0) || (c.ModemB && c.QueryB > 0) {
			harness.Label("txbuffer-query-takes-time")
		}
		if (c.ModemA && c.QueueA == 4 && len(c.Sc.A.Queue) > 0) || (c.ModemB && c.QueueB == 4 && len(c.Sc.B.Queue) > 0) {
			harness.Label("txbuffer-holds-everything-until-flush(sender)")
			if nonFinal > 0 {
				harness.Label("txbuffer-holds-everything-until-flush(sender)+non-final-report")
			}
		}
		if len(c.PaceA)+len(c.PaceB) > 0 {
			harness.Label("paced")
		}
		if harness.WantSample() && nonFinal > 0 {
			var sizes []int
			for _, m := range append(append([]msggen.Spec{}, c.Sc.A.Queue...), c.Sc.B.Queue...) {
				sizes = append(sizes, len(m.RawBody))
			}
			harness.Sample(map[string]any{"body_sizes": sizes, "pace_a_ms": c.PaceA, "pace_b_ms": c.PaceB, "modem_a": c.ModemA, "modem_b": c.ModemB, "non_final_reports": nonFinal})
		}
		if sig != "" {
			harness.Fail(t, sig, c, "%s", msg)
		}
	})
}

func TestReplay(t *testing.T) {
	for _, f := range harness.ReplayFiles() {
		var c Case
		if _, err := harness.ReplayCase(f, &c); err != nil {
			t.Fatalf("%s: %v", f, err)
		}
		harness.Begin(c)
		sig, msg, _ := run(c)
		harness.End()
		harness.Eval()
		if sig != "" {
			harness.Fail(t, sig, c, "replay %s: %s", f, msg)
		}
	}
}
