// C18 — setting a message body preserves the text.
//
// Domain ("text representable in the body character set"): a Go string that is valid UTF-8, whose
// runes are all <= U+00FF (the body character set is ISO-8859-1, fbb.DefaultCharset) and in which
// every CR is immediately followed by LF. Outside the quantifier and therefore never generated
// (run() skips such a case if a hand-written replay contains one):
//   - runes above U+00FF (not representable; the translator substitutes '?');
//   - invalid UTF-8 (not text);
//   - a bare CR, i.e. a CR that is not the first half of a CRLF (this includes CR CR LF and a CR as
//     the very last character): the line reader only knows LF and CRLF as line ends.
//
// C0/C1 control characters other than CR and LF are ISO-8859-1 code points and are generated with
// a low density (TAB more often).
//
// The oracle is written from the property text only; it never calls StringToBody/BodyFromBytes
// for an expectation: Latin-1 <-> UTF-8 is the identity on code points and is done here by hand.
package c18

import (
	"sync"
	"bytes"
	"fmt"
	"strconv"
	"strings"
	"testing"
	"time"
	"unicode/utf8"

	"github.com/la5nta/wl2k-go/fbb"
	"pgregory.net/rapid"

	"verif/internal/gen"
	"verif/internal/harness"
)

const maxLine = 998 // content bytes of a stored line: 1000 including CRLF

func TestMain(m *testing.M) {
	harness.Property("C18",
		"texts: 0..10 lines, each from a family (short; Latin-1 length 990..1004, 1990..2002, 2990..2998; a two-byte UTF-8 character placed on UTF-8 byte 998k of its line, k in 1..3 and 66; 1..6000; 65530..65540 and 64 KiB multiples; up to 300 KiB quick / 2 MiB thorough), non-ASCII density 0..100 %, terminators LF / CRLF / none on the last line, runs of empty lines; plus the exhaustive family 'one e-acute at every position of a line of a's' around 998 and 1996. in half of the cases 1..3 later SetBody calls on other messages follow and the first message is serialised again (its stored body must not change). Non-trivial = some line longer than 998 bytes, or non-ASCII text, or LF and CRLF mixed; distinct by hash(text).",
		"domain: valid UTF-8, all runes <= U+00FF, every CR followed by LF (bare CR is outside the property's quantifier)",
		"'apart from normalisation' is read as: line terminators become CRLF, a missing final CRLF is added, extra CRLFs appear only inside lines longer than 998 bytes; empty lines are kept, a line that fits is stored as one line; for the empty text both an empty body and a single CRLF are accepted",
		"stored body = bytes after the first empty line of Message.Bytes() (no attachments, so nothing follows the body)",
	)
	harness.Main(m)
}

// Part is Unit repeated Rep times. A case is the concatenation of its parts, so that even a
// 2 MiB text is a few explicit choices and a shrunk reproduction stays readable.
type Part struct {
	Unit string `json:"unit"`
	Rep  int    `json:"rep"`
}

type Case struct {
	Parts []Part `json:"parts"`
	// Later: texts set on other messages (SetBody) after the text under test was stored; the stored body of
	// the first message must not change because of them (the guarantee is about the stored body, not about
	// the return value of one call).
	Later [][]Part `json:"later,omitempty"`
	// Again: a text that was set as body of the SAME message before the text under test (the user edits the
	// draft; a received message gets a new body). The guarantees are about the text set last.
	Again []Part `json:"again,omitempty"`
	// Reparsed: the message was populated by ReadFrom (a stored draft) before the text under test is set.
	Reparsed bool `json:"reparsed,omitempty"`
	// Foreign: the message carries a Content-Type with this charset label (a message received from another
	// client) before the text under test is set; SetBody stores ISO-8859-1 and Body() must return the text.
	Foreign string `json:"foreign,omitempty"`
	// Concurrent: two other goroutines of the application set bodies on their own messages all the time while
	// this text is set (each message is used by one goroutine only).
	Concurrent bool `json:"concurrent,omitempty"`
	Shape string `json:"shape,omitempty"` // generator families used (information only)
}

func (c Case) Text() string {
	n := 0
	for _, p := range c.Parts {
		if p.Rep > 0 {
			n += len(p.Unit) * p.Rep
		}
	}
	var sb strings.Builder
	sb.Grow(n)
	for _, p := range c.Parts {
		for i := 0; i < p.Rep; i++ {
			sb.WriteString(p.Unit)
		}
	}
	return sb.String()
}

// ---- independent model --------------------------------------------------------------------

// toLatin1 encodes text in ISO-8859-1 (code point = byte). ok=false: outside the domain.
func toLatin1(s string) (b []byte, ok bool) {
	b = make([]byte, 0, len(s))
	for i := 0; i < len(s); {
		c := s[i]
		if c < utf8.RuneSelf {
			b = append(b, c)
			i++
			continue
		}
		r, size := utf8.DecodeRuneInString(s[i:])
		if (r == utf8.RuneError && size == 1) || r > 0xFF {
			return nil, false
		}
		b = append(b, byte(r))
		i += size
	}
	return b, true
}

func fromLatin1(b []byte) string {
	var sb strings.Builder
	sb.Grow(len(b) + len(b)/4)
	for _, c := range b {
		if c < utf8.RuneSelf {
			sb.WriteByte(c)
		} else {
			sb.WriteByte(0xC0 | c>>6)
			sb.WriteByte(0x80 | c&0x3F)
		}
	}
	return sb.String()
}

func bareCR(b []byte) bool {
	for i, c := range b {
		if c == '\r' && (i+1 == len(b) || b[i+1] != '\n') {
			return true
		}
	}
	return false
}

func stripCRLF(b []byte) []byte {
	out := make([]byte, 0, len(b))
	for _, c := range b {
		if c != '\r' && c != '\n' {
			out = append(out, c)
		}
	}
	return out
}

// logicalLines splits the input at LF / CRLF. A final segment without terminator is a line
// iff it is not empty.
func logicalLines(in []byte) [][]byte {
	var lines [][]byte
	for len(in) > 0 {
		i := bytes.IndexByte(in, '\n')
		if i < 0 {
			lines = append(lines, in)
			break
		}
		l := in[:i]
		if len(l) > 0 && l[len(l)-1] == '\r' {
			l = l[:len(l)-1]
		}
		lines = append(lines, l)
		in = in[i+1:]
	}
	return lines
}

func quote(b []byte, at int) string {
	lo, hi := at-12, at+12
	if lo < 0 {
		lo = 0
	}
	if hi > len(b) {
		hi = len(b)
	}
	return fmt.Sprintf("%q", b[lo:hi])
}

type shape struct {
	lines, maxLine, emptyLines          int
	lf, crlf                            int
	noFinalNL, nonASCII, controls       bool
	straddle                            bool // a two-byte UTF-8 character occupies UTF-8 bytes 998k, 998k+1 of its line
	len998, len1996, len64k, lineOver64 bool
}

func describe(text string, in []byte) (s shape) {
	for i, c := range in {
		if c >= 0x80 {
			s.nonASCII = true
		}
		if (c < 0x20 && c != '\r' && c != '\n') || (c >= 0x7F && c < 0xA0) {
			s.controls = true
		}
		if c == '\n' {
			if i > 0 && in[i-1] == '\r' {
				s.crlf++
			} else {
				s.lf++
			}
		}
	}
	s.noFinalNL = len(in) > 0 && in[len(in)-1] != '\n'
	for _, l := range logicalLines(in) {
		s.lines++
		n := len(l)
		if n == 0 {
			s.emptyLines++
		}
		if n > s.maxLine {
			s.maxLine = n
		}
		switch {
		case n >= 996 && n <= 1002:
			s.len998 = true
		case n >= 1994 && n <= 2000:
			s.len1996 = true
		case n >= 65530 && n <= 65540:
			s.len64k = true
		}
		if n >= 65536 {
			s.lineOver64 = true
		}
	}
	// straddle: walk the UTF-8 form line by line
	off := 0
	for i := 0; i < len(text); {
		c := text[i]
		if c == '\n' {
			off = 0
			i++
			continue
		}
		if c < utf8.RuneSelf {
			off++
			i++
			continue
		}
		if off%maxLine == maxLine-1 {
			s.straddle = true
		}
		off += 2
		i += 2
	}
	return
}

type outcome struct {
	foreign    bool // the message carried a foreign Content-Type charset label before
	concurrent bool // other goroutines were setting bodies on their own messages meanwhile
	again    bool // another body had been set on the same message before
	reparsed bool // ... and the message had been serialised and parsed back before the text under test was set
	later   int // later SetBody calls on other messages after which the stored body was re-checked
	skipped bool
	sh      shape
	stored  int
	hash    uint64
}

// run sets the text as body of a fresh message and judges what the message then holds.
func run(c Case) (sig, msg string, o outcome) {
	text := c.Text()
	in, ok := toLatin1(text)
	if !ok || bareCR(in) {
		o.skipped = true
		return
	}
	o.sh = describe(text, in)
	o.hash = harness.Hash(text)

	var laterSig, laterMsg string
	var concSig, concMsg string
	var concMu sync.Mutex
	var (
		setErr, bytesErr, bodyErr, readErr, body2Err error
		raw                                          []byte
		bodyHdr, bodyStr, body2Str                   string
		bodySize, bodySize2                          int
	)
	psig, pmsg := harness.Catch(func() {
		m := fbb.NewMessage(fbb.Private, "N0CALL")
		m.Header.Set("Mid", "C18C18C18C18")
		m.SetDate(time.Date(2020, 2, 3, 4, 5, 0, 0, time.UTC))
		m.AddTo("N0CALL")
		m.SetSubject("c18")
		if c.Again != nil {
			if at := (Case{Parts: c.Again}).Text(); true {
				if ab, ok := toLatin1(at); ok && !bareCR(ab) {
					if m.SetBody(at) == nil {
						o.again = true
					}
				}
			}
			if c.Reparsed && o.again {
				if b0, err := m.Bytes(); err == nil {
					m0 := new(fbb.Message)
					if m0.ReadFrom(bytes.NewReader(b0)) == nil {
						m = m0
						o.reparsed = true
					}
				}
			}
		}
		if c.Foreign != "" {
			m.Header.Set("Content-Type", "text/plain; charset="+c.Foreign)
			m.Header.Set("Content-Transfer-Encoding", "8bit")
			o.foreign = true
		}
		if c.Concurrent {
			stop := make(chan struct{})
			var wg sync.WaitGroup
			for w := 0; w < 2; w++ {
				wg.Add(1)
				go func(w int) {
					defer wg.Done()
					unit := []string{"Ærlig talt, Øystein\n", "ÅÅÅÅ ååååå ØØØ\r\n"}[w]
					own := strings.Repeat(unit, 400)
					wantOwn := stripCRLF(mustLatin1(own))
					for i := 0; i < 100000; i++ {
						select {
						case <-stop:
							return
						default:
						}
						mw := fbb.NewMessage(fbb.Private, "N0CALL")
						if err := mw.SetBody(own); err != nil {
							continue
						}
						got, _ := mw.Body()
						if gb, ok := toLatin1(got); !ok || !bytes.Equal(stripCRLF(gb), wantOwn) {
							concMu.Lock()
							if concSig == "" {
								concSig, concMsg = "concurrent-setbody-mixes-texts", fmt.Sprintf("a goroutine that sets the same %d byte text on its own fresh messages read back a different body (iteration %d) while other goroutines were setting other bodies", len(own), i)
							}
							concMu.Unlock()
							return
						}
					}
				}(w)
			}
			defer func() { close(stop); wg.Wait() }()
			o.concurrent = true
		}
		if setErr = m.SetBody(text); setErr != nil {
			return
		}
		bodyHdr = m.Header.Get("Body")
		bodySize = m.BodySize()
		bodyStr, bodyErr = m.Body()
		if raw, bytesErr = m.Bytes(); bytesErr != nil {
			return
		}
		m2 := new(fbb.Message)
		if readErr = m2.ReadFrom(bytes.NewReader(raw)); readErr != nil {
			return
		}
		bodySize2 = m2.BodySize()
		body2Str, body2Err = m2.Body()
		// history: later SetBody calls on other messages must leave this message's stored body alone
		for i, lp := range c.Later {
			lt := Case{Parts: lp}.Text()
			if lb, ok := toLatin1(lt); !ok || bareCR(lb) {
				continue
			}
			mk := fbb.NewMessage(fbb.Private, "N0CALL")
			if err := mk.SetBody(lt); err != nil {
				continue // judged when that text is the text under test
			}
			again, err := m.Bytes()
			if err != nil || !bytes.Equal(again, raw) {
				laterSig, laterMsg = "stored-body-changed-by-later-setbody", fmt.Sprintf("after SetBody of a %d byte text on ANOTHER message (later call %d of %d) the first message serialises differently: err=%v, %d bytes before, %d after, first difference at byte %d", len(lt), i+1, len(c.Later), err, len(raw), len(again), firstDiff(raw, again))
				return
			}
			o.later++
		}
	})
	if psig != "" {
		return psig, pmsg, o
	}
	if setErr != nil {
		return "setbody-error", fmt.Sprintf("SetBody returned %v for a %d byte Latin-1 text (longest line %d)", setErr, len(in), o.sh.maxLine), o
	}
	if bytesErr != nil {
		return "serialise-error", fmt.Sprintf("Bytes() returned %v", bytesErr), o
	}
	hend := bytes.Index(raw, []byte("\r\n\r\n"))
	if hend < 0 {
		return "serialise-error", "serialised message has no empty line after the header", o
	}
	head, stored := raw[:hend+2], raw[hend+4:]
	o.stored = len(stored)

	// 1. nothing dropped, nothing changed: text without CR/LF is identical
	want, got := stripCRLF(in), stripCRLF(stored)
	if !bytes.Equal(want, got) {
		if len(got) < len(want) && bytes.HasPrefix(want, got) {
			return "text-truncated", fmt.Sprintf("stored body holds %d of the %d text bytes (stored body is %d bytes, Body header %q, SetBody returned nil); longest input line %d bytes", len(got), len(want), len(stored), bodyHdr, o.sh.maxLine), o
		}
		d := 0
		for d < len(want) && d < len(got) && want[d] == got[d] {
			d++
		}
		return "text-altered", fmt.Sprintf("text differs at byte %d (CR/LF removed; input %d bytes, stored %d): input %s, stored %s", d, len(want), len(got), quote(want, d), quote(got, d)), o
	}

	// 2. every line ends in CRLF, no other CR/LF, no line longer than 1000 bytes including CRLF
	if len(stored) > 0 && !bytes.HasSuffix(stored, []byte("\r\n")) {
		return "line-ending", fmt.Sprintf("stored body does not end in CRLF: ...%s", quote(stored, len(stored))), o
	}
	var slines [][]byte
	for rest := stored; len(rest) > 0; {
		i := bytes.Index(rest, []byte("\r\n"))
		l := rest[:i] // i >= 0: rest ends in CRLF
		if j := bytes.IndexAny(l, "\r\n"); j >= 0 {
			return "line-ending", fmt.Sprintf("stored line %d holds a CR or LF that is not part of a CRLF: %s", len(slines)+1, quote(l, j)), o
		}
		if len(l) > maxLine {
			return "line-too-long", fmt.Sprintf("stored line %d is %d bytes including CRLF", len(slines)+1, len(l)+2), o
		}
		slines = append(slines, l)
		rest = rest[i+2:]
	}

	// 3. equal apart from normalisation: the stored lines are the input lines, a line that does
	// not fit being cut into non-empty pieces
	ilines := logicalLines(in)
	if len(ilines) == 0 {
		if len(slines) > 1 || (len(slines) == 1 && len(slines[0]) > 0) {
			return "line-structure", fmt.Sprintf("empty text stored as %q", stored), o
		}
	} else {
		k := 0
		for li, l := range ilines {
			if k >= len(slines) {
				return "line-structure", fmt.Sprintf("input line %d (%d bytes) has no stored counterpart: %d input lines, %d stored lines", li+1, len(l), len(ilines), len(slines)), o
			}
			if len(l) <= maxLine {
				if !bytes.Equal(slines[k], l) {
					return "line-structure", fmt.Sprintf("input line %d (%d bytes, fits in one line) is stored differently: stored line %d has %d bytes (input has %d lines of which %d empty, stored body has %d lines)", li+1, len(l), k+1, len(slines[k]), len(ilines), o.sh.emptyLines, len(slines)), o
				}
				k++
				continue
			}
			for len(l) > 0 {
				if k >= len(slines) || len(slines[k]) == 0 || !bytes.HasPrefix(l, slines[k]) {
					return "line-structure", fmt.Sprintf("input line %d (%d bytes) is not stored as consecutive non-empty pieces (at stored line %d)", li+1, len(ilines[li]), k+1), o
				}
				l = l[len(slines[k]):]
				k++
			}
		}
		if k != len(slines) {
			return "line-structure", fmt.Sprintf("stored body has %d lines after the last input line (input %d lines, stored %d)", len(slines)-k, len(ilines), len(slines)), o
		}
	}

	// 4a. exactly one Body header field
	if n := bytes.Count(append([]byte("\r\n"), head...), []byte("\r\nBody: ")); n != 1 {
		return "body-header-mismatch", fmt.Sprintf("the serialised message has %d Body header fields (an earlier body had been set on the same message: %v)", n, o.again), o
	}
	// 4. Body header == BodySize() == stored length
	if bodyHdr != strconv.Itoa(len(stored)) || bodySize != len(stored) || !bytes.Contains(head, []byte("\r\nBody: "+strconv.Itoa(len(stored))+"\r\n")) {
		return "body-header-mismatch", fmt.Sprintf("stored body is %d bytes, Body header %q, BodySize() %d", len(stored), bodyHdr, bodySize), o
	}

	// 5. Body() decodes the stored bytes back to the text
	if wantBody := fromLatin1(stored); bodyErr != nil || bodyStr != wantBody {
		return "body-decode-mismatch", fmt.Sprintf("Body() = (%d bytes, %v), want the stored body decoded from ISO-8859-1 (%d bytes)", len(bodyStr), bodyErr, len(wantBody)), o
	}
	if readErr != nil {
		return "reparse-error", fmt.Sprintf("ReadFrom of the serialised message: %v", readErr), o
	}
	if body2Err != nil || body2Str != bodyStr || bodySize2 != bodySize {
		return "reparse-mismatch", fmt.Sprintf("re-parsed message: Body() = (%d bytes, %v), BodySize() %d; original %d bytes, %d", len(body2Str), body2Err, bodySize2, len(bodyStr), bodySize), o
	}
	if laterSig != "" {
		return laterSig, laterMsg, o
	}
	if concSig != "" {
		return concSig, concMsg, o
	}
	return "", "", o
}

func mustLatin1(s string) []byte {
	b, _ := toLatin1(s)
	return b
}

func firstDiff(a, b []byte) int {
	i := 0
	for i < len(a) && i < len(b) && a[i] == b[i] {
		i++
	}
	return i
}

// ---- generator ----------------------------------------------------------------------------

func runeGen(hiPct int) *rapid.Generator[rune] {
	return rapid.Custom(func(t *rapid.T) rune {
		if rapid.IntRange(0, 99).Draw(t, "hi") < hiPct {
			if rapid.IntRange(0, 24).Draw(t, "c1") == 0 {
				return rune(rapid.IntRange(0x80, 0x9F).Draw(t, "r"))
			}
			return rune(rapid.IntRange(0xA0, 0xFF).Draw(t, "r"))
		}
		switch rapid.IntRange(0, 39).Draw(t, "ctl") {
		case 0:
			return '\t'
		case 1:
			return rapid.SampledFrom([]rune{0, 1, 7, 8, 0x0B, 0x0C, 0x1A, 0x1B, 0x1F, 0x7F}).Draw(t, "r")
		}
		return rune(rapid.IntRange(0x20, 0x7E).Draw(t, "r"))
	})
}

func density(t *rapid.T) int {
	switch rapid.IntRange(0, 5).Draw(t, "dens_kind") {
	case 0, 1:
		return 0
	case 2:
		return 100
	default:
		return rapid.IntRange(1, 99).Draw(t, "dens")
	}
}

// unit draws the text a line is made of: a short rapid-drawn string (shrinks well) or a long
// aperiodic one expanded from a seed (stored expanded in the case).
func unit(t *rapid.T, hiPct int) []rune {
	if rapid.IntRange(0, 3).Draw(t, "unit_kind") > 0 {
		return rapid.SliceOfN(runeGen(hiPct), 1, 40).Draw(t, "unit")
	}
	n := rapid.IntRange(150, 1100).Draw(t, "unit_n")
	sm := gen.NewSM(rapid.Uint64().Draw(t, "unit_seed"))
	u := make([]rune, n)
	for i := range u {
		if sm.Intn(100) < hiPct {
			u[i] = rune(0xA0 + sm.Intn(96))
		} else {
			u[i] = rune(0x20 + sm.Intn(95))
		}
	}
	return u
}

// fill returns parts that make exactly n characters out of u.
func fill(u []rune, n int) []Part {
	var ps []Part
	if n <= 0 || len(u) == 0 {
		return nil
	}
	if q := n / len(u); q > 0 {
		ps = append(ps, Part{string(u), q})
	}
	if r := n % len(u); r > 0 {
		ps = append(ps, Part{string(u[:r]), 1})
	}
	return ps
}

func genCase(t *rapid.T) Case {
	budget := harness.Scale(300<<10, 2<<20)
	var c Case
	var shapes []string
	nl := rapid.SampledFrom([]string{"lf", "crlf", "mixed", "mixed"}).Draw(t, "newlines")
	nlines := rapid.IntRange(0, 10).Draw(t, "nlines")
	for i := 0; i < nlines && budget > 0; i++ {
		fam := rapid.IntRange(0, 19).Draw(t, "family")
		var ps []Part
		name := ""
		lineOf := func(n int) []Part {
			if n > budget {
				n = budget
			}
			return fill(unit(t, density(t)), n)
		}
		switch {
		case fam <= 5:
			name = "short"
			ps = []Part{{string(rapid.SliceOfN(runeGen(density(t)), 0, 100).Draw(t, "short")), 1}}
		case fam == 6:
			name = "empty"
		case fam <= 9:
			name = "len998"
			ps = lineOf(rapid.IntRange(990, 1004).Draw(t, "len"))
		case fam == 10:
			name = "len1996"
			ps = lineOf(rapid.SampledFrom([]int{1996, 2994}).Draw(t, "base") + rapid.IntRange(-6, 6).Draw(t, "delta"))
		case fam <= 13:
			// a two-byte character on UTF-8 bytes 998k and 998k+1 (1-based) of the line
			name = "straddle"
			k := rapid.SampledFrom([]int{1, 1, 1, 2, 2, 3, 66}).Draw(t, "k")
			target := maxLine*k - 1 // UTF-8 bytes before the character
			b := 0                  // non-ASCII characters before it
			switch rapid.IntRange(0, 3).Draw(t, "pre_kind") {
			case 1:
				b = rapid.IntRange(1, 20).Draw(t, "pre_hi")
			case 2:
				b = rapid.IntRange(0, target/2).Draw(t, "pre_hi")
			case 3:
				b = target / 2
			}
			a := target - 2*b
			asc := fill(rapid.SliceOfN(rapid.Custom(func(t *rapid.T) rune { return rune(rapid.IntRange(0x20, 0x7E).Draw(t, "r")) }), 1, 30).Draw(t, "pre_ascii"), a)
			hi := fill(rapid.SliceOfN(rapid.Custom(func(t *rapid.T) rune { return rune(rapid.IntRange(0xA0, 0xFF).Draw(t, "r")) }), 1, 30).Draw(t, "pre_nonascii"), b)
			if rapid.Bool().Draw(t, "hi_first") {
				ps = append(append(ps, hi...), asc...)
			} else {
				ps = append(append(ps, asc...), hi...)
			}
			ps = append(ps, Part{string(rune(rapid.IntRange(0x80, 0xFF).Draw(t, "wide"))), 1})
			ps = append(ps, lineOf(rapid.SampledFrom([]int{0, 0, 1, 5, 996, 997, 998, 1500}).Draw(t, "tail"))...)
		case fam <= 15:
			name = "medium"
			ps = lineOf(rapid.IntRange(1, 6000).Draw(t, "len"))
		case fam <= 17:
			name = "len64k"
			base := rapid.SampledFrom([]int{65536, 65536, 65536, 131072, 4096, 32768}).Draw(t, "base")
			ps = lineOf(base + rapid.IntRange(-8, 8).Draw(t, "delta"))
		default:
			name = "huge"
			ps = lineOf(rapid.IntRange(60000, harness.Scale(300<<10, 2<<20)).Draw(t, "len"))
		}
		for _, p := range ps {
			budget -= utf8.RuneCountInString(p.Unit) * p.Rep
		}
		c.Parts = append(c.Parts, ps...)
		shapes = append(shapes, name)
		// terminator
		last := i == nlines-1
		term := "\n"
		switch nl {
		case "crlf":
			term = "\r\n"
		case "mixed":
			if rapid.Bool().Draw(t, "crlf") {
				term = "\r\n"
			}
		}
		rep := 1
		if rapid.IntRange(0, 5).Draw(t, "blank_run") == 0 {
			rep = rapid.IntRange(2, 5).Draw(t, "blanks")
		}
		if last && rapid.IntRange(0, 2).Draw(t, "final_nl") == 0 {
			rep = 0
		}
		if rep > 0 {
			c.Parts = append(c.Parts, Part{term, rep})
		}
	}
	// history: in a quarter of the cases another body was set on the same message before
	if rapid.IntRange(0, 3).Draw(t, "again") == 0 {
		u := rapid.SampledFrom([]string{"draft ", "x", "é", "first version\n", "\n", "0123456789"}).Draw(t, "again_unit")
		c.Again = []Part{{u, rapid.IntRange(1, 150).Draw(t, "again_rep")}}
		c.Reparsed = rapid.Bool().Draw(t, "reparsed")
		shapes = append(shapes, "again")
	}
	if rapid.IntRange(0, 7).Draw(t, "foreign") == 0 {
		c.Foreign = rapid.SampledFrom([]string{"utf-8", "UTF-8", "windows-1252", "us-ascii", "iso-8859-15"}).Draw(t, "foreign_cs")
		shapes = append(shapes, "foreign-content-type")
	}
	if rapid.IntRange(0, 19).Draw(t, "concurrent") == 0 {
		c.Concurrent = true
		shapes = append(shapes, "concurrent")
	}
	// history: in half of the cases 1..3 later texts are set on other messages afterwards
	if rapid.Bool().Draw(t, "history") {
		n := rapid.IntRange(1, 3).Draw(t, "n_later")
		for i := 0; i < n; i++ {
			u := rapid.SampledFrom([]string{"x", "later text ", "é", "æøå ÆØÅ ", "0123456789", "\n", "line\r\n"}).Draw(t, "later_unit")
			lp := []Part{{u, rapid.IntRange(1, 120).Draw(t, "later_rep")}}
			if rapid.Bool().Draw(t, "later_nl") {
				lp = append(lp, Part{"\n", 1})
			}
			c.Later = append(c.Later, lp)
		}
		shapes = append(shapes, "history")
	}
	c.Shape = strings.Join(shapes, ",")
	return c
}

func account(c Case, o outcome) {
	harness.Eval()
	if o.skipped {
		harness.Label("outside-domain")
		return
	}
	s := o.sh
	mixed := s.lf > 0 && s.crlf > 0
	if s.maxLine > maxLine || s.nonASCII || mixed {
		harness.NonTrivial(o.hash)
		harness.Label("nontrivial")
	}
	lab := func(b bool, name string) {
		if b {
			harness.Label(name)
		}
	}
	lab(s.lines == 0, "text:empty")
	lab(s.maxLine > maxLine, "line>998")
	lab(s.lineOver64, "line>=64KiB")
	lab(s.len998, "line-len:996..1002")
	lab(s.len1996, "line-len:1994..2000")
	lab(s.len64k, "line-len:65530..65540")
	lab(s.maxLine >= 256<<10, "line>=256KiB")
	lab(s.nonASCII, "non-ascii")
	lab(s.controls, "control-chars")
	lab(s.straddle, "two-byte-char-on-utf8-byte-998k")
	lab(mixed, "newlines:mixed")
	lab(s.lf > 0 && s.crlf == 0, "newlines:lf-only")
	lab(s.crlf > 0 && s.lf == 0, "newlines:crlf-only")
	lab(s.noFinalNL, "no-final-newline")
	lab(s.emptyLines > 0, "empty-lines")
	lab(o.later > 0, "history:stored-body-rechecked-after-later-SetBody")
	lab(o.again, "history:second-SetBody-on-the-same-message")
	lab(o.foreign, "history:message-carried-a-foreign-Content-Type-charset")
	lab(o.concurrent, "concurrent:other-goroutines-set-bodies-on-their-own-messages")
	lab(o.reparsed, "history:SetBody-on-a-message-populated-by-ReadFrom")
	if harness.WantSample() && s.maxLine > maxLine && s.nonASCII && len(c.Parts) <= 8 {
		harness.Sample(render(c, o))
	}
}

func render(c Case, o outcome) map[string]any {
	var ps []string
	for _, p := range c.Parts {
		u := []rune(p.Unit)
		if len(u) > 12 {
			ps = append(ps, fmt.Sprintf("%q...(%d chars) x %d", string(u[:12]), len(u), p.Rep))
		} else {
			ps = append(ps, fmt.Sprintf("%q x %d", p.Unit, p.Rep))
		}
	}
	return map[string]any{"shape": c.Shape, "parts": ps, "lines": o.sh.lines, "longest_line": o.sh.maxLine, "stored_bytes": o.stored}
}

func prop(t *rapid.T) {
	c := genCase(t)
	harness.Begin(c)
	sig, msg, o := run(c)
	harness.End()
	account(c, o)
	if sig != "" {
		harness.Fail(t, sig, c, "%s", msg)
	}
}

func TestProp(t *testing.T) { rapid.Check(t, prop) }

// TestExhaustive: a line of L characters 'a' with one 'é' at every position, for every L around
// the first two wrap positions, with each terminator.
func TestExhaustive(t *testing.T) {
	var lens []int
	for l := 995; l <= 1003; l++ {
		lens = append(lens, l)
	}
	for l := 1993; l <= 2001; l++ {
		lens = append(lens, l)
	}
	idx, failed := 0, map[string]bool{}
	for _, l := range lens {
		for p := 0; p < l; p++ {
			for _, term := range []string{"", "\n", "\r\n"} {
				idx++
				if !harness.Mine(idx) {
					continue
				}
				c := Case{Shape: "exhaustive"}
				if p > 0 {
					c.Parts = append(c.Parts, Part{"a", p})
				}
				c.Parts = append(c.Parts, Part{"é", 1})
				if l-1-p > 0 {
					c.Parts = append(c.Parts, Part{"a", l - 1 - p})
				}
				if term != "" {
					c.Parts = append(c.Parts, Part{term, 1})
				}
				sig, msg, o := run(c)
				harness.Eval() // kept out of the class histogram, which describes the generated search
				harness.NonTrivial(o.hash)
				if sig != "" && !failed[sig] {
					failed[sig] = true
					if !harness.Known(sig) {
						harness.Record(sig, c, msg)
						t.Errorf("VIOLATION[%s] %s", sig, msg)
					}
				}
			}
		}
	}
	if i, _ := harness.Shard(); i == 0 {
		harness.LabelN("exhaustive-cases", idx)
	}
	harness.ExhaustiveSpace("every text a^p é a^(L-1-p) + terminator, L in 995..1003 and 1993..2001, p in 0..L-1, terminator in {none, LF, CRLF} (partitioned over the workers)")
}

func TestReplay(t *testing.T) {
	for _, f := range harness.ReplayFiles() {
		var c Case
		if _, err := harness.ReplayCase(f, &c); err != nil {
			t.Fatalf("%s: %v", f, err)
		}
		sig, msg, o := run(c)
		harness.Eval()
		if o.skipped {
			t.Logf("%s: text is outside the domain of C18 (rune > U+00FF, invalid UTF-8 or bare CR); skipped", f)
			continue
		}
		if sig != "" {
			harness.Fail(t, sig, c, "replay %s: %s", f, msg)
		}
	}
}
