// C20 — position reports state the given position in valid Winlink format.
package c20

import (
	"fmt"
	"math"
	"math/big"
	"strings"
	"sync"
	"testing"
	"time"

	"github.com/la5nta/wl2k-go/catalog"
	"github.com/la5nta/wl2k-go/fbb"
	"pgregory.net/rapid"

	"verif/internal/harness"
)

func TestMain(m *testing.M) {
	harness.Property("C20",
		"enumerated: (1) every (lat,lon) pair of the lattice -90..90 x -180..180 with step S (0.25 deg quick, 0.05 deg thorough); (2) for every whole minute b of latitude (0..90 deg) and longitude (0..180 deg), both signs, the values b +/- {0, 1e-9 deg, 0.000049', 0.000051', 0.0001', 0.5'} inside the range, every longitude value once, paired with the latitude values in turn; (3) every course 0..360 x {magnetic,true} x all 16 present/absent combinations of {position, speed, course, comment}. generated (rapid): coordinates drawn uniformly, next to whole minutes at distances 1e-3..1e-16 deg and 1..3 ulps, next to the rounding ties of the fourth minute decimal, tiny magnitudes and the range ends, with a random combination of optional fields, a Latin-1 comment of 1..80 printable characters, a date in 1970..2099 in a random zone. Every case counts as non-trivial (each is one complete message judged line by line); distinct by hash(lat, lon, fields present, speed, course, comment, date). In the thorough tier only the 0.25 deg sub-lattice is hashed (evidence size); all pairs are evaluated and counted.",
		"oracle is decimal: the digits of the LATITUDE/LONGITUDE line are read back as an integer number of 1/10000 minutes and compared with the exact binary value of the input (math/big when closer than 0.01 unit to the limit); tolerance 0.00005' + 1e-9'",
		"for an input of exactly 0 (or -0) the hemisphere character is not constrained (the repository's TestDecToDM expects a blank there)",
		"reports with only one of latitude/longitude are not generated: the statement does not define them",
		"comments are printable Latin-1 (U+0020..7E, U+00A0..FF) without line breaks; SPEED is only checked for presence (the statement gives no format for it)",
	)
	harness.Main(m)
}

// Case holds every choice of one position report.
type Case struct {
	Origin    string  `json:"origin"`
	HasPos    bool    `json:"has_pos"`
	Lat       float64 `json:"lat"`
	Lon       float64 `json:"lon"`
	HasSpeed  bool    `json:"has_speed"`
	Speed     float64 `json:"speed"`
	HasCourse bool    `json:"has_course"`
	Course    int     `json:"course"`
	Magnetic  bool    `json:"magnetic"`
	Comment   string  `json:"comment"` // empty = not set
	Call      string  `json:"call"`
	Date      int64   `json:"date_unix"`
	Zone      int     `json:"zone_s"` // zone offset of the time.Time handed to the library
}

type outcome struct {
	lat, lon, course string
	history          bool // an earlier report of this process was re-read after this one was built
	twice            bool // Message was called a second time on the same report
}

// unitsPerDegree: the line has four minute decimals, so one unit is 1/10000 minute.
const unitsPerDegree = 600000

var (
	tolerance = big.NewRat(50001, 100000) // 0.00005' + 1e-9' expressed in units of 1e-4'
	perDegree = big.NewRat(unitsPerDegree, 1)
)

func digits(s string) (int64, bool) {
	if s == "" {
		return 0, false
	}
	var v int64
	for i := 0; i < len(s); i++ {
		if s[i] < '0' || s[i] > '9' {
			return 0, false
		}
		v = v*10 + int64(s[i]-'0')
	}
	return v, true
}

// parseCoord reads DD-MM.MMMMH (nd = 2) or DDD-MM.MMMMH (nd = 3).
func parseCoord(s string, nd int) (deg, min, frac int64, hemi byte, ok bool) {
	if len(s) != nd+1+2+1+4+1 || s[nd] != '-' || s[nd+3] != '.' {
		return
	}
	var a, b, c bool
	deg, a = digits(s[:nd])
	min, b = digits(s[nd+1 : nd+3])
	frac, c = digits(s[nd+4 : nd+8])
	hemi = s[len(s)-1]
	ok = a && b && c
	return
}

// withinTolerance: |units - |x| * 600000| <= 0.5 + 1e-5, decided exactly.
func withinTolerance(units int64, x float64) bool {
	ax := math.Abs(x)
	d := math.Abs(float64(units) - ax*unitsPerDegree) // float error <= 2e-8 units
	if d <= 0.49 {
		return true
	}
	if d >= 0.52 {
		return false
	}
	r := new(big.Rat).SetFloat64(ax)
	r.Mul(r, perDegree)
	r.Sub(r, new(big.Rat).SetInt64(units))
	r.Abs(r)
	return r.Cmp(tolerance) <= 0
}

func checkCoord(name, val string, x float64, nd int, maxDeg int64, pos, neg byte) (sig, msg string) {
	deg, min, frac, hemi, ok := parseCoord(val, nd)
	form := "DD-MM.MMMMH"
	if nd == 3 {
		form = "DDD-MM.MMMMH"
	}
	if !ok || (hemi != pos && hemi != neg && hemi != ' ') {
		return name + "-form", fmt.Sprintf("%s of %v is %q, which is not of the form %s", name, x, val, form)
	}
	if min >= 60 {
		return "minutes-not-below-60", fmt.Sprintf("%s of %v is %q: the minutes field must be in [0,60)", name, x, val)
	}
	if deg > maxDeg {
		return "degrees-out-of-range", fmt.Sprintf("%s of %v is %q: more than %d degrees", name, x, val, maxDeg)
	}
	switch {
	case x > 0 && hemi != pos, x < 0 && hemi != neg:
		return "hemisphere", fmt.Sprintf("%s of %v is %q: wrong hemisphere letter %q", name, x, val, string(hemi))
	}
	units := (deg*60+min)*10000 + frac
	if !withinTolerance(units, x) {
		return "value-off", fmt.Sprintf("%s of %v is %q = %.4f', but the input is %.9f' (more than 0.00005' away)", name, x, val, float64(units)/10000, math.Abs(x)*60)
	}
	return "", ""
}

func (c Case) report() (catalog.PosReport, string, string) {
	p := catalog.PosReport{Date: time.Unix(c.Date, 0).In(time.FixedZone("case", c.Zone)), Comment: c.Comment}
	if c.HasPos {
		lat, lon := c.Lat, c.Lon
		p.Lat, p.Lon = &lat, &lon
	}
	if c.HasSpeed {
		s := c.Speed
		p.Speed = &s
	}
	if c.HasCourse {
		crs, err := catalog.NewCourse(c.Course, c.Magnetic)
		if err != nil || crs == nil {
			return p, "course-rejected", fmt.Sprintf("NewCourse(%d, %v) = %v, %v for a course inside 0..360", c.Course, c.Magnetic, crs, err)
		}
		p.Course = crs
	}
	return p, "", ""
}

var (
	histMu   sync.Mutex
	histPrev *fbb.Message
	histBody string
	histN    int
)

func judge(c Case, o *outcome) (sig, msg string) {
	p, sig, msg := c.report()
	if sig != "" {
		return sig, msg
	}
	m := p.Message(c.Call)
	if m == nil {
		return "nil-message", "Message returned nil"
	}
	if err := m.Validate(); err != nil {
		return "not-valid-for-sending", fmt.Sprintf("Message(%q).Validate() = %v", c.Call, err)
	}
	body, err := m.Body()
	if err != nil {
		return "body-unreadable", fmt.Sprintf("Body() = %v", err)
	}
	// the same report is turned into a message again (a tracker that re-sends, a log line next to the message): it states
	// the same position, and the values the caller handed in are still the caller's
	if c.Date%4 == 0 {
		m2 := p.Message(c.Call)
		if m2 == nil {
			return "nil-message", "Message returned nil when it was called a second time on the same report"
		}
		if b2, err := m2.Body(); err != nil || b2 != body {
			return "second-message-differs", fmt.Sprintf("Message called twice on the same report gives different bodies (err=%v):\nfirst  %q\nsecond %q", err, body, b2)
		}
		if c.HasPos && (*p.Lat != c.Lat || *p.Lon != c.Lon) && !(math.IsNaN(c.Lat) || math.IsNaN(c.Lon)) {
			return "report-modified", fmt.Sprintf("after Message the report's position is (%v, %v), it was set to (%v, %v)", *p.Lat, *p.Lon, c.Lat, c.Lon)
		}
		if c.HasSpeed && *p.Speed != c.Speed {
			return "report-modified", fmt.Sprintf("after Message the report's speed is %v, it was set to %v", *p.Speed, c.Speed)
		}
		o.twice = true
	}
	// history: the report built before this one (kept by the process, every 8th report) must still state what it
	// stated when it was built - a tracker builds many reports before it sends the first
	histMu.Lock()
	if histPrev != nil {
		if b2, err := histPrev.Body(); err != nil || b2 != histBody {
			histMu.Unlock()
			return "earlier-report-changed", fmt.Sprintf("a report built earlier now has another body (err=%v) after this report was built:\nthen %q\nnow  %q", err, histBody, b2)
		}
		histPrev = nil
		o.history = true
	}
	if histN++; histN%8 == 0 {
		histPrev, histBody = m, body
	}
	histMu.Unlock()
	fields := map[string][]string{}
	for _, line := range strings.Split(body, "\n") {
		line = strings.TrimSuffix(line, "\r")
		if k, v, ok := strings.Cut(line, ": "); ok {
			fields[k] = append(fields[k], v)
		}
	}
	want := map[string]bool{"DATE": true, "LATITUDE": c.HasPos, "LONGITUDE": c.HasPos, "SPEED": c.HasSpeed, "COURSE": c.HasCourse, "COMMENT": c.Comment != ""}
	for _, k := range []string{"DATE", "LATITUDE", "LONGITUDE", "SPEED", "COURSE", "COMMENT"} {
		n := len(fields[k])
		switch {
		case want[k] && n == 0:
			return "field-missing:" + k, fmt.Sprintf("%s is set but the body has no %s line:\n%s", k, k, body)
		case !want[k] && n > 0:
			return "field-unexpected:" + k, fmt.Sprintf("%s is not set but the body has a %s line:\n%s", k, k, body)
		case n > 1:
			return "field-repeated:" + k, fmt.Sprintf("the body has %d %s lines:\n%s", n, k, body)
		}
	}
	d := time.Unix(c.Date, 0).UTC()
	if wantDate := fmt.Sprintf("%04d/%02d/%02d %02d:%02d", d.Year(), int(d.Month()), d.Day(), d.Hour(), d.Minute()); fields["DATE"][0] != wantDate {
		return "date-line", fmt.Sprintf("DATE line is %q, the report's date is %q (UTC)", fields["DATE"][0], wantDate)
	}
	if c.HasPos {
		o.lat, o.lon = fields["LATITUDE"][0], fields["LONGITUDE"][0]
		if sig, msg = checkCoord("LATITUDE", o.lat, c.Lat, 2, 90, 'N', 'S'); sig != "" {
			return
		}
		if sig, msg = checkCoord("LONGITUDE", o.lon, c.Lon, 3, 180, 'E', 'W'); sig != "" {
			return
		}
	}
	if c.HasSpeed && strings.TrimSpace(fields["SPEED"][0]) == "" {
		return "speed-empty", "SPEED line without a value"
	}
	if c.HasCourse {
		v := fields["COURSE"][0]
		o.course = v
		letter := byte('T')
		if c.Magnetic {
			letter = 'M'
		}
		n, ok := digits(v[:min(3, len(v))])
		if len(v) != 4 || !ok || (v[3] != 'T' && v[3] != 'M') {
			return "course-form", fmt.Sprintf("COURSE of %d (magnetic=%v) is %q, which is not three digits followed by T or M", c.Course, c.Magnetic, v)
		}
		if v[3] != letter {
			return "course-reference", fmt.Sprintf("COURSE of %d (magnetic=%v) is %q: wrong T/M letter", c.Course, c.Magnetic, v)
		}
		if int(n) != c.Course && !(c.Course == 360 && n == 0) {
			return "course-value", fmt.Sprintf("COURSE of %d is %q", c.Course, v)
		}
		if s := p.Course.String(); s != v {
			return "course-stringer", fmt.Sprintf("Course.String() = %q but the COURSE line says %q", s, v)
		}
	}
	if c.Comment != "" && fields["COMMENT"][0] != c.Comment {
		return "comment-altered", fmt.Sprintf("COMMENT line is %q, the comment is %q", fields["COMMENT"][0], c.Comment)
	}
	return "", ""
}

func run(c Case) (sig, msg string, o outcome) {
	psig, pmsg := harness.Catch(func() { sig, msg = judge(c, &o) })
	if psig != "" {
		return psig, pmsg, o
	}
	return
}

// ---- classification ---------------------------------------------------------------------------

// minutePhase returns the exact position of |x| inside its 1e-4' grid, as labels:
// whether it lies on a whole minute, and whether correct rounding carries it into the next
// whole minute / whole degree (the region where a naive split prints 60.0000).
func coordLabels(x float64) []string {
	if x == 0 {
		return []string{"coord:zero"}
	}
	r := new(big.Rat).SetFloat64(math.Abs(x))
	r.Mul(r, perDegree) // units of 1e-4'
	// rounded = floor(r + 1/2)
	h := new(big.Rat).Add(r, big.NewRat(1, 2))
	rounded := new(big.Int).Quo(h.Num(), h.Denom())
	fl := new(big.Int).Quo(r.Num(), r.Denom())
	var out []string
	min := new(big.Int).Mod(rounded, big.NewInt(10000))
	if min.Sign() == 0 {
		if r.IsInt() {
			out = append(out, "coord:on-whole-minute")
		} else if rounded.Cmp(fl) > 0 {
			out = append(out, "coord:rounds-up-to-whole-minute")
			if new(big.Int).Mod(rounded, big.NewInt(unitsPerDegree)).Sign() == 0 {
				out = append(out, "coord:rounds-up-to-whole-degree")
			}
		} else {
			out = append(out, "coord:just-above-whole-minute")
		}
	}
	return out
}

func (c Case) mask() int {
	m := 0
	if c.HasPos {
		m |= 1
	}
	if c.HasSpeed {
		m |= 2
	}
	if c.HasCourse {
		m |= 4
	}
	if c.Comment != "" {
		m |= 8
	}
	return m
}

func (c Case) hash() uint64 {
	return harness.Hash(c.HasPos, math.Float64bits(c.Lat), math.Float64bits(c.Lon), c.mask(), math.Float64bits(c.Speed), c.Course, c.Magnetic, c.Comment, c.Date, c.Zone)
}

func hemiLabel(lat, lon float64) string {
	h := func(x float64, p, n string) string {
		switch {
		case x > 0:
			return p
		case x < 0:
			return n
		}
		return "0"
	}
	return "hemi:" + h(lat, "N", "S") + h(lon, "E", "W")
}

func account(c Case, o outcome, boundary bool) {
	harness.Eval()
	harness.NonTrivial(c.hash())
	harness.Label("origin:"+c.Origin, fmt.Sprintf("fields:%04b(comment,course,speed,position)", c.mask()))
	if o.twice {
		harness.Label("history:Message-called-twice-on-the-same-report")
	}
	if boundary {
		harness.Label("boundary_adjacent")
	}
	if c.HasPos {
		harness.Label(hemiLabel(c.Lat, c.Lon))
		harness.Label(coordLabels(c.Lat)...)
		harness.Label(coordLabels(c.Lon)...)
	}
	if c.Comment != "" {
		for _, r := range c.Comment {
			if r > 0x7f {
				harness.Label("comment:non-ascii")
				break
			}
		}
		if len([]rune(c.Comment)) == 80 {
			harness.Label("comment:80-chars")
		}
	}
	if harness.WantSample() && c.HasPos && boundary && c.mask() > 1 {
		harness.Sample(map[string]any{"case": c, "latitude_line": o.lat, "longitude_line": o.lon, "course_line": o.course})
	}
}

// ---- generated cases --------------------------------------------------------------------------

func pow10(e int) float64 { return math.Pow(10, -float64(e)) }

// genCoord draws one coordinate in [-max, max]; boundary reports whether it was placed next to
// a whole minute or a rounding tie on purpose.
func genCoord(t *rapid.T, max int, label string) (x float64, boundary bool) {
	fm := float64(max)
	switch rapid.IntRange(0, 9).Draw(t, label+"_kind") {
	case 0, 1, 2:
		x = rapid.Float64Range(-fm, fm).Draw(t, label)
	case 3, 4, 5, 6: // next to a whole minute
		k := rapid.IntRange(0, max*60).Draw(t, label+"_minute")
		if rapid.Bool().Draw(t, label+"_wholedeg") {
			k -= k % 60
		}
		b := float64(k) / 60
		switch rapid.IntRange(0, 3).Draw(t, label+"_off") {
		case 0:
			x = b - pow10(rapid.IntRange(3, 16).Draw(t, label+"_e"))
		case 1:
			x = b + pow10(rapid.IntRange(3, 16).Draw(t, label+"_e"))
		case 2: // around the half-unit below/above the minute
			d := (0.00005 + float64(rapid.IntRange(-20, 20).Draw(t, label+"_d"))*1e-7) / 60
			if rapid.Bool().Draw(t, label+"_above") {
				x = b + d
			} else {
				x = b - d
			}
		default:
			x = b
			dir := math.Inf(1)
			if rapid.Bool().Draw(t, label+"_down") {
				dir = math.Inf(-1)
			}
			for i := rapid.IntRange(0, 3).Draw(t, label+"_ulps"); i > 0; i-- {
				x = math.Nextafter(x, dir)
			}
		}
		if rapid.Bool().Draw(t, label+"_neg") {
			x = -x
		}
		boundary = true
	case 7: // tiny magnitudes, zeros
		switch rapid.IntRange(0, 3).Draw(t, label+"_tiny") {
		case 0:
			x = 0
		case 1:
			x = math.Copysign(0, -1)
		case 2:
			x = math.SmallestNonzeroFloat64
		default:
			x = pow10(rapid.IntRange(5, 300).Draw(t, label+"_e"))
		}
		if rapid.Bool().Draw(t, label+"_neg") {
			x = -x
		}
		boundary = true
	case 8: // range ends
		x = fm - float64(rapid.IntRange(0, 3).Draw(t, label+"_m"))*pow10(rapid.IntRange(6, 15).Draw(t, label+"_e"))
		if rapid.Bool().Draw(t, label+"_neg") {
			x = -x
		}
		boundary = true
	default: // next to a rounding tie of the fourth minute decimal
		u := rapid.IntRange(0, max*unitsPerDegree-1).Draw(t, label+"_unit")
		x = (float64(u) + 0.5 + float64(rapid.IntRange(-3, 3).Draw(t, label+"_d"))*1e-6) / unitsPerDegree
		if rapid.Bool().Draw(t, label+"_neg") {
			x = -x
		}
	}
	if x > fm {
		x = fm
	}
	if x < -fm {
		x = -fm
	}
	return x, boundary
}

var latin1 = func() []rune {
	var r []rune
	for c := rune(0x20); c <= 0x7e; c++ {
		r = append(r, c)
	}
	for c := rune(0xa0); c <= 0xff; c++ {
		r = append(r, c)
	}
	return r
}()

func genCase(t *rapid.T) (Case, bool) {
	c := Case{Origin: "generated"}
	c.Call = rapid.StringMatching(`[A-Z]{1,2}[0-9][A-Z]{1,3}(-[1-9])?`).Draw(t, "call")
	c.Date = rapid.Int64Range(0, 4102444799).Draw(t, "date")
	c.Zone = rapid.IntRange(-56, 56).Draw(t, "zone") * 900
	mask := rapid.IntRange(0, 15).Draw(t, "fields")
	if rapid.IntRange(0, 3).Draw(t, "force_pos") > 0 {
		mask |= 1
	}
	var b1, b2 bool
	if mask&1 != 0 {
		c.HasPos = true
		c.Lat, b1 = genCoord(t, 90, "lat")
		c.Lon, b2 = genCoord(t, 180, "lon")
	}
	if mask&2 != 0 {
		c.HasSpeed = true
		if rapid.Bool().Draw(t, "speed_int") {
			c.Speed = float64(rapid.IntRange(0, 400).Draw(t, "speed"))
		} else {
			c.Speed = rapid.Float64Range(0, 1000).Draw(t, "speed")
		}
	}
	if mask&4 != 0 {
		c.HasCourse = true
		c.Course = rapid.IntRange(0, 360).Draw(t, "course")
		c.Magnetic = rapid.Bool().Draw(t, "magnetic")
	}
	if mask&8 != 0 {
		n := rapid.SampledFrom([]int{1, 2, 10, 40, 79, 80}).Draw(t, "comment_len")
		c.Comment = rapid.StringOfN(rapid.RuneFrom(latin1), 1, n, -1).Draw(t, "comment")
	}
	return c, b1 || b2
}

func TestProp(t *testing.T) {
	rapid.Check(t, func(t *rapid.T) {
		c, boundary := genCase(t)
		sig, msg, o := run(c) // panics are caught in run; nothing here can kill the process
		account(c, o, boundary)
		if sig != "" {
			harness.Fail(t, sig, c, "%s", msg)
		}
	})
}

// ---- enumerated sub-spaces --------------------------------------------------------------------

const (
	enumDate = 1758844800 // 2025-09-26 00:00 UTC
	enumCall = "N0CALL"
)

// boundaryValues lists b +/- offsets for every whole minute b of 0..max degrees, both signs.
func boundaryValues(max int) []float64 {
	offs := []float64{0, 1e-9, 0.000049 / 60, 0.000051 / 60, 0.0001 / 60, 0.5 / 60}
	fm := float64(max)
	var out []float64
	for k := 0; k <= max*60; k++ {
		b := float64(k) / 60
		for _, s := range []float64{1, -1} {
			if k == 0 && s < 0 {
				continue
			}
			for _, o := range offs {
				for _, d := range []float64{1, -1} {
					if o == 0 && d < 0 {
						continue
					}
					v := s * (b + d*o)
					if v >= -fm && v <= fm {
						out = append(out, v)
					}
				}
			}
		}
	}
	return out
}

// enumFail keeps the first (and, within a signature, the simplest so far) failing case and lets
// the enumeration go on, so one run reports every distinct signature.
type enumFails struct {
	first map[string]Case
	msgs  map[string]string
}

func (e *enumFails) add(sig, msg string, c Case) {
	if e.first == nil {
		e.first, e.msgs = map[string]Case{}, map[string]string{}
	}
	if _, ok := e.first[sig]; !ok {
		e.first[sig], e.msgs[sig] = c, msg
	}
}

func (e *enumFails) report(t *testing.T) {
	sigs := make([]string, 0, len(e.first))
	for s := range e.first {
		sigs = append(sigs, s)
	}
	// deterministic order
	for i := range sigs {
		for j := i + 1; j < len(sigs); j++ {
			if sigs[j] < sigs[i] {
				sigs[i], sigs[j] = sigs[j], sigs[i]
			}
		}
	}
	failed := false
	for _, s := range sigs {
		if !harness.Known(s) {
			harness.Record(s, e.first[s], e.msgs[s])
			t.Errorf("VIOLATION[%s] %s", s, e.msgs[s])
			failed = true
		}
	}
	if failed {
		t.FailNow()
	}
}

func TestExhaustive(t *testing.T) {
	t.Run("courses", func(t *testing.T) {
		var fails enumFails
		idx := 0
		for deg := 0; deg <= 360; deg++ {
			for _, mag := range []bool{false, true} {
				for mask := 0; mask < 16; mask++ {
					idx++
					if !harness.Mine(idx) {
						continue
					}
					c := Case{Origin: "courses-x-fields", Call: enumCall, Date: enumDate + int64(idx)*60, Course: deg, Magnetic: mag}
					if mask&1 != 0 {
						c.HasPos, c.Lat, c.Lon = true, float64(deg)/4-45, float64(deg)-180
					}
					if mask&2 != 0 {
						c.HasSpeed, c.Speed = true, float64(deg%50)/2
					}
					c.HasCourse = mask&4 != 0
					if mask&8 != 0 {
						c.Comment = fmt.Sprintf("course %d", deg)
					}
					sig, msg, o := run(c)
					account(c, o, false)
					if sig != "" {
						fails.add(sig, msg, c)
					}
				}
			}
		}
		harness.ExhaustiveSpace("courses 0..360 x {true,magnetic} x all 16 present/absent combinations of {position, speed, course, comment} (partitioned over the workers)")
		fails.report(t)
	})

	t.Run("boundaries", func(t *testing.T) {
		var fails enumFails
		lats, lons := boundaryValues(90), boundaryValues(180)
		for idx, lon := range lons {
			if !harness.Mine(idx) {
				continue
			}
			c := Case{Origin: "whole-minute-boundaries", Call: enumCall, Date: enumDate, HasPos: true, Lat: lats[(idx*100003+17)%len(lats)], Lon: lon} // 100003 is prime: every latitude value is used
			if idx%7 == 0 {
				c.HasCourse, c.Course, c.Magnetic = true, idx%361, idx%2 == 0
			}
			sig, msg, o := run(c)
			account(c, o, true)
			if sig != "" {
				fails.add(sig, msg, c)
			}
		}
		if i, _ := harness.Shard(); i == 0 {
			harness.Note("boundary enumeration: %d latitude and %d longitude values (every whole minute, both signs, 11 offsets)", len(lats), len(lons))
		}
		harness.ExhaustiveSpace("every whole minute of 0..90 deg latitude / 0..180 deg longitude, both signs, +/- {0, 1e-9 deg, 0.000049', 0.000051', 0.0001', 0.5'} (partitioned over the workers)")
		fails.report(t)
	})

	t.Run("grid", func(t *testing.T) {
		var fails enumFails
		per := harness.Scale(4, 20) // lattice points per degree
		sub := per / 4              // hashed sub-lattice: every 0.25 deg
		nlat, nlon := 180*per+1, 360*per+1
		evals := 0
		hemis := map[string]int{}
		for i := 0; i < nlat; i++ {
			lat := float64(i-90*per) / float64(per)
			for j := 0; j < nlon; j++ {
				if !harness.Mine(i*nlon + j) {
					continue
				}
				lon := float64(j-180*per) / float64(per)
				c := Case{Origin: "lattice", Call: enumCall, Date: enumDate, HasPos: true, Lat: lat, Lon: lon}
				sig, msg, _ := run(c)
				evals++
				hemis[hemiLabel(lat, lon)]++
				if i%sub == 0 && j%sub == 0 {
					harness.NonTrivial(c.hash())
				}
				if sig != "" {
					fails.add(sig, msg, c)
				}
			}
		}
		harness.EvalN(evals)
		harness.LabelN("origin:lattice", evals)
		harness.LabelN("fields:0001(comment,course,speed,position)", evals)
		for k, v := range hemis {
			harness.LabelN(k, v)
		}
		harness.ExhaustiveSpace(fmt.Sprintf("every (lat,lon) pair of the %g deg lattice over [-90,90] x [-180,180]: %d pairs (partitioned over the workers)", 1/float64(per), nlat*nlon))
		fails.report(t)
	})
}

func TestReplay(t *testing.T) {
	for _, f := range harness.ReplayFiles() {
		var c Case
		if _, err := harness.ReplayCase(f, &c); err != nil {
			t.Fatalf("%s: %v", f, err)
		}
		sig, msg, _ := run(c)
		harness.Eval()
		if sig != "" {
			harness.Fail(t, sig, c, "replay %s: %s", f, msg)
		}
	}
}
