// C09 — message serialisation round-trips and is canonical.
//
// A message is built only through the exported API from a structured, generated description,
// serialised with Bytes(), parsed back with ReadFrom through a reader that hands the bytes out in
// a generated chunk schedule, and compared with (a) the message it came from (headers, body,
// attachments, re-serialised bytes) and (b) the description itself (subject, file names, date,
// addresses, type), using this file's own model of the documented normalisation.
//
// Domain (see DESIGN.md §3 C09 and §6): header values, subjects and file names are printable
// ASCII plus U+00A0..U+00FF (and single control characters other than NUL and TAB between two printable ones),
// do not begin or end with a space (the header writer trims values, the
// wire format cannot carry it) and contain no well-formed RFC 2047 word "=?charset?x?text?=" (by
// definition of the format such text *is* an encoded word). Addresses contain no ':' except the
// explicit "SMTP:" prefix. Attachment names are not empty (NewFile documents a panic). The reader
// never returns (0, nil) and reports io.EOF on its own, after the last byte.
package c09

import (
	"bytes"
	"fmt"
	"io"
	"mime"
	"net/textproto"
	"reflect"
	"regexp"
	"strconv"
	"strings"
	"testing"
	"time"
	"unicode/utf8"

	"github.com/la5nta/wl2k-go/fbb"
	"pgregory.net/rapid"

	"verif/internal/gen"
	"verif/internal/harness"
)

func TestMain(m *testing.M) {
	harness.Property("C09",
		"messages built through NewMessage / Header.Set(Mid) / SetDate (any minute of years 1..9999, any zone) / SetFrom / AddTo / AddCc (0..5 addresses each: callsign with or without SSID, call@winlink.org, local@domain, SMTP:local@domain, any case) / SetSubject and NewFile names over printable ASCII + U+00A0..U+00FF (Q-encoding triggers ? = _, fragments of encoded-word syntax, values up to 270 characters; in an eighth of them one control character - CR, LF, CRLF, SOH, ESC, DEL, NEL, CSI; not TAB, which the word encoder passes through raw - between two printable characters) / SetBody (mixed LF/CRLF, lines around 998 bytes, non-ASCII) / 0..4 attachments of arbitrary bytes (empty, NUL, CRLF, header look-alikes) / 0..4 X- headers (repeated keys) / every MsgType; parsed back through a reader with a generated chunk schedule (1-byte reads included). Non-trivial = at least one attachment or a header that needs word-encoding; distinct by hash(serialised bytes, schedule).",
		"domain: values without leading/trailing space and without a literal well-formed RFC 2047 word; addresses without ':' other than the SMTP: prefix; non-empty file names",
		"address expectation is this package's model of the documented normalisation (short and @winlink.org addresses become the upper-cased callsign with empty Proto; anything else with '@' is Proto SMTP with the address unchanged), not AddressFromString",
		"the reader returns 1..n bytes per call, never (0,nil), and io.EOF separately",
		"whether a CRLF follows the body of a message without attachments is not judged (the property only asks for the round trip); the body text itself is C18's subject, here only its round trip is judged",
	)
	harness.Main(m)
}

// ---- case -------------------------------------------------------------------------------------

type Addr struct {
	Kind  string `json:"kind"`  // call | winlink | smtp | smtp-explicit
	Value string `json:"value"` // call: the callsign; winlink: call@WinLink.org; smtp*: local@domain
}

// input is the string handed to SetFrom/AddTo/AddCc.
func (a Addr) input() string {
	if a.Kind == "smtp-explicit" {
		return "SMTP:" + a.Value
	}
	return a.Value
}

func asciiUpper(s string) string {
	b := []byte(s)
	for i, c := range b {
		if c >= 'a' && c <= 'z' {
			b[i] = c - 32
		}
	}
	return string(b)
}

// expect is the model of the documented normalisation.
func (a Addr) expect() fbb.Address {
	switch a.Kind {
	case "call":
		return fbb.Address{Proto: "", Addr: asciiUpper(a.Value)}
	case "winlink":
		return fbb.Address{Proto: "", Addr: asciiUpper(a.Value[:strings.IndexByte(a.Value, '@')])}
	default:
		return fbb.Address{Proto: "SMTP", Addr: a.Value}
	}
}

type FileSpec struct {
	Name string `json:"name"`
	Data []byte `json:"data"`
}

type XHeader struct {
	Key   string `json:"key"`
	Value string `json:"value"`
}

type Part struct {
	Unit string `json:"unit"`
	Rep  int    `json:"rep"`
}

type Case struct {
	Type     string     `json:"type"`
	Mycall   string     `json:"mycall"`
	Mid      string     `json:"mid"`
	DateUnix int64      `json:"date_unix"` // instant handed to SetDate (seconds) ...
	DateNano int        `json:"date_nano"` // ... plus nanoseconds,
	ZoneSec  int        `json:"zone_sec"`  // presented in this fixed zone
	From     Addr       `json:"from"`
	To       []Addr     `json:"to"`
	Cc       []Addr     `json:"cc"`
	Subject  *string    `json:"subject"` // nil: SetSubject is not called
	Body     []Part     `json:"body"`
	SetBody  bool       `json:"set_body"` // false: SetBody is not called
	Files    []FileSpec `json:"files"`
	X        []XHeader  `json:"x"`
	Chunks   []int      `json:"chunks"`
	// LocalMin != 0: the process runs in a local time zone with that offset from UTC in minutes (time.Local);
	// the Date header is UTC by definition and Date() must return the same instant whatever the local zone is
	LocalMin int `json:"local_min,omitempty"`
}

func (c Case) bodyText() string {
	var sb strings.Builder
	for _, p := range c.Body {
		for i := 0; i < p.Rep; i++ {
			sb.WriteString(p.Unit)
		}
	}
	return sb.String()
}

var encodedWord = regexp.MustCompile(`=\?[^?]*\?.\?.*\?=`)

// inDomain reports whether s is a header text of the property's domain.
func inDomain(s string) bool {
	if strings.HasPrefix(s, " ") || strings.HasSuffix(s, " ") || encodedWord.MatchString(s) {
		return false
	}
	rs := []rune(s)
	for i, r := range rs {
		printable := (r >= 0x20 && r <= 0x7E) || (r >= 0xA0 && r <= 0xFF)
		// control characters (C0 without NUL, DEL, C1) are characters of the format's character set too; the header
		// writer trims white space at the edges, so they are in the domain only between two printable characters
		control := (r >= 0x01 && r <= 0x1F) || (r >= 0x7F && r <= 0x9F)
		if !printable && !(control && i > 0 && i < len(rs)-1) {
			return false
		}
	}
	return utf8.ValidString(s)
}

func asciiPrintable(s string) bool {
	for i := 0; i < len(s); i++ {
		if s[i] < 0x20 || s[i] > 0x7E {
			return false
		}
	}
	return true
}

var (
	callRe  = regexp.MustCompile(`^[A-Za-z0-9]{3,7}(-[0-9]{1,2})?$`)
	smtpRe  = regexp.MustCompile(`^[A-Za-z0-9._+-]+@[A-Za-z0-9.-]+$`)
	tokenRe = regexp.MustCompile(`^[Xx]-[A-Za-z0-9-]+$`)
	midRe   = regexp.MustCompile(`^[A-Z0-9]{1,12}$`)
)

func (a Addr) valid() bool {
	switch a.Kind {
	case "call":
		return callRe.MatchString(a.Value)
	case "winlink":
		i := strings.IndexByte(a.Value, '@')
		return i > 0 && callRe.MatchString(a.Value[:i]) && strings.EqualFold(a.Value[i+1:], "winlink.org")
	case "smtp", "smtp-explicit":
		i := strings.IndexByte(a.Value, '@')
		return smtpRe.MatchString(a.Value) && !strings.EqualFold(a.Value[i+1:], "winlink.org")
	}
	return false
}

// valid re-checks the domain (a replay file may be hand-written).
func (c Case) valid() string {
	if !midRe.MatchString(c.Mid) || !callRe.MatchString(c.Mycall) {
		return "mid/mycall"
	}
	if !c.From.valid() {
		return "from"
	}
	for _, a := range append(append([]Addr{}, c.To...), c.Cc...) {
		if !a.valid() {
			return "address"
		}
	}
	if c.Subject != nil && !inDomain(*c.Subject) {
		return "subject"
	}
	for _, f := range c.Files {
		if f.Name == "" || !inDomain(f.Name) {
			return "file name"
		}
	}
	for _, x := range c.X {
		if !tokenRe.MatchString(x.Key) || !asciiPrintable(x.Value) || !inDomain(x.Value) {
			return "x header"
		}
	}
	lo, hi := time.Date(1, 1, 1, 0, 0, 0, 0, time.UTC).Unix(), time.Date(9999, 12, 31, 23, 59, 59, 0, time.UTC).Unix()
	if c.DateUnix < lo || c.DateUnix > hi || c.DateNano < 0 || c.DateNano > 999999999 {
		return "date"
	}
	switch fbb.MsgType(c.Type) {
	case "", fbb.Private, fbb.Service, fbb.Inquiry, fbb.PositionReport, fbb.Option, fbb.System:
	default:
		return "type"
	}
	for _, n := range c.Chunks {
		if n <= 0 {
			return "chunks"
		}
	}
	text := c.bodyText()
	if !utf8.ValidString(text) {
		return "body"
	}
	for i, r := range text {
		if r > 0xFF || (r == '\r' && !strings.HasPrefix(text[i+1:], "\n")) {
			return "body"
		}
	}
	return ""
}

// ---- a reader with a chunk schedule -----------------------------------------------------------

type chunkReader struct {
	data  []byte
	sched []int
	i     int
	calls int
}

func (r *chunkReader) Read(p []byte) (int, error) {
	r.calls++
	if len(r.data) == 0 {
		return 0, io.EOF
	}
	if len(p) == 0 {
		return 0, nil
	}
	n := 1 << 20
	if len(r.sched) > 0 {
		n = r.sched[r.i%len(r.sched)]
		r.i++
	}
	if n < 1 {
		n = 1
	}
	if n > len(p) {
		n = len(p)
	}
	if n > len(r.data) {
		n = len(r.data)
	}
	copy(p, r.data[:n])
	r.data = r.data[n:]
	return n, nil
}

// ---- independent wire model ---------------------------------------------------------------------

type wire struct {
	keys, vals []string
	body       []byte
	files      [][]byte
	bodyCRLF   bool // a CRLF follows the body
}

func (w *wire) get(key string) []string {
	var out []string
	for i, k := range w.keys {
		if k == key {
			out = append(out, w.vals[i])
		}
	}
	return out
}

// parseWire reads the Winlink message structure: header lines "Key: value" up to an empty line,
// Body: n bytes of body, File: n name per attachment, every section followed by CRLF.
func parseWire(raw []byte) (*wire, error) {
	w := new(wire)
	rest := raw
	for {
		i := bytes.Index(rest, []byte("\r\n"))
		if i < 0 {
			return nil, fmt.Errorf("header is not terminated by an empty line")
		}
		line := rest[:i]
		rest = rest[i+2:]
		if len(line) == 0 {
			break
		}
		for _, b := range line {
			if b < 0x20 || b > 0x7E {
				return nil, fmt.Errorf("header line %q holds a byte outside printable ASCII", line)
			}
		}
		j := bytes.IndexByte(line, ':')
		if j <= 0 {
			return nil, fmt.Errorf("header line %q has no key", line)
		}
		v := string(line[j+1:])
		if !strings.HasPrefix(v, " ") {
			return nil, fmt.Errorf("header line %q: no space after the colon", line)
		}
		w.keys = append(w.keys, string(line[:j]))
		w.vals = append(w.vals, v[1:])
	}
	size := func(s string) (int, error) {
		n, err := strconv.Atoi(s)
		if err != nil || n < 0 {
			return 0, fmt.Errorf("bad section size %q", s)
		}
		return n, nil
	}
	bn := 0
	if b := w.get("Body"); len(b) > 1 {
		return nil, fmt.Errorf("%d Body headers", len(b))
	} else if len(b) == 1 {
		var err error
		if bn, err = size(b[0]); err != nil {
			return nil, err
		}
	}
	if bn > len(rest) {
		return nil, fmt.Errorf("Body: %d but only %d bytes follow the header", bn, len(rest))
	}
	w.body, rest = rest[:bn], rest[bn:]
	fh := w.get("File")
	if len(fh) == 0 {
		switch string(rest) {
		case "":
		case "\r\n":
			w.bodyCRLF = true
		default:
			return nil, fmt.Errorf("%d unexpected bytes after the body of a message without attachments", len(rest))
		}
		return w, nil
	}
	if !bytes.HasPrefix(rest, []byte("\r\n")) {
		return nil, fmt.Errorf("no CRLF after the body")
	}
	w.bodyCRLF = true
	rest = rest[2:]
	for i, h := range fh {
		sp := strings.IndexByte(h, ' ')
		if sp < 0 {
			return nil, fmt.Errorf("File header %q has no name", h)
		}
		n, err := size(h[:sp])
		if err != nil {
			return nil, err
		}
		if n+2 > len(rest) || string(rest[n:n+2]) != "\r\n" {
			return nil, fmt.Errorf("attachment %d (%d bytes) is not followed by CRLF", i+1, n)
		}
		w.files = append(w.files, rest[:n])
		rest = rest[n+2:]
	}
	if len(rest) != 0 {
		return nil, fmt.Errorf("%d bytes after the last attachment", len(rest))
	}
	return w, nil
}

func fromLatin1(b []byte) string {
	var sb strings.Builder
	for _, c := range b {
		sb.WriteRune(rune(c))
	}
	return sb.String()
}

// ---- run ------------------------------------------------------------------------------------------

type outcome struct {
	local   bool // the case ran with a non-UTC local zone
	history bool // the re-use phase ran (second ReadFrom into the same value, setters after accessors)
	skipped string
	raw     []byte
	encoded bool // a header needed word-encoding
	calls   int
}

func build(c Case) (*fbb.Message, error) {
	m := fbb.NewMessage(fbb.MsgType(c.Type), c.Mycall)
	m.Header.Set("Mid", c.Mid)
	m.SetDate(time.Unix(c.DateUnix, int64(c.DateNano)).In(time.FixedZone("", c.ZoneSec)))
	m.SetFrom(c.From.input())
	for _, a := range c.To {
		m.AddTo(a.input())
	}
	var cc []string
	for _, a := range c.Cc {
		cc = append(cc, a.input())
	}
	m.AddCc(cc...)
	if c.Subject != nil {
		m.SetSubject(*c.Subject)
	}
	if c.SetBody {
		if err := m.SetBody(c.bodyText()); err != nil {
			return nil, err
		}
	}
	for _, f := range c.Files {
		m.AddFile(fbb.NewFile(f.Name, f.Data))
	}
	for _, x := range c.X {
		m.Header.Add(x.Key, x.Value)
	}
	return m, nil
}

func addrsEqual(got []fbb.Address, want []Addr) bool {
	if len(got) != len(want) {
		return false
	}
	for i := range got {
		if got[i] != want[i].expect() {
			return false
		}
	}
	return true
}

func run(c Case) (sig, msg string, o outcome) {
	if why := c.valid(); why != "" {
		o.skipped = why
		return
	}
	psig, pmsg := harness.Catch(func() {
		sig, msg = judge(c, &o)
	})
	if psig != "" {
		return psig, pmsg, o
	}
	return
}

func judge(c Case, o *outcome) (sig, msg string) {
	if c.LocalMin != 0 {
		old := time.Local
		time.Local = time.FixedZone("LOCAL", c.LocalMin*60)
		defer func() { time.Local = old }()
		o.local = true
	}
	m, err := build(c)
	if err != nil {
		return "setbody-error", fmt.Sprintf("SetBody: %v", err)
	}
	raw, err := m.Bytes()
	if err != nil {
		return "serialise-error", fmt.Sprintf("Bytes() of a message built through the API: %v (Date header %q)", err, m.Header.Get("Date"))
	}
	o.raw = raw
	// the caller owns what Bytes() returned: a private copy is kept and compared at the very end, after many more
	// serialisations of this and of other messages
	rawCopy := append([]byte(nil), raw...)
	defer func() {
		if sig == "" && !bytes.Equal(raw, rawCopy) {
			sig, msg = "bytes-result-changed-later", fmt.Sprintf("the slice returned by the first Bytes() call was modified by later calls (first difference at byte %d of %d): the result aliases memory the library reuses", firstDiff(raw, rawCopy), len(rawCopy))
		}
	}()
	if again, err := m.Bytes(); err != nil || !bytes.Equal(raw, again) {
		return "serialisation-not-deterministic", fmt.Sprintf("two Bytes() calls on the same message differ (err=%v)", err)
	}
	if m1, err := build(c); err == nil {
		if again, err := m1.Bytes(); err != nil || !bytes.Equal(raw, again) {
			return "serialisation-not-deterministic", fmt.Sprintf("the same API calls twice give different bytes (err=%v): first difference at byte %d", err, firstDiff(raw, again))
		}
	}

	// the bytes have the Winlink message structure and carry the sections unchanged
	w, err := parseWire(raw)
	if err != nil {
		return "wire-format", fmt.Sprintf("serialised message: %v", err)
	}
	if len(w.keys) == 0 || w.keys[0] != "Mid" || w.vals[0] != c.Mid {
		return "wire-format", fmt.Sprintf("first header line is not the Mid: %q", w.keys)
	}
	if len(w.files) != len(c.Files) {
		return "wire-format", fmt.Sprintf("%d File headers for %d attachments", len(w.files), len(c.Files))
	}
	for i, f := range c.Files {
		if !bytes.Equal(w.files[i], f.Data) {
			return "wire-format", fmt.Sprintf("attachment %d on the wire differs from the data (wire %d bytes, data %d bytes, first difference at %d)", i+1, len(w.files[i]), len(f.Data), firstDiff(w.files[i], f.Data))
		}
	}
	// SetDate documents the Winlink layout YYYY/MM/DD HH:MM in UTC
	du := time.Unix(c.DateUnix, 0).UTC()
	wantDateHdr := fmt.Sprintf("%04d/%02d/%02d %02d:%02d", du.Year(), int(du.Month()), du.Day(), du.Hour(), du.Minute())
	if d := w.get("Date"); len(d) != 1 || d[0] != wantDateHdr {
		return "wire-format", fmt.Sprintf("Date header %q, want %q (YYYY/MM/DD HH:MM, UTC)", d, wantDateHdr)
	}
	for i, k := range w.keys {
		if strings.Contains(w.vals[i], "=?") && (k == "Subject" || k == "File") {
			o.encoded = true
		}
	}
	bodyBefore, err := m.Body()
	if err != nil || bodyBefore != fromLatin1(w.body) {
		return "wire-format", fmt.Sprintf("body section on the wire (%d bytes) is not Body() of the message (%d bytes, err=%v)", len(w.body), len(bodyBefore), err)
	}

	// parse it back
	rd := &chunkReader{data: raw, sched: c.Chunks}
	m2 := new(fbb.Message)
	if err := m2.ReadFrom(rd); err != nil {
		return "parse-error", fmt.Sprintf("ReadFrom of the serialised message (%d bytes, chunks %v): %v", len(raw), c.Chunks, err)
	}
	o.calls = rd.calls
	if !reflect.DeepEqual(m.Header, m2.Header) {
		return "header-mismatch", fmt.Sprintf("parsed header differs: %s", headerDiff(m.Header, m2.Header))
	}
	body2, err := m2.Body()
	if err != nil || body2 != bodyBefore || m2.BodySize() != m.BodySize() || m2.BodySize() != len(w.body) {
		return "body-mismatch", fmt.Sprintf("parsed body: %d bytes (err=%v), BodySize %d; built: %d bytes, BodySize %d; wire %d", len(body2), err, m2.BodySize(), len(bodyBefore), m.BodySize(), len(w.body))
	}
	f2 := m2.Files()
	if len(f2) != len(c.Files) {
		return "file-mismatch", fmt.Sprintf("%d attachments parsed, %d added", len(f2), len(c.Files))
	}
	for i, f := range c.Files {
		if f2[i].Name() != f.Name {
			return "filename-accessor", fmt.Sprintf("attachment %d: parsed name %q, want %q (File header %q)", i+1, f2[i].Name(), f.Name, m.Header["File"][i])
		}
		if !bytes.Equal(f2[i].Data(), f.Data) || f2[i].Size() != len(f.Data) {
			return "file-mismatch", fmt.Sprintf("attachment %d (%q): parsed %d bytes, added %d bytes, first difference at %d", i+1, f.Name, f2[i].Size(), len(f.Data), firstDiff(f2[i].Data(), f.Data))
		}
		if f1 := m.Files()[i]; f1.Name() != f.Name || !bytes.Equal(f1.Data(), f.Data) {
			return "file-mismatch", fmt.Sprintf("attachment %d of the built message differs from what was added", i+1)
		}
	}
	raw2, err := m2.Bytes()
	if err != nil || !bytes.Equal(raw, raw2) {
		return "reserialise-differs", fmt.Sprintf("re-serialising the parsed message: err=%v, %d bytes vs %d, first difference at byte %d: %q vs %q", err, len(raw2), len(raw), firstDiff(raw, raw2), around(raw, firstDiff(raw, raw2)), around(raw2, firstDiff(raw, raw2)))
	}

	// accessors return what was set (on the built and on the parsed message)
	if sig, msg := accessors("parsed", m2, c); sig != "" {
		return sig, msg
	}
	if sig, msg := accessors("built", m, c); sig != "" {
		return sig, msg
	}
	// history: the same Message values are used again after their accessors were called. (a) the parsed value
	// receives a second, different message through ReadFrom (which replaces header, body and attachments);
	// (b) the built value gets a new date and subject through the setters, then a new Date through the public
	// Header. Every accessor must describe the current content, and the bytes must be those of the second message.
	c2 := c
	c2.Mid = "B" + c.Mid[1:]
	if c2.Mid == c.Mid {
		c2.Mid = "C" + c.Mid[1:]
	}
	c2.DateUnix = c.DateUnix + 3*86400 + 7*60
	if c2.DateUnix > time.Date(9999, 12, 31, 23, 59, 59, 0, time.UTC).Unix() {
		c2.DateUnix = c.DateUnix - 3*86400 - 7*60
	}
	if c.Subject != nil && len(*c.Subject) > 1 {
		s2 := (*c.Subject)[:len(*c.Subject)/2]
		if utf8.ValidString(s2) && strings.TrimSpace(s2) == s2 && s2 != "" {
			c2.Subject = &s2
		}
	}
	c2.From, c2.To = c.From, c.To
	if len(c.To) > 1 {
		c2.To = c.To[1:]
	}
	if len(c.Files) > 0 {
		c2.Files = c.Files[1:]
	}
	if c2.valid() == "" && len(raw)%2 == 0 { // every second case (by a property of the case itself)
		mB, err := build(c2)
		if err != nil {
			return "setbody-error", fmt.Sprintf("SetBody (second message): %v", err)
		}
		rawB, err := mB.Bytes()
		if err != nil {
			return "serialise-error", fmt.Sprintf("Bytes() of the second message: %v", err)
		}
		if err := m2.ReadFrom(&chunkReader{data: rawB, sched: c.Chunks}); err != nil {
			return "parse-error", fmt.Sprintf("ReadFrom of a second message into a Message value that already held one: %v", err)
		}
		if sig, msg := accessors("value re-used for a second ReadFrom", m2, c2); sig != "" {
			return sig, msg
		}
		if again, err := m2.Bytes(); err != nil || !bytes.Equal(again, rawB) {
			return "reserialise-differs", fmt.Sprintf("a Message value re-used for a second ReadFrom serialises to other bytes than it read: err=%v, first difference at byte %d", err, firstDiff(rawB, again))
		}
		if len(m2.Files()) != len(c2.Files) {
			return "file-mismatch", fmt.Sprintf("a Message value re-used for a second ReadFrom has %d attachments, the second message %d", len(m2.Files()), len(c2.Files))
		}
		// (b) setters after the accessors were used
		m.Header.Set("Mid", c2.Mid)
		m.SetDate(time.Unix(c2.DateUnix, 0))
		if c2.Subject != nil {
			m.SetSubject(*c2.Subject)
		}
		c3 := c
		c3.Mid, c3.DateUnix, c3.Subject = c2.Mid, c2.DateUnix, c2.Subject
		if sig, msg := accessors("built message after SetDate/SetSubject were called again", m, c3); sig != "" {
			return sig, msg
		}
		du3 := time.Unix(c.DateUnix, 0).UTC()
		m.Header.Set("Date", fmt.Sprintf("%04d/%02d/%02d %02d:%02d", du3.Year(), int(du3.Month()), du3.Day(), du3.Hour(), du3.Minute()))
		c3.DateUnix = c.DateUnix
		if sig, msg := accessors("built message after Header.Set(\"Date\")", m, c3); sig != "" {
			return sig, msg
		}
		o.history = true
	}
	// extra headers survive, in order, under the canonical key
	wantX := map[string][]string{}
	for _, x := range c.X {
		k := textproto.CanonicalMIMEHeaderKey(x.Key)
		wantX[k] = append(wantX[k], x.Value)
	}
	for k, v := range wantX {
		if !reflect.DeepEqual([]string(m2.Header[k]), v) {
			return "header-mismatch", fmt.Sprintf("parsed header %s = %q, want %q", k, m2.Header[k], v)
		}
	}
	// what is on the wire for Subject and file names decodes (RFC 2047, std-lib decoder) to what was set
	dec := new(mime.WordDecoder)
	if s := w.get("Subject"); c.Subject != nil {
		if len(s) != 1 {
			return "wire-format", fmt.Sprintf("%d Subject headers", len(s))
		}
		if got, err := dec.DecodeHeader(s[0]); err != nil || got != *c.Subject {
			return "wire-format", fmt.Sprintf("Subject header %q decodes to %q (err=%v), want %q", s[0], got, err, *c.Subject)
		}
	}
	for i, h := range w.get("File") {
		name := h[strings.IndexByte(h, ' ')+1:]
		if got, err := dec.DecodeHeader(name); err != nil || got != c.Files[i].Name {
			return "wire-format", fmt.Sprintf("File header %q decodes to %q (err=%v), want %q", h, got, err, c.Files[i].Name)
		}
	}
	return "", ""
}

// accessors checks that every accessor of x returns what case c set.
func accessors(which string, x *fbb.Message, c Case) (sig, msg string) {
	wantSubject := ""
	if c.Subject != nil {
		wantSubject = *c.Subject
	}
	wantDate := time.Unix(c.DateUnix-((c.DateUnix%60)+60)%60, 0)
	wantType := fbb.MsgType(c.Type)
	if wantType == "" {
		wantType = fbb.Private
	}
		if got := x.Subject(); got != wantSubject {
			return "subject-accessor", fmt.Sprintf("%s message: Subject() = %q, want %q (header %q)", which, got, wantSubject, x.Header.Get("Subject"))
		}
		if got := x.Date(); !got.Equal(wantDate) {
			return "date-accessor", fmt.Sprintf("%s message: Date() = %s, want %s (header %q)", which, got.UTC(), wantDate.UTC(), x.Header.Get("Date"))
		}
		if got := x.From(); got != c.From.expect() {
			return "address-accessor", fmt.Sprintf("%s message: From() = %+v, want %+v for SetFrom(%q)", which, got, c.From.expect(), c.From.input())
		}
		if got := x.To(); !addrsEqual(got, c.To) {
			return "address-accessor", fmt.Sprintf("%s message: To() = %+v for AddTo %+v", which, got, c.To)
		}
		if got := x.Cc(); !addrsEqual(got, c.Cc) {
			return "address-accessor", fmt.Sprintf("%s message: Cc() = %+v for AddCc %+v", which, got, c.Cc)
		}
		if x.Type() != wantType || x.Mbo() != c.Mycall || x.MID() != c.Mid {
			return "header-accessor", fmt.Sprintf("%s message: Type() %q (want %q), Mbo() %q (want %q), MID() %q (want %q)", which, x.Type(), wantType, x.Mbo(), c.Mycall, x.MID(), c.Mid)
		}
	return "", ""
}

func firstDiff(a, b []byte) int {
	for i := 0; i < len(a) && i < len(b); i++ {
		if a[i] != b[i] {
			return i
		}
	}
	return min(len(a), len(b))
}

func around(b []byte, at int) []byte {
	lo, hi := max(0, at-16), min(len(b), at+16)
	if lo > hi {
		lo = hi
	}
	return b[lo:hi]
}

func headerDiff(a, b fbb.Header) string {
	var out []string
	for k, v := range a {
		if !reflect.DeepEqual(v, b[k]) {
			out = append(out, fmt.Sprintf("%s: built %q parsed %q", k, v, b[k]))
		}
	}
	for k, v := range b {
		if _, ok := a[k]; !ok {
			out = append(out, fmt.Sprintf("%s: only in parsed %q", k, v))
		}
	}
	if len(out) > 4 {
		out = out[:4]
	}
	// map order only affects which differences are shown in the message, not the verdict
	return strings.Join(out, "; ")
}

// ---- generator --------------------------------------------------------------------------------

func textRune() *rapid.Generator[rune] {
	return rapid.Custom(func(t *rapid.T) rune {
		switch k := rapid.IntRange(0, 19).Draw(t, "k"); {
		case k <= 7:
			return rune(rapid.IntRange(0x20, 0x7E).Draw(t, "r"))
		case k <= 10:
			return rapid.SampledFrom([]rune{'?', '=', '_', '?', '=', ' ', ' ', '.', '-', ':', ';', '"', '\\', '(', ')', '<', '>', '@', ','}).Draw(t, "r")
		case k <= 12:
			return rune(rapid.IntRange('a', 'z').Draw(t, "r"))
		default:
			return rune(rapid.IntRange(0xA0, 0xFF).Draw(t, "r"))
		}
	})
}

// headerText draws a value of the domain; long is the upper length bound.
func headerText(t *rapid.T, label string, long int) string {
	var rs []rune
	switch rapid.IntRange(0, 9).Draw(t, label+"_kind") {
	case 0, 1, 2: // ASCII only
		rs = rapid.SliceOfN(rapid.Custom(func(t *rapid.T) rune {
			if rapid.IntRange(0, 5).Draw(t, "k") == 0 {
				return rapid.SampledFrom([]rune{'?', '=', '_', ' ', ' '}).Draw(t, "r")
			}
			return rune(rapid.IntRange(0x20, 0x7E).Draw(t, "r"))
		}), 0, 60).Draw(t, label)
	case 3: // all non-ASCII, long
		rs = rapid.SliceOfN(rapid.Custom(func(t *rapid.T) rune { return rune(rapid.IntRange(0xA0, 0xFF).Draw(t, "r")) }), 1, long).Draw(t, label)
	case 4: // pieces of encoded-word syntax around text
		n := rapid.IntRange(1, 6).Draw(t, label+"_n")
		var sb strings.Builder
		for i := 0; i < n; i++ {
			sb.WriteString(rapid.SampledFrom([]string{"=?", "?=", "?q?", "?Q?", "?b?", "=?utf-8", "=?ISO-8859-1?", "=E6", "=", "?", "_", " ", "a", "é", "ISO-8859-1", "=?=", "=?x?q", "??"}).Draw(t, label+"_piece"))
		}
		rs = []rune(sb.String())
	case 5: // long mixed
		rs = rapid.SliceOfN(textRune(), 40, long).Draw(t, label)
	default:
		rs = rapid.SliceOfN(textRune(), 0, 50).Draw(t, label)
	}
	s := strings.Trim(string(rs), " ")
	for encodedWord.MatchString(s) { // stay inside the domain: break the literal encoded word
		i := encodedWord.FindStringIndex(s)
		s = s[:i[0]+1] + s[i[0]+2:] // drop the '?' of the opening "=?"
		s = strings.Trim(s, " ")
	}
	// a control character between two printable ones (a pasted line break, a tab, an escape sequence, NEL)
	if r := []rune(s); len(r) >= 2 && r[0] != ' ' && r[len(r)-1] != ' ' && rapid.IntRange(0, 7).Draw(t, label+"_ctl") == 0 {
		at := rapid.IntRange(1, len(r)-1).Draw(t, label+"_ctl_at")
		ctl := rapid.SampledFrom([]string{"\r", "\n", "\r\n", "\x01", "\x1b", "\x7f", "\u0085", "\u009b"}).Draw(t, label+"_ctl_ch")
		if v := string(r[:at]) + ctl + string(r[at:]); !encodedWord.MatchString(v) {
			s = v
		}
	}
	return s
}

func callsign(t *rapid.T, label string) string {
	alpha := []rune("ABCDEFGHIJKLMNOPQRSTUVWXYZabcdefghijklmnopqrstuvwxyz0123456789")
	s := string(rapid.SliceOfN(rapid.SampledFrom(alpha), 3, 7).Draw(t, label))
	if rapid.Bool().Draw(t, label+"_ssid") {
		s += "-" + strconv.Itoa(rapid.IntRange(0, 15).Draw(t, label+"_n"))
	}
	return s
}

func mixCase(t *rapid.T, s, label string) string {
	mask := rapid.Uint32().Draw(t, label)
	b := []byte(s)
	for i, c := range b {
		if mask>>(uint(i)%32)&1 == 1 {
			if c >= 'a' && c <= 'z' {
				b[i] = c - 32
			} else if c >= 'A' && c <= 'Z' {
				b[i] = c + 32
			}
		}
	}
	return string(b)
}

func address(t *rapid.T, label string) Addr {
	smtp := func() string {
		loc := string(rapid.SliceOfN(rapid.SampledFrom([]rune("abcdefghijklmnopqrstuvwxyzABCDEFGHIJKLMNOPQRSTUVWXYZ0123456789._+-")), 1, 16).Draw(t, label+"_local"))
		dom := rapid.SampledFrom([]string{"example.com", "Example.ORG", "bar.baz", "mail.winlink.org.example", "winlink.com", "x.y", "sub.domain.co.uk", "WINLINK.ORG.invalid", "notwinlink.org"}).Draw(t, label+"_domain")
		return loc + "@" + dom
	}
	switch rapid.IntRange(0, 3).Draw(t, label+"_kind") {
	case 0:
		return Addr{"call", callsign(t, label)}
	case 1:
		return Addr{"winlink", callsign(t, label) + "@" + mixCase(t, "winlink.org", label+"_case")}
	case 2:
		return Addr{"smtp", smtp()}
	default:
		return Addr{"smtp-explicit", smtp()}
	}
}

func fileData(t *rapid.T) []byte {
	switch rapid.IntRange(0, 11).Draw(t, "data_kind") {
	case 0:
		return []byte{}
	case 1:
		return rapid.SliceOfN(rapid.Byte(), 0, 200).Draw(t, "data")
	case 2: // line breaks and NULs only
		return rapid.SliceOfN(rapid.SampledFrom([]byte{'\r', '\n', 0, '\r', '\n', ' '}), 1, 40).Draw(t, "data")
	case 3: // looks like the structure around it
		n := rapid.IntRange(1, 5).Draw(t, "data_n")
		var b []byte
		for i := 0; i < n; i++ {
			b = append(b, rapid.SampledFrom([]string{"\r\n", "\r\n\r\n", "File: 3 a.txt\r\n", "Body: 5\r\n", "Mid: ABC\r\n", "\r", "\n", "abc", "\x00", "Date: 2020/01/01 00:00\r\n"}).Draw(t, "data_piece")...)
		}
		return b
	case 4: // text
		g := gen.Golden()
		src := g[rapid.IntRange(0, len(g)-1).Draw(t, "data_src")]
		n := rapid.IntRange(0, min(len(src), 5000)).Draw(t, "data_len")
		off := rapid.IntRange(0, len(src)-n).Draw(t, "data_off")
		return append([]byte(nil), src[off:off+n]...)
	case 5: // larger than the parser's 4 KiB buffer
		n := rapid.SampledFrom([]int{4094, 4095, 4096, 4097, 4098, 8192, 10000, 70000}).Draw(t, "data_len")
		sm := gen.NewSM(rapid.Uint64().Draw(t, "data_seed"))
		b := make([]byte, n)
		for i := range b {
			b[i] = byte(sm.Next())
		}
		return b
	case 6: // ends / begins with half a line break
		b := rapid.SliceOfN(rapid.Byte(), 0, 30).Draw(t, "data")
		pre := rapid.SampledFrom([]string{"", "\n", "\r\n", "\r"}).Draw(t, "data_pre")
		post := rapid.SampledFrom([]string{"", "\r", "\r\n", "\n", "\r\n\r"}).Draw(t, "data_post")
		return append(append([]byte(pre), b...), post...)
	default:
		n := gen.SizeClass(t, 6000, "data_len")
		sm := gen.NewSM(rapid.Uint64().Draw(t, "data_seed"))
		b := make([]byte, n)
		for i := range b {
			b[i] = byte(sm.Next())
		}
		return b
	}
}

func bodyParts(t *rapid.T) []Part {
	var ps []Part
	nl := rapid.SampledFrom([]string{"lf", "crlf", "mixed"}).Draw(t, "newlines")
	n := rapid.IntRange(0, 6).Draw(t, "nlines")
	for i := 0; i < n; i++ {
		hi := rapid.SampledFrom([]int{0, 0, 10, 50, 100}).Draw(t, "dens")
		rg := rapid.Custom(func(t *rapid.T) rune {
			if rapid.IntRange(0, 99).Draw(t, "hi") < hi {
				return rune(rapid.IntRange(0xA0, 0xFF).Draw(t, "r"))
			}
			if rapid.IntRange(0, 29).Draw(t, "tab") == 0 {
				return '\t'
			}
			return rune(rapid.IntRange(0x20, 0x7E).Draw(t, "r"))
		})
		u := rapid.SliceOfN(rg, 1, 30).Draw(t, "unit")
		var l int
		switch rapid.IntRange(0, 9).Draw(t, "line_kind") {
		case 0:
			l = 0
		case 1, 2:
			l = rapid.IntRange(990, 1004).Draw(t, "len")
		case 3:
			l = rapid.IntRange(1, 5000).Draw(t, "len")
		case 4:
			if rapid.IntRange(0, 3).Draw(t, "big") == 0 {
				l = rapid.IntRange(65530, 70000).Draw(t, "len")
			} else {
				l = rapid.IntRange(4000, 9000).Draw(t, "len")
			}
		default:
			l = rapid.IntRange(1, 100).Draw(t, "len")
		}
		if q := l / len(u); q > 0 {
			ps = append(ps, Part{string(u), q})
		}
		if r := l % len(u); r > 0 {
			ps = append(ps, Part{string(u[:r]), 1})
		}
		term := "\n"
		if nl == "crlf" || (nl == "mixed" && rapid.Bool().Draw(t, "crlf")) {
			term = "\r\n"
		}
		if i < n-1 || rapid.IntRange(0, 2).Draw(t, "final_nl") > 0 {
			ps = append(ps, Part{term, rapid.SampledFrom([]int{1, 1, 1, 2, 3}).Draw(t, "blanks")})
		}
	}
	return ps
}

func schedule(t *rapid.T) []int {
	var out []int
	for _, n := range gen.Schedule(t, "chunks") {
		if n > 0 {
			out = append(out, n)
		}
	}
	if len(out) == 0 {
		out = []int{1}
	}
	return out
}

func genCase(t *rapid.T) Case {
	c := Case{
		Type:   rapid.SampledFrom([]string{"", "Private", "Private", "Service", "Inquiry", "Position Report", "Option", "System"}).Draw(t, "type"),
		Mycall: callsign(t, "mycall"),
		Mid:    string(rapid.SliceOfN(rapid.SampledFrom([]rune("ABCDEFGHIJKLMNOPQRSTUVWXYZ0123456789")), 1, 12).Draw(t, "mid")),
	}
	if rapid.IntRange(0, 3).Draw(t, "local_zone") == 0 {
		c.LocalMin = rapid.SampledFrom([]int{120, -210, 345, 60, -600, 780}).Draw(t, "local_min")
	}
	lo, hi := time.Date(1, 1, 1, 0, 0, 0, 0, time.UTC).Unix(), time.Date(9999, 12, 31, 23, 59, 59, 0, time.UTC).Unix()
	switch rapid.IntRange(0, 5).Draw(t, "date_kind") {
	case 0:
		c.DateUnix = rapid.Int64Range(lo, hi).Draw(t, "date")
	case 1: // the edges of the range
		if rapid.Bool().Draw(t, "date_low") {
			c.DateUnix = lo + rapid.Int64Range(0, 86400*400).Draw(t, "date")
		} else {
			c.DateUnix = hi - rapid.Int64Range(0, 86400*400).Draw(t, "date")
		}
	default: // the years messages are written in
		c.DateUnix = rapid.Int64Range(946684800, 4102444800).Draw(t, "date")
	}
	if rapid.Bool().Draw(t, "date_nanos") {
		c.DateNano = rapid.IntRange(0, 999999999).Draw(t, "nano")
	}
	switch rapid.IntRange(0, 2).Draw(t, "zone_kind") {
	case 1:
		c.ZoneSec = 900 * rapid.IntRange(-56, 56).Draw(t, "zone")
	case 2:
		c.ZoneSec = rapid.IntRange(-14*3600, 14*3600).Draw(t, "zone")
	}
	c.From = address(t, "from")
	for i, n := 0, rapid.IntRange(0, 5).Draw(t, "nto"); i < n; i++ {
		c.To = append(c.To, address(t, "to"))
	}
	for i, n := 0, rapid.SampledFrom([]int{0, 0, 1, 2, 3, 5}).Draw(t, "ncc"); i < n; i++ {
		c.Cc = append(c.Cc, address(t, "cc"))
	}
	if rapid.IntRange(0, 9).Draw(t, "has_subject") > 0 {
		s := headerText(t, "subject", 140)
		c.Subject = &s
	}
	if rapid.IntRange(0, 9).Draw(t, "has_body") > 0 {
		c.SetBody = true
		c.Body = bodyParts(t)
	}
	for i, n := 0, rapid.SampledFrom([]int{0, 0, 1, 1, 2, 3, 4}).Draw(t, "nfiles"); i < n; i++ {
		name := headerText(t, "name", 270)
		if name == "" {
			name = rapid.SampledFrom([]string{"a", "foo.txt", "æøå.txt", "=", "?", "_"}).Draw(t, "name_fallback")
		}
		c.Files = append(c.Files, FileSpec{Name: name, Data: fileData(t)})
	}
	for i, n := 0, rapid.SampledFrom([]int{0, 0, 1, 2, 3, 4}).Draw(t, "nx"); i < n; i++ {
		var key string
		if i > 0 && rapid.IntRange(0, 2).Draw(t, "x_repeat") == 0 {
			key = mixCase(t, c.X[rapid.IntRange(0, i-1).Draw(t, "x_prev")].Key, "x_case")
		} else {
			key = rapid.SampledFrom([]string{"X-", "x-"}).Draw(t, "x_prefix") + string(rapid.SliceOfN(rapid.SampledFrom([]rune("abcdefghijklmnopqrstuvwxyzABCDEFGHIJKLMNOPQRSTUVWXYZ0123456789-")), 1, 12).Draw(t, "x_key"))
		}
		val := strings.Trim(string(rapid.SliceOfN(rapid.Custom(func(t *rapid.T) rune { return rune(rapid.IntRange(0x20, 0x7E).Draw(t, "r")) }), 0, 40).Draw(t, "x_value")), " ")
		for encodedWord.MatchString(val) {
			val = strings.Replace(val, "=?", "=", 1)
			val = strings.Trim(val, " ")
		}
		c.X = append(c.X, XHeader{key, val})
	}
	c.Chunks = schedule(t)
	return c
}

// ---- accounting ---------------------------------------------------------------------------------

func isASCII(s string) bool {
	for i := 0; i < len(s); i++ {
		if s[i] >= 0x80 {
			return false
		}
	}
	return true
}

func account(c Case, o outcome) {
	harness.Eval()
	if o.skipped != "" {
		harness.Label("outside-domain:" + o.skipped)
		return
	}
	if len(c.Files) > 0 || o.encoded {
		harness.NonTrivial(harness.Hash(o.raw, c.Chunks))
		harness.Label("nontrivial")
	}
	lab := func(b bool, name string) {
		if b {
			harness.Label(name)
		}
	}
	lab(len(c.Files) == 0, "files:0")
	lab(len(c.Files) == 1, "files:1")
	lab(len(c.Files) >= 2, "files:2-4")
	for _, f := range c.Files {
		lab(len(f.Data) == 0, "file:empty")
		lab(bytes.Contains(f.Data, []byte("\r\n")), "file:has-crlf")
		lab(bytes.IndexByte(f.Data, 0) >= 0, "file:has-nul")
		lab(len(f.Data) >= 4096, "file:>=4096")
		lab(!isASCII(f.Name), "name:non-ascii")
		lab(strings.ContainsAny(f.Name, "?=_") && isASCII(f.Name), "name:ascii-with-q-trigger")
		lab(utf8.RuneCountInString(f.Name) > 60 && !isASCII(f.Name), "name:encoded-longer-than-75")
	}
	switch {
	case c.Subject == nil:
		harness.Label("subject:unset")
	case *c.Subject == "":
		harness.Label("subject:empty")
	case isASCII(*c.Subject):
		harness.Label("subject:ascii")
		lab(strings.ContainsAny(*c.Subject, "?=_"), "subject:ascii-with-q-trigger")
		lab(strings.Contains(*c.Subject, "=?"), "subject:ascii-with-=?")
	default:
		harness.Label("subject:non-ascii")
		lab(utf8.RuneCountInString(*c.Subject) > 60, "subject:encoded-longer-than-75")
	}
	lab(!c.SetBody, "body:unset")
	if c.SetBody {
		text := c.bodyText()
		lab(text == "", "body:empty")
		lab(!isASCII(text), "body:non-ascii")
		lab(len(text) > 4096, "body:>4096")
	}
	for _, a := range append(append([]Addr{c.From}, c.To...), c.Cc...) {
		harness.Label("addr:" + a.Kind)
	}
	lab(len(c.To) == 0 && len(c.Cc) == 0, "no-recipient")
	keys := map[string]int{}
	for _, x := range c.X {
		keys[textproto.CanonicalMIMEHeaderKey(x.Key)]++
		lab(x.Value == "", "x:empty-value")
	}
	lab(len(c.X) > 0, "x-headers")
	for _, n := range keys {
		lab(n > 1, "x:repeated-key")
	}
	lab(len(c.Chunks) == 1 && c.Chunks[0] == 1, "chunks:all-1-byte")
	lab(len(c.Chunks) == 1 && c.Chunks[0] >= 1<<20, "chunks:one-read")
	lab(len(c.Chunks) > 1, "chunks:varied")
	y := time.Unix(c.DateUnix, 0).UTC().Year()
	lab(y < 1000, "date:year<1000")
	lab(y >= 1990 && y <= 2100, "date:1990-2100")
	lab(y > 2100, "date:year>2100")
	lab(c.ZoneSec != 0, "date:non-utc-zone")
	lab(c.DateUnix%60 != 0 || c.DateNano != 0, "date:with-seconds")
	lab(o.history, "history:value-reused(second ReadFrom, setters after accessors)")
	lab(o.local, "process-local-zone-is-not-UTC")
	harness.Label("type:" + map[bool]string{true: "default", false: c.Type}[c.Type == ""])
	if harness.WantSample() && len(c.Files) > 0 && o.encoded {
		harness.Sample(render(c, o))
	}
}

func render(c Case, o outcome) map[string]any {
	var files []string
	for _, f := range c.Files {
		files = append(files, fmt.Sprintf("%q (%d bytes)", f.Name, len(f.Data)))
	}
	hdr := o.raw
	if i := bytes.Index(hdr, []byte("\r\n\r\n")); i >= 0 {
		hdr = hdr[:i]
	}
	if len(hdr) > 700 {
		hdr = hdr[:700]
	}
	return map[string]any{"subject": c.Subject, "files": files, "to": c.To, "cc": c.Cc, "from": c.From, "chunks": c.Chunks, "serialised_bytes": len(o.raw), "reads": o.calls, "header": string(hdr)}
}

func prop(t *rapid.T) {
	c := genCase(t)
	harness.Begin(c)
	sig, msg, o := run(c)
	harness.End()
	account(c, o)
	if sig != "" {
		harness.Fail(t, sig, c, "%s", msg)
	}
}

func TestProp(t *testing.T) { rapid.Check(t, prop) }

// sanitise maps arbitrary fuzzer text into the header-text domain.
func sanitise(s string, max int) string {
	var rs []rune
	for _, r := range s {
		if r == utf8.RuneError {
			continue
		}
		r %= 0x100
		if (r >= 0x20 && r <= 0x7E) || r >= 0xA0 {
			rs = append(rs, r)
		}
		if len(rs) >= max {
			break
		}
	}
	out := strings.Trim(string(rs), " ")
	for encodedWord.MatchString(out) {
		out = strings.Trim(strings.Replace(out, "=?", "=", 1), " ")
	}
	return out
}

// FuzzRoundTrip lets the coverage-guided fuzzer choose subject, file name, attachment bytes, body
// and chunk size of an API-built message; the oracle is the one of TestProp.
func FuzzRoundTrip(f *testing.F) {
	f.Add("Hello, æøå", "æøå.txt", []byte("data\r\n"), "body\nline two\r\n", uint16(1), int64(1469042460), "la5nta@Winlink.org")
	f.Add("=?utf-8?q?x", "a b.txt", []byte{}, "", uint16(4096), int64(0), "foo@bar.baz")
	f.Add("", "_", []byte("\r\n\r\nFile: 1 x\r\n"), strings.Repeat("é", 1200), uint16(7), int64(-62135596800), "N0CALL-12")
	f.Fuzz(func(t *testing.T, subject, name string, data []byte, body string, chunk uint16, date int64, to string) {
		lo, hi := time.Date(1, 1, 1, 0, 0, 0, 0, time.UTC).Unix(), time.Date(9999, 12, 31, 23, 59, 59, 0, time.UTC).Unix()
		if date < lo || date > hi {
			date = lo + ((date%(hi-lo))+(hi-lo))%(hi-lo)
		}
		subj := sanitise(subject, 300)
		c := Case{Type: "Private", Mycall: "N0CALL", Mid: "FUZZFUZZFUZZ", DateUnix: date, From: Addr{"call", "N0CALL"}, Subject: &subj, SetBody: true, Chunks: []int{int(chunk)%5000 + 1}}
		var bs []rune
		for _, r := range body {
			if r %= 0x100; r != utf8.RuneError%0x100 && r != '\r' {
				bs = append(bs, r)
			}
		}
		c.Body = []Part{{string(bs), 1}}
		if n := sanitise(name, 300); n != "" {
			c.Files = []FileSpec{{n, data}}
		}
		for _, a := range []Addr{{"call", to}, {"winlink", to}, {"smtp", to}} {
			if a.valid() {
				c.To = []Addr{a}
				break
			}
		}
		sig, msg, o := run(c)
		if o.skipped != "" {
			t.Skip()
		}
		if sig != "" {
			harness.Fail(t, sig, c, "%s", msg)
		}
	})
}

func TestReplay(t *testing.T) {
	for _, f := range harness.ReplayFiles() {
		var c Case
		if _, err := harness.ReplayCase(f, &c); err != nil {
			t.Fatalf("%s: %v", f, err)
		}
		sig, msg, o := run(c)
		harness.Eval()
		if o.skipped != "" {
			t.Logf("%s: outside the domain of C09 (%s); skipped", f, o.skipped)
			continue
		}
		if sig != "" {
			harness.Fail(t, sig, c, "replay %s: %s", f, msg)
		}
	}
}
