// C02 — link failure never marks an undelivered message sent, nor loses/duplicates one.
package c02

import (
	"bytes"
	"fmt"
	"os"
	"path/filepath"
	"sort"
	"sync"
	"sync/atomic"
	"testing"

	"github.com/la5nta/wl2k-go/fbb"
	"github.com/la5nta/wl2k-go/mailbox"
	"pgregory.net/rapid"

	"verif/internal/harness"
	"verif/internal/membox"
	"verif/internal/scen"
	"verif/internal/stream"
)

func TestMain(m *testing.M) {
	harness.Property("C02",
		"per generated scenario (2 stations, 0..7 small messages each way, answer policies, master/slave, read schedules) the clean transcript is recorded, then EVERY cut position k in [0, bytes sent] of each direction is enumerated (receiver gets exactly k bytes, then both ends see EOF); plus every choice j of the inbound message at which the receiving handler's ProcessInbound fails; plus generated sequences of 1..3 faulty sessions. After each faulty session clean sessions are repeated on the same mailboxes until one completes. Mailboxes: recording in-memory handler and the real mailbox.DirHandler on tmpfs. Non-trivial = fault case whose faulty session got at least one proposal accepted (i.e. the fault hit after the handshake with a transfer pending); distinct by hash(scenario, fault plan).",
		"a message counts as completely received when the receiving handler's ProcessInbound returned nil for it",
		"DirHandler variant: messages are addressed solely to the peer (P2P eligibility filter of GetOutbound)",
	)
	harness.Main(m)
}

// Fault is one faulty session.
type Fault struct {
	Kind string `json:"kind"` // "cut" | "store"
	Dir  string `json:"dir"`  // cut: direction whose receiver gets exactly K bytes ("AB" or "BA"); store: receiver side "A" or "B"
	K    int64  `json:"k"`    // cut position, or 1-based index of the failing ProcessInbound within the session
}

type Case struct {
	Sc     scen.Scenario `json:"scenario"`
	Faults []Fault       `json:"faults"`
	DirBox bool          `json:"dirbox"`
	// DupA / DupB: that station's mailbox hands its first outbound message to the session twice (GetOutbound
	// returns it two times - the library's own comments say Radio Only gateways produce such duplicates)
	DupA bool `json:"dup_a,omitempty"`
	DupB bool `json:"dup_b,omitempty"`
}
// policy "=1" (in scen.Side.Policy): the station defers that message in the first session of the history (it is
// busy) and accepts it in every later session.

// ---- mailbox abstraction: membox or DirHandler behind a recorder ------------------------------

type recorder struct {
	mu       sync.Mutex
	inner    fbb.MBoxHandler
	events   []membox.Event
	failAt   int // fail the n-th ProcessInbound of the current session (1-based); 0 = never
	nIn      int
	dirRoot  string
	stored   map[string][][]byte
	sent     map[string]int
	rejected map[string]int
	deferred map[string]int
	policy   map[string]string
	sess     int  // sessions started so far (Prepare calls)
	dupOut   bool // GetOutbound returns the first message twice
}

func (r *recorder) ev(e membox.Event) {
	e.Seq = atomic.AddInt64(&membox.Seq, 1)
	r.events = append(r.events, e)
}
func (r *recorder) Prepare() error {
	r.mu.Lock()
	r.nIn = 0
	r.sess++
	r.ev(membox.Event{Kind: "prepare"})
	r.mu.Unlock()
	return r.inner.Prepare()
}
func (r *recorder) GetOutbound(fw ...fbb.Address) []*fbb.Message {
	out := r.inner.GetOutbound(fw...)
	if r.dupOut && len(out) > 0 {
		out = append([]*fbb.Message{out[0]}, out...)
	}
	return out
}
func (r *recorder) SetSent(mid string, rej bool) {
	r.mu.Lock()
	if rej {
		r.rejected[mid]++
	} else {
		r.sent[mid]++
	}
	r.ev(membox.Event{Kind: "sent", MID: mid, Rejected: rej})
	r.mu.Unlock()
	r.inner.SetSent(mid, rej)
}
func (r *recorder) SetDeferred(mid string) {
	r.mu.Lock()
	r.deferred[mid]++
	r.ev(membox.Event{Kind: "deferred", MID: mid})
	r.mu.Unlock()
	r.inner.SetDeferred(mid)
}
func (r *recorder) ProcessInbound(msgs ...*fbb.Message) error {
	for _, m := range msgs {
		r.mu.Lock()
		r.nIn++
		fail := r.failAt > 0 && r.nIn == r.failAt
		data, _ := m.Bytes()
		r.mu.Unlock()
		if fail {
			if r.dirRoot != "" {
				// a storage error the real mailbox reports by itself: the target name is a directory
				os.MkdirAll(filepath.Join(r.dirRoot, "in", m.MID()+".b2f"), 0o755)
			} else {
				r.mu.Lock()
				r.ev(membox.Event{Kind: "inbound-error", MID: m.MID()})
				r.mu.Unlock()
				return membox.ErrStorage
			}
		}
		err := r.inner.ProcessInbound(m)
		r.mu.Lock()
		if err != nil {
			r.ev(membox.Event{Kind: "inbound-error", MID: m.MID()})
			r.mu.Unlock()
			if fail && r.dirRoot != "" {
				os.Remove(filepath.Join(r.dirRoot, "in", m.MID()+".b2f"))
			}
			return err
		}
		r.stored[m.MID()] = append(r.stored[m.MID()], data)
		r.ev(membox.Event{Kind: "inbound", MID: m.MID()})
		r.mu.Unlock()
	}
	return nil
}
func (r *recorder) GetInboundAnswer(p fbb.Proposal) fbb.ProposalAnswer {
	a := r.inner.GetInboundAnswer(p)
	r.mu.Lock()
	if a == fbb.Accept && r.policy[p.MID()] == "=1" && r.sess <= 1 {
		a = fbb.Defer
	}
	r.ev(membox.Event{Kind: "answer", MID: p.MID(), Answer: string(rune(a))})
	r.mu.Unlock()
	return a
}

// policyBox wraps DirHandler with the per-MID answer policy (DirHandler itself only knows accept/reject-if-present).
type policyBox struct {
	*mailbox.DirHandler
	policy map[string]string
}

func (p policyBox) GetInboundAnswer(pr fbb.Proposal) fbb.ProposalAnswer {
	a := p.DirHandler.GetInboundAnswer(pr)
	if a == fbb.Accept {
		switch p.policy[pr.MID()] {
		case "-":
			return fbb.Reject
		case "=":
			return fbb.Defer
		}
	}
	return a
}

type station struct {
	side  scen.Side
	rec   *recorder
	bytes map[string][]byte
	dir   string
}

func newStation(s scen.Side, dirbox bool, tmp string) (*station, error) {
	st := &station{side: s, bytes: map[string][]byte{}}
	rec := &recorder{stored: map[string][][]byte{}, sent: map[string]int{}, rejected: map[string]int{}, deferred: map[string]int{}}
	var dh *mailbox.DirHandler
	var mb *membox.Box
	if dirbox {
		st.dir = filepath.Join(tmp, s.Call)
		dh = mailbox.NewDirHandler(st.dir, false)
		if err := dh.Prepare(); err != nil {
			return nil, err
		}
		rec.inner = policyBox{dh, s.Policy}
		rec.dirRoot = st.dir
	} else {
		mb = membox.New(s.Call)
		for mid, a := range s.Policy {
			if a != "=1" {
				mb.Policy[mid] = fbb.ProposalAnswer(a[0])
			}
		}
		rec.inner = mb.Handler(s.Batched)
	}
	for _, spec := range s.Queue {
		m, err := spec.Build()
		if err != nil {
			return nil, err
		}
		if err := m.Validate(); err != nil {
			return nil, fmt.Errorf("generator: invalid message %s: %v", spec.MID, err)
		}
		b, _ := m.Bytes()
		st.bytes[spec.MID] = b
		if dirbox {
			if err := dh.AddOut(m); err != nil {
				return nil, err
			}
		} else {
			mb.Add(m)
		}
	}
	rec.policy = s.Policy
	st.rec = rec
	return st, nil
}

type sessOut struct {
	errA, errB error
	endA, endB *stream.End
}

func session(c Case, sa, sb *station, f *Fault) (out sessOut, sig, msg string) {
	sa.rec.failAt, sb.rec.failAt = 0, 0
	hooks := scen.Hooks{
		Handler: func(side string, _ fbb.MBoxHandler) fbb.MBoxHandler {
			if side == "A" {
				return sa.rec
			}
			return sb.rec
		},
	}
	if f != nil {
		switch f.Kind {
		case "cut":
			hooks.Link = func(a, b *stream.End) {
				if f.Dir == "AB" {
					a.CutAfter(f.K)
				} else {
					b.CutAfter(f.K)
				}
			}
		case "store":
			if f.Dir == "A" {
				sa.rec.failAt = int(f.K)
			} else {
				sb.rec.failAt = int(f.K)
			}
		}
	}
	// scen.RunSession wants Stations only for call signs / MOTD / UA; handlers are replaced by the hook
	o := scen.RunSession(c.Sc, &scen.Station{Side: sa.side, Box: membox.New("x")}, &scen.Station{Side: sb.side, Box: membox.New("y")}, hooks)
	if o.Hung {
		harness.Record("hang:exchange-"+o.HangKind, c, fmt.Sprintf("Exchange did not return after fault %+v", f))
		harness.ExitHung()
	}
	if o.A.PSig != "" {
		return out, o.A.PSig, "A: " + o.A.Panic
	}
	if o.B.PSig != "" {
		return out, o.B.PSig, "B: " + o.B.Panic
	}
	if o.EndA.Deadlocked() {
		return out, "deadlock", fmt.Sprintf("both sessions blocked reading with nothing in flight after fault %+v", f)
	}
	if o.EndA.CloseCount() < 1 || o.EndB.CloseCount() < 1 {
		return out, "conn-not-closed", fmt.Sprintf("after fault %+v: Close calls A=%d B=%d (errors %v / %v)", f, o.EndA.CloseCount(), o.EndB.CloseCount(), o.A.Err, o.B.Err)
	}
	return sessOut{o.A.Err, o.B.Err, o.EndA, o.EndB}, "", ""
}

// safety invariants that must hold at any time
func invariants(when string, from, to *station) (string, string) {
	from.rec.mu.Lock()
	to.rec.mu.Lock()
	defer from.rec.mu.Unlock()
	defer to.rec.mu.Unlock()
	for mid, copies := range to.rec.stored {
		want, ok := from.bytes[mid]
		if !ok {
			return "unknown-message-delivered", fmt.Sprintf("%s: handler received %s which the peer never queued", when, mid)
		}
		for _, cp := range copies {
			if !bytes.Equal(cp, want) {
				return "delivered-content-differs", fmt.Sprintf("%s: message %s handed to the handler differs from the queued bytes (%d vs %d)", when, mid, len(cp), len(want))
			}
		}
		if len(copies) > 1 {
			return "delivered-twice", fmt.Sprintf("%s: message %s handed to the receiving handler %d times", when, mid, len(copies))
		}
	}
	for _, e := range from.rec.events {
		if e.Kind != "sent" {
			continue
		}
		found := false
		for _, p := range to.rec.events {
			if p.Seq > e.Seq {
				break
			}
			if e.Rejected && p.Kind == "answer" && p.MID == e.MID && p.Answer == "-" {
				found = true
			}
			if !e.Rejected && p.Kind == "inbound" && p.MID == e.MID {
				found = true
			}
		}
		if !found {
			if e.Rejected {
				return "reported-rejected-without-reject-answer", fmt.Sprintf("%s: %s reported as already received although the peer never answered reject", when, e.MID)
			}
			return "reported-sent-but-not-received", fmt.Sprintf("%s: %s reported as successfully sent although the peer's handler had not completely received it", when, e.MID)
		}
	}
	for mid, n := range from.rec.sent {
		if n+from.rec.rejected[mid] > 1 {
			return "reported-sent-twice", fmt.Sprintf("%s: %s reported sent %d times and rejected %d times", when, mid, n, from.rec.rejected[mid])
		}
	}
	for mid, n := range from.rec.rejected {
		if n > 1 {
			return "reported-sent-twice", fmt.Sprintf("%s: %s reported rejected %d times", when, mid, n)
		}
	}
	return "", ""
}

func final(from, to *station) (string, string) {
	for _, spec := range from.side.Queue {
		mid := spec.MID
		pol := to.side.Policy[mid]
		got := len(to.rec.stored[mid])
		rep := from.rec.sent[mid] + from.rec.rejected[mid]
		switch pol {
		case "=":
			if got != 0 || rep != 0 {
				return "deferred-transferred", fmt.Sprintf("deferred message %s: delivered %d times, reported sent %d times", mid, got, rep)
			}
		case "-":
			if got != 0 || from.rec.rejected[mid] != 1 || from.rec.sent[mid] != 0 {
				return "rejected-handling", fmt.Sprintf("rejected message %s: delivered %d, SetSent(true) x%d, SetSent(false) x%d", mid, got, from.rec.rejected[mid], from.rec.sent[mid])
			}
		default:
			if got != 1 {
				return "lost-or-duplicated", fmt.Sprintf("after a completed exchange message %s is in the receiver's store %d times", mid, got)
			}
			if rep != 1 {
				return "not-reported-sent-once", fmt.Sprintf("after a completed exchange message %s was reported sent %d times (accepted %d, already-received %d)", mid, rep, from.rec.sent[mid], from.rec.rejected[mid])
			}
		}
	}
	if to.dir != "" {
		// the real mailbox: the inbox directory holds exactly the delivered messages, intact
		dh := mailbox.NewDirHandler(to.dir, false)
		msgs, err := dh.Inbox()
		if err != nil {
			return "dirbox-inbox-unreadable", err.Error()
		}
		have := map[string]bool{}
		for _, m := range msgs {
			have[m.MID()] = true
		}
		for mid := range to.rec.stored {
			if !have[mid] {
				return "dirbox-message-missing", fmt.Sprintf("message %s was stored but is not in the inbox directory", mid)
			}
		}
		if len(have) != len(to.rec.stored) {
			return "dirbox-extra-message", fmt.Sprintf("inbox directory has %d messages, handler stored %d", len(have), len(to.rec.stored))
		}
		out, _ := mailbox.NewDirHandler(from.dir, false).Outbox()
		for _, m := range out {
			if from.rec.sent[m.MID()]+from.rec.rejected[m.MID()] > 0 {
				return "dirbox-sent-still-in-outbox", fmt.Sprintf("message %s reported sent but still in the outbox", m.MID())
			}
		}
	}
	return "", ""
}

type stats struct {
	accepted       bool // faulty session had an accepted proposal
	storedUnconf   bool // a message was stored by the receiver but not confirmed to the sender in a faulty session
	cleanSessions  int
	lenAB, lenBA   int64
}

func run(c Case) (sig, msg string, st stats) {
	tmp := ""
	if c.DirBox {
		var err error
		tmp, err = os.MkdirTemp("/dev/shm", "c02-")
		if err != nil {
			tmp, _ = os.MkdirTemp("", "c02-")
		}
		defer os.RemoveAll(tmp)
	}
	sa, err := newStation(c.Sc.A, c.DirBox, tmp)
	if err != nil {
		return "harness-generator", err.Error(), st
	}
	sb, err := newStation(c.Sc.B, c.DirBox, tmp)
	if err != nil {
		return "harness-generator", err.Error(), st
	}
	sa.rec.dupOut, sb.rec.dupOut = c.DupA, c.DupB
	for i := range c.Faults {
		f := c.Faults[i]
		nA, nB := len(sa.rec.events), len(sb.rec.events)
		o, s, m := session(c, sa, sb, &f)
		if s != "" {
			return s, m, st
		}
		when := fmt.Sprintf("after faulty session %d %+v (A err=%v, B err=%v)", i+1, f, o.errA, o.errB)
		if s, m := invariants(when, sa, sb); s != "" {
			return s, m, st
		}
		if s, m := invariants(when, sb, sa); s != "" {
			return s, m, st
		}
		for _, pair := range [][2]*station{{sa, sb}, {sb, sa}} {
			evs := pair[1].rec.events
			start := nB
			if pair[1] == sa {
				start = nA
			}
			for _, e := range evs[start:] {
				if e.Kind == "answer" && e.Answer == "+" {
					st.accepted = true
				}
				if e.Kind == "inbound" && pair[0].rec.sent[e.MID] == 0 {
					st.storedUnconf = true
				}
			}
		}
	}
	// clean sessions until one completes
	for n := 1; ; n++ {
		o, s, m := session(c, sa, sb, nil)
		if s != "" {
			return s, m, st
		}
		st.lenAB, st.lenBA = int64(len(o.endA.Written())), int64(len(o.endB.Written()))
		when := fmt.Sprintf("after clean session %d following %+v", n, c.Faults)
		if s, m := invariants(when, sa, sb); s != "" {
			return s, m, st
		}
		if s, m := invariants(when, sb, sa); s != "" {
			return s, m, st
		}
		st.cleanSessions = n
		if o.errA == nil && o.errB == nil {
			// a message that was deferred in the very first session ("=1") needs one more (clean) session
			busyFirst := false
			for _, side := range []scen.Side{c.Sc.A, c.Sc.B} {
				for _, a := range side.Policy {
					busyFirst = busyFirst || a == "=1"
				}
			}
			if busyFirst && sa.rec.sess <= 1 {
				continue
			}
			break
		}
		if n >= 3 {
			return "clean-session-fails", fmt.Sprintf("three fault-free sessions in a row failed after %+v: A=%v B=%v", c.Faults, o.errA, o.errB), st
		}
	}
	if s, m := final(sa, sb); s != "" {
		return s, "A->B after " + fmt.Sprint(c.Faults) + ": " + m, st
	}
	if s, m := final(sb, sa); s != "" {
		return s, "B->A after " + fmt.Sprint(c.Faults) + ": " + m, st
	}
	return "", "", st
}

func scenarioKey(sc scen.Scenario) uint64 { return harness.Hash(fmt.Sprintf("%+v", sc)) }

func account(c Case, st stats, key uint64) {
	harness.Eval()
	if st.accepted {
		harness.NonTrivial(harness.Hash(key, fmt.Sprint(c.Faults), c.DirBox))
		harness.Label("fault-with-accepted-proposal")
	}
	if st.storedUnconf {
		harness.Label("cut_in_confirm_window(stored-but-unconfirmed)")
	}
	for _, side := range []scen.Side{c.Sc.A, c.Sc.B} {
		for _, q := range side.Queue {
			if q.Tuned != "" {
				harness.Label("has-message-on-block-boundary:" + q.Tuned)
			}
		}
	}
	if c.DupA || c.DupB {
		harness.Label("mailbox-hands-a-message-out-twice")
	}
	for _, side := range []scen.Side{c.Sc.A, c.Sc.B} {
		for _, a := range side.Policy {
			if a == "=1" {
				harness.Label("has-deferral-that-lasts-for-the-first-session-only")
				break
			}
		}
	}
	if c.DirBox {
		harness.Label("dirhandler")
	} else {
		harness.Label("membox")
	}
	for _, f := range c.Faults {
		harness.Label("fault:" + f.Kind)
	}
	if len(c.Faults) > 1 {
		harness.Label("multi-fault-history")
	}
	if st.cleanSessions > 1 {
		harness.Label("needed>1-clean-session")
	}
}

func genScenario(t *rapid.T, dirbox bool) scen.Scenario {
	sc := scen.Gen(t, harness.Scale(4, 7), 300)
	sc.Gzip = sc.Gzip && !dirbox
	// keep transcripts short (every byte is a cut position)
	trim := func(s *scen.Side, peer string) {
		if len(s.Queue) > harness.Scale(4, 7) {
			s.Queue = s.Queue[:harness.Scale(4, 7)]
		}
		for i := range s.Queue {
			q := &s.Queue[i]
			if len(q.RawBody) > 300 {
				q.RawBody = q.RawBody[:300]
			}
			if len(q.Body) > 300 {
				q.Body = q.Body[:300] + "."
			}
			if len(q.Files) > 1 {
				q.Files = q.Files[:1]
			}
			for j := range q.Files {
				if len(q.Files[j].Data) > 200 {
					q.Files[j].Data = q.Files[j].Data[:200]
				}
			}
			if dirbox {
				q.To, q.Cc = []string{peer}, nil
			}
		}
	}
	trim(&sc.A, sc.B.Call)
	trim(&sc.B, sc.A.Call)
	// the trimming above undoes any size tuning of the message generator; so in two of three scenarios one
	// message is padded (after trimming) until its compressed size sits exactly on a block boundary of the
	// sender (a multiple of 125 bytes, or one more / one less)
	for _, side := range []*scen.Side{&sc.A, &sc.B} {
		for i := range side.Queue {
			side.Queue[i].Tuned = ""
		}
	}
	if k := rapid.IntRange(0, 5).Draw(t, "block_boundary"); k < 4 && !sc.Gzip {
		side := &sc.A
		if (k%2 == 1 || len(sc.A.Queue) == 0) && len(sc.B.Queue) > 0 {
			side = &sc.B
		}
		if len(side.Queue) > 0 {
			side.Queue[rapid.IntRange(0, len(side.Queue)-1).Draw(t, "tuned_msg")].Tune(125, []int{0, 0, 1, 124}[k])
		}
	}
	if dirbox {
		sc.A.Batched, sc.B.Batched = false, false
	}
	// half of the deferrals only last for the first session of the history
	for _, pol := range []map[string]string{sc.A.Policy, sc.B.Policy} {
		var mids []string
		for mid, a := range pol {
			if a == "=" {
				mids = append(mids, mid)
			}
		}
		sort.Strings(mids)
		for _, mid := range mids {
			if rapid.Bool().Draw(t, "busy_first") {
				pol[mid] = "=1"
			}
		}
	}
	return sc
}

// TestProp: per generated scenario, enumerate every cut in both directions and every storage fault.
func TestProp(t *testing.T) {
	rapid.Check(t, func(t *rapid.T) {
		dirbox := rapid.IntRange(0, 3).Draw(t, "dirbox") == 0
		sc := genScenario(t, dirbox)
		base := Case{Sc: sc, DirBox: dirbox, DupA: rapid.IntRange(0, 5).Draw(t, "dup_a") == 0, DupB: rapid.IntRange(0, 5).Draw(t, "dup_b") == 0}
		harness.Begin(base)
		sig, msg, st := run(base)
		harness.End()
		harness.Eval()
		if sig != "" {
			harness.Fail(t, sig, base, "clean run: %s", msg)
			return
		}
		key := scenarioKey(sc)
		var faults []Fault
		stride := int64(1)
		if !harness.Thorough() && st.lenAB+st.lenBA > 6000 {
			stride = (st.lenAB + st.lenBA) / 6000 // long transcript: every stride-th offset plus the dense tail below
			harness.Label("strided-cut-enumeration")
		} else {
			harness.Label("every-byte-cut-enumeration")
		}
		for k := int64(0); k <= st.lenAB; k += stride {
			faults = append(faults, Fault{"cut", "AB", k})
		}
		for k := int64(0); k <= st.lenBA; k += stride {
			faults = append(faults, Fault{"cut", "BA", k})
		}
		for j := 1; j <= len(sc.A.Queue); j++ {
			faults = append(faults, Fault{"store", "B", int64(j)})
		}
		for j := 1; j <= len(sc.B.Queue); j++ {
			faults = append(faults, Fault{"store", "A", int64(j)})
		}
		for _, f := range faults {
			c := Case{Sc: sc, Faults: []Fault{f}, DirBox: dirbox, DupA: base.DupA, DupB: base.DupB}
			harness.Begin(c)
			sig, msg, st := run(c)
			harness.End()
			account(c, st, key)
			if sig != "" {
				harness.Fail(t, sig, c, "%s", msg)
				return
			}
		}
		// a few multi-fault histories
		nh := rapid.IntRange(2, 6).Draw(t, "histories")
		for h := 0; h < nh; h++ {
			n := rapid.IntRange(2, 3).Draw(t, "nfaults")
			var fs []Fault
			for i := 0; i < n; i++ {
				fs = append(fs, faults[rapid.IntRange(0, len(faults)-1).Draw(t, "fault")])
			}
			c := Case{Sc: sc, Faults: fs, DirBox: dirbox, DupA: base.DupA, DupB: base.DupB}
			harness.Begin(c)
			sig, msg, st := run(c)
			harness.End()
			account(c, st, key)
			if sig != "" {
				harness.Fail(t, sig, c, "%s", msg)
				return
			}
		}
		if harness.WantSample() && len(sc.A.Queue)+len(sc.B.Queue) > 1 {
			var mids []string
			for _, q := range sc.A.Queue {
				mids = append(mids, "A:"+q.MID+sc.B.Policy[q.MID])
			}
			for _, q := range sc.B.Queue {
				mids = append(mids, "B:"+q.MID+sc.A.Policy[q.MID])
			}
			sort.Strings(mids)
			harness.Sample(map[string]any{"messages(side:mid+policy)": mids, "a_is_master": sc.AIsMaster, "dirbox": dirbox, "bytes_A_to_B": st.lenAB, "bytes_B_to_A": st.lenBA,
				"faults_enumerated": len(faults), "example_faults": []Fault{faults[len(faults)/3], faults[len(faults)/2]}})
		}
	})
}

func TestReplay(t *testing.T) {
	for _, f := range harness.ReplayFiles() {
		var c Case
		if _, err := harness.ReplayCase(f, &c); err != nil {
			t.Fatalf("%s: %v", f, err)
		}
		sig, msg, _ := run(c)
		harness.Eval()
		if sig != "" {
			harness.Fail(t, sig, c, "replay %s: %s", f, msg)
		}
	}
}
