// C11 — the mailbox survives a crash at any point.
package c11

import (
	"bytes"
	"encoding/json"
	"errors"
	"fmt"
	"os"
	"os/exec"
	"path/filepath"
	"sort"
	"strings"
	"syscall"
	"testing"

	"github.com/la5nta/wl2k-go/fbb"
	"github.com/la5nta/wl2k-go/mailbox"
	"pgregory.net/rapid"

	"verif/internal/fstrace"
	"verif/internal/gen"
	"verif/internal/harness"
	"verif/internal/mboxrun"
	ref "verif/internal/ref/mbox"
)

func TestMain(m *testing.M) {
	harness.Property("C11",
		"case = mailbox content (0..4 messages per folder, some with X-Unread / a stale X-FilePath line; in a quarter of the cases 1..3 temporary files left by earlier interrupted writes of other messages) + one operation {ProcessInbound, AddOut, SetSent, SetUnread(true|false)} + its message (60 B..8 KiB; short lines, long lines, blank and header-like lines, binary attachments, empty last attachment). The operation runs once in the mboxop helper under strace; the recorded calls on the mailbox tree are replayed onto the pre-state and every crash state is materialised: before/after every tree-changing call and after every prefix length of every write (all lengths for writes <= 1 KiB; otherwise the first and last 64, three positions around every CRLF and a seeded sample of 64). In a quarter of the SetSent cases the sent folder is a symbolic link to a directory on another file system (the kernel refuses the rename with EXDEV; a library that gives up loudly leaves no crash state, one that falls back to copying is judged at every step of the copy). For a third of the storing cases up to four recovered states (call boundaries) become the pre-state - left-overs and hard links included - of a second exploration: the station restarts, SetUnread is called on the message and every crash state of that call is judged too. One evaluation = one crash state judged with a fresh DirHandler. Non-trivial = crash state strictly between the first and the last tree-changing call; distinct by hash(case, call index, prefix length).",
		"crash = death of the process: the kernel applies system calls in order and a write may be cut at any byte; power loss (reordering of unsynced data) is outside the statement",
		"the replayed final tree must equal the tree the helper really left, and the pre-state itself must pass the oracle; otherwise the run is reported as a harness problem (inconclusive), never as a violation",
		"'intact' is judged through the API: listing of the folder, message re-serialised, compared modulo X-FilePath (which OpenMessage sets) — and modulo X-Unread for the message whose flag is being rewritten",
	)
	harness.Main(m)
}

// ---- case -----------------------------------------------------------------------------------------

type Stored struct {
	Folder string  `json:"folder"` // in out sent archive
	Msg    ref.Msg `json:"msg"`
	// Ext: spelling of the file's extension (default ".b2f"); the mailbox lists message files case-insensitively,
	// so a file copied in by other software or through a case-folding file system may be called X.B2F
	Ext string `json:"ext,omitempty"`
	// ViaAPI (inbox only): the message was stored by the mailbox itself (ProcessInbound in an earlier run of the
	// program) instead of being placed as a file; whatever the library leaves next to it is part of the pre-state
	ViaAPI bool `json:"via_api,omitempty"`
}

func (s Stored) ext() string {
	if s.Ext != "" {
		return s.Ext
	}
	return mailbox.Ext
}

type Case struct {
	Fresh  bool     `json:"fresh,omitempty"` // the mailbox directory does not exist yet (no content)
	Stored []Stored `json:"stored"`
	Op     string   `json:"op"` // process_inbound add_out set_sent set_unread
	Msg    *ref.Msg `json:"msg,omitempty"`
	MID    string   `json:"mid,omitempty"`
	Folder string   `json:"folder,omitempty"`
	Unread bool     `json:"unread,omitempty"`
	// set_sent: the peer rejected the proposal (it already has the message); SetSent(mid, true)
	Rejected bool `json:"rejected,omitempty"`
	// set_sent: the sent folder is a symbolic link to a directory on another file system (a second disk, a memory
	// card), so that a rename from the outbox is refused by the kernel (EXDEV)
	SentElsewhere bool `json:"sent_elsewhere,omitempty"`
	// Leftovers: temporary files that earlier interrupted writes (of other messages) left in the folders
	Leftovers []Leftover `json:"leftovers,omitempty"`
	Seed      uint64     `json:"seed"` // for the sampled prefix lengths of large writes
	Shape     string     `json:"shape,omitempty"`
}

// Leftover is a file as an interrupted write leaves it: ".<MID>.b2f.tmp" holding a prefix of (or a whole) message.
type Leftover struct {
	Folder string `json:"folder"`
	Name   string `json:"name"`
	Data   []byte `json:"data"`
}

// targetExt is the extension spelling of the stored file the operation works on (set_unread, set_sent).
func (c Case) targetExt() string {
	for _, s := range c.Stored {
		if s.Msg.MID == c.MID && (s.Folder == c.Folder || (c.Op == "set_sent" && s.Folder == "out")) {
			return s.ext()
		}
	}
	return mailbox.Ext
}

func (c Case) opMID() string {
	if c.Msg != nil {
		return c.Msg.MID
	}
	return c.MID
}

var folders = []string{"in", "out", "sent", "archive"}

type harnessProblem struct{ msg string }

func (h harnessProblem) Error() string { return h.msg }

func problem(format string, a ...any) error { return harnessProblem{fmt.Sprintf(format, a...)} }

// ---- oracle on one crash state ------------------------------------------------------------------------

func list(h *mailbox.DirHandler, f string) ([]*fbb.Message, error) {
	switch f {
	case "in":
		return h.Inbox()
	case "out":
		return h.Outbox()
	case "sent":
		return h.Sent()
	}
	return h.Archive()
}

type expectation struct {
	pre map[string]map[string][]byte // folder -> MID -> stored bytes (as in the file)
}

func newExpectation(c Case) expectation {
	e := expectation{pre: map[string]map[string][]byte{}}
	for _, f := range folders {
		e.pre[f] = map[string][]byte{}
	}
	for _, s := range c.Stored {
		e.pre[s.Folder][s.Msg.MID] = s.Msg.Bytes()
	}
	return e
}

func noPath(raw []byte) []byte { return ref.Public(raw, "X-FilePath") }

// judge runs the oracle of the property on the mailbox in dir.
func judge(dir string, c Case, exp expectation) (sig, msg string) {
	psig, pmsg := harness.Catch(func() {
		h := mailbox.NewDirHandler(dir, false)
		if err := h.Prepare(); err != nil {
			sig, msg = "crash:prepare-fails:"+c.Op, fmt.Sprintf("Prepare after the crash: %v", err)
			return
		}
		got := map[string]map[string][][]byte{}
		for _, f := range folders {
			l, err := list(h, f)
			if err != nil {
				sig, msg = "crash:folder-unloadable:"+c.Op, fmt.Sprintf("folder %q does not load after the crash: %v", f, err)
				if c.Op == "process_inbound" {
					p := fbb.NewProposal(c.opMID(), "title", fbb.Wl2kProposal, []byte("data"))
					msg += fmt.Sprintf("\nand a proposal for %s is now answered %q ('-' = already received)", c.opMID(), byte(h.GetInboundAnswer(*p)))
				}
				return
			}
			got[f] = map[string][][]byte{}
			for _, m := range l {
				raw, err := m.Bytes()
				if err != nil {
					sig, msg = "crash:listed-message-unserialisable:"+c.Op, fmt.Sprintf("message %q listed in %q: %v", m.MID(), f, err)
					return
				}
				got[f][m.MID()] = append(got[f][m.MID()], raw)
			}
		}
		mid := c.opMID()
		isTarget := func(f, m string) bool {
			switch c.Op {
			case "set_sent":
				return m == mid && (f == "out" || f == "sent")
			case "set_unread":
				return m == mid && f == c.Folder
			case "process_inbound":
				return m == mid && f == "in"
			case "add_out":
				return m == mid && f == "out"
			}
			return false
		}
		// every message stored before the operation is present and intact
		for _, f := range folders {
			for m, want := range exp.pre[f] {
				if isTarget(f, m) {
					continue
				}
				copies := got[f][m]
				if len(copies) == 0 {
					sig, msg = "crash:stored-message-lost:"+c.Op, fmt.Sprintf("message %s stored in %q before the operation is not listed after the crash", m, f)
					return
				}
				for _, raw := range copies {
					if !bytes.Equal(noPath(raw), noPath(want)) {
						sig, msg = "crash:stored-message-damaged:"+c.Op, fmt.Sprintf("message %s in %q differs after the crash:\n got %q\nwant %q", m, f, clip(noPath(raw)), clip(noPath(want)))
						return
					}
				}
			}
			for m := range got[f] {
				if _, ok := exp.pre[f][m]; !ok && !isTarget(f, m) {
					sig, msg = "crash:unexpected-message:"+c.Op, fmt.Sprintf("message %q is listed in %q after the crash; it was neither stored before nor is it the message of the operation", m, f)
					return
				}
			}
		}
		// the message of the operation
		switch c.Op {
		case "process_inbound", "add_out":
			f := map[string]string{"process_inbound": "in", "add_out": "out"}[c.Op]
			want := c.Msg.Bytes()
			complete := len(got[f][mid]) > 0
			for _, raw := range got[f][mid] {
				ok := bytes.Equal(ref.Public(raw, "X-FilePath", "X-Unread"), want)
				if c.Op == "process_inbound" {
					ok = bytes.Equal(ref.Public(raw), ref.Public(want))
				}
				if !ok {
					complete = false
					sig, msg = "crash:partial-message-listed:"+c.Op, fmt.Sprintf("folder %q lists %s after the crash, but it is not the complete message:\n got %q\nwant %q", f, mid, clip(raw), clip(want))
				}
			}
			if c.Op == "process_inbound" {
				p := fbb.NewProposal(mid, "title", fbb.Wl2kProposal, []byte("data"))
				if a := h.GetInboundAnswer(*p); a == fbb.Reject && !complete {
					listed := "no such message is listed in the inbox"
					if len(got[f][mid]) > 0 {
						listed = "the listed copy is incomplete"
					}
					sig, msg = "crash:false-already-received", fmt.Sprintf("a proposal for %s is answered 'already received' (reject) after the crash, but %s", mid, listed)
				}
			}
		case "set_sent":
			want := exp.pre["out"][mid]
			n := len(got["out"][mid]) + len(got["sent"][mid])
			if n != 1 {
				sig, msg = "crash:outbound-not-in-exactly-one:set_sent", fmt.Sprintf("after the crash message %s is listed %d times in outbox and %d times in sent", mid, len(got["out"][mid]), len(got["sent"][mid]))
				return
			}
			for _, raw := range append(got["out"][mid], got["sent"][mid]...) {
				if !bytes.Equal(noPath(raw), noPath(want)) {
					sig, msg = "crash:stored-message-damaged:set_sent", fmt.Sprintf("message %s differs after the crash:\n got %q\nwant %q", mid, clip(noPath(raw)), clip(noPath(want)))
				}
			}
		case "set_unread":
			want := exp.pre[c.Folder][mid]
			if len(got[c.Folder][mid]) == 0 {
				sig, msg = "crash:stored-message-lost:set_unread", fmt.Sprintf("message %s in %q is not listed after the crash", mid, c.Folder)
				return
			}
			for _, raw := range got[c.Folder][mid] {
				if !bytes.Equal(ref.Public(raw, "X-FilePath", "X-Unread"), ref.Public(want, "X-FilePath", "X-Unread")) {
					sig, msg = "crash:stored-message-damaged:set_unread", fmt.Sprintf("message %s in %q differs (modulo read flag) after the crash:\n got %q\nwant %q", mid, c.Folder, clip(raw), clip(want))
				}
			}
		}
	})
	if psig != "" {
		return "crash:" + psig, pmsg
	}
	return
}

// listAll lists the four folders through the API: folder -> MID -> serialised copies.
func listAll(h *mailbox.DirHandler, only ...string) (got map[string]map[string][][]byte, badFolder string, err error) {
	got = map[string]map[string][][]byte{}
	which := folders
	if len(only) > 0 {
		which = only
	}
	for _, f := range which {
		l, err := list(h, f)
		if err != nil {
			return nil, f, err
		}
		got[f] = map[string][][]byte{}
		for _, m := range l {
			raw, err := m.Bytes()
			if err != nil {
				return nil, f, fmt.Errorf("message %q: %v", m.MID(), err)
			}
			got[f][m.MID()] = append(got[f][m.MID()], raw)
		}
	}
	return got, "", nil
}

// shorter returns a variant of m under the same MID whose file is strictly shorter (half the body, no
// attachments), or m itself if there is nothing to cut.
func shorter(m ref.Msg) ref.Msg {
	v := m
	v.Files = nil
	if n := len(v.Body) / 2; n >= 1 {
		v.Body = append([]byte{}, v.Body[:n]...)
		if n >= 3 {
			copy(v.Body[n-2:], "\r\n")
		}
	}
	return v
}

// continueAfter models what a station does after the restart: it retries the interrupted operation
// (the message is offered and received again, the user files the message again, the next session marks
// the message sent, the user toggles the read flag) and keeps using the mailbox. Oracle: every step
// succeeds, every folder still loads, the message of the operation is stored exactly as given, the
// read flag is what was set last, and every message stored before the crash is still intact. For
// inbound/outbound stores every second crash state retries with a *shorter* message under the same MID
// (the mailbox must store whatever it is handed), so that left-overs of the interrupted write (temporary
// files, partial data) cannot leak into a later, smaller write unnoticed.
func continueAfter(dir string, c Case, exp expectation, nstate int) (sig, msg string) {
	psig, pmsg := harness.Catch(func() {
		fail := func(kind, format string, a ...any) {
			if sig == "" {
				sig, msg = "continue:"+kind+":"+c.Op, "after the crash state passed the recovery oracle the station went on: "+fmt.Sprintf(format, a...)
			}
		}
		h := mailbox.NewDirHandler(dir, false)
		if err := h.Prepare(); err != nil {
			fail("prepare-fails", "Prepare: %v", err)
			return
		}
		mid := c.opMID()
		parse := func(raw []byte) *fbb.Message {
			m := new(fbb.Message)
			if err := m.ReadFrom(bytes.NewReader(raw)); err != nil {
				panic(fmt.Sprintf("harness: generated message does not parse (validated before the run): %v", err))
			}
			return m
		}
		// verify(folder, want, flag): folder lists mid exactly once, equal to want modulo the private
		// headers, with the given read flag (flag < 0: not checked); everything stored before is intact
		full := true // the first and the last step list all four folders, the steps between only the touched ones
		verify := func(step, folder string, want []byte, unread int, gone ...string) bool {
			which := folders
			if !full {
				which = append([]string{folder}, gone...)
			}
			got, bad, err := listAll(h, which...)
			if err != nil {
				fail("folder-unloadable", "%s: folder %q does not load any more: %v", step, bad, err)
				return false
			}
			copies := got[folder][mid]
			if len(copies) != 1 {
				fail("message-not-listed-once", "%s: message %s is listed %d times in %q (want once)", step, mid, len(copies), folder)
				return false
			}
			if !bytes.Equal(ref.Public(copies[0]), ref.Public(want)) {
				fail("message-differs", "%s: message %s in %q is not what was stored:\n got %q\nwant %q", step, mid, folder, clip(copies[0]), clip(want))
				return false
			}
			if unread >= 0 {
				flag := len(ref.HeaderValues(copies[0], "X-Unread")) > 0 && ref.HeaderValues(copies[0], "X-Unread")[0] == "true"
				if flag != (unread == 1) {
					fail("read-flag", "%s: message %s in %q has unread=%v, want %v", step, mid, folder, flag, unread == 1)
					return false
				}
			}
			for _, g := range gone {
				if len(got[g][mid]) != 0 {
					fail("message-still-listed", "%s: message %s is still listed in %q", step, mid, g)
					return false
				}
			}
			for _, f := range which {
				for m, w := range exp.pre[f] {
					if m == mid && (f == folder || contains(gone, f)) {
						continue
					}
					cp := got[f][m]
					if len(cp) != 1 || !bytes.Equal(noPath(cp[0]), noPath(w)) {
						fail("stored-message-damaged", "%s: message %s stored in %q before the crash is now listed %d times / differs", step, m, f, len(cp))
						return false
					}
				}
			}
			return true
		}
		toggle := func(folder string, want []byte, gone []string, seq ...bool) {
			for i, u := range seq {
				full = i == len(seq)-1
				ext := mailbox.Ext
				if c.Op == "set_unread" {
					ext = c.targetExt() // the stored file keeps its name
				}
				m, err := mailbox.OpenMessage(filepath.Join(dir, folder, mid+ext))
				if err != nil {
					fail("open-fails", "OpenMessage(%s/%s): %v", folder, mid, err)
					return
				}
				if err := mailbox.SetUnread(m, u); err != nil {
					fail("set-unread-fails", "SetUnread(%s, %v): %v", mid, u, err)
					return
				}
				n := 0
				if u {
					n = 1
				}
				if !verify(fmt.Sprintf("SetUnread(%s,%v)", mid, u), folder, want, n, gone...) {
					return
				}
			}
		}
		switch c.Op {
		case "process_inbound", "add_out":
			give := *c.Msg
			variant := "the same message"
			if nstate%2 == 1 {
				give = shorter(give)
				variant = "a shorter message with the same MID"
			}
			want := give.Bytes()
			if c.Op == "add_out" {
				if err := h.AddOut(parse(want)); err != nil {
					fail("retry-fails", "AddOut of %s: %v", variant, err)
					return
				}
				if !verify("AddOut of "+variant, "out", want, -1) {
					return
				}
				toggle("out", want, nil, true, false)
				return
			}
			p := fbb.NewProposal(mid, "title", fbb.Wl2kProposal, []byte("data"))
			if h.GetInboundAnswer(*p) == fbb.Reject {
				// a complete copy is in the inbox (the recovery oracle checked that): nothing is transferred again
				want = c.Msg.Bytes()
				variant = "nothing (already received)"
			} else if err := h.ProcessInbound(parse(want)); err != nil {
				fail("retry-fails", "ProcessInbound of %s: %v", variant, err)
				return
			}
			if !verify("ProcessInbound of "+variant, "in", want, 1) {
				return
			}
			if a := h.GetInboundAnswer(*p); a != fbb.Reject {
				fail("not-deduplicated", "after the message was received a proposal for %s is answered %q", mid, byte(a))
				return
			}
			toggle("in", want, nil, false, true, false)
		case "set_sent":
			want := exp.pre["out"][mid]
			got, bad, err := listAll(h)
			if err != nil {
				fail("folder-unloadable", "folder %q: %v", bad, err)
				return
			}
			if len(got["out"][mid]) == 1 {
				h.SetSent(mid, c.Rejected)
			}
			if !verify("SetSent("+mid+")", "sent", want, -1, "out") {
				return
			}
			toggle("sent", want, []string{"out"}, true, false)
		case "set_unread":
			want := exp.pre[c.Folder][mid]
			toggle(c.Folder, want, nil, !c.Unread, c.Unread, !c.Unread)
		}
	})
	if psig != "" {
		return "continue:" + psig, pmsg
	}
	return
}

func contains(l []string, s string) bool {
	for _, x := range l {
		if x == s {
			return true
		}
	}
	return false
}

func clip(b []byte) []byte {
	if len(b) > 300 {
		return append(append([]byte{}, b[:300]...), "..."...)
	}
	return b
}

// ---- one case --------------------------------------------------------------------------------------------

type stats struct {
	states, mid, inWrite int
	viaAPI               int // pre-stored inbox messages that were stored by the library itself
	continued            int // crash states on which the continuation phase (retry + follow-up operations) ran
	events, mutating     int
	bigWrites            int
	writes               int
	hashes               []uint64
	failedState          string
	second, secondStates int    // second-level explorations (crash during the next operation after a recovery) and their states
	elsewhere, refused   bool   // sent folder on another file system; the library refused the move loudly
	skipped              string // environment could not provide what the case asked for
}

// prefixLens chooses the cut positions 1..n-1 of a write of n bytes.
func prefixLens(data []byte, seed uint64) []int {
	n := len(data)
	if n <= 1 {
		return nil
	}
	if n <= 1024 {
		out := make([]int, 0, n-1)
		for k := 1; k < n; k++ {
			out = append(out, k)
		}
		return out
	}
	set := map[int]bool{}
	for k := 1; k <= 64; k++ {
		set[k], set[n-k] = true, true
	}
	for i := 0; i+1 < n; i++ {
		if data[i] == '\r' && data[i+1] == '\n' {
			for _, k := range []int{i, i + 1, i + 2} {
				if k >= 1 && k < n {
					set[k] = true
				}
			}
		}
	}
	sm := gen.NewSM(seed)
	for i := 0; i < 64; i++ {
		set[1+sm.Intn(n-1)] = true
	}
	out := make([]int, 0, len(set))
	for k := range set {
		out = append(out, k)
	}
	sort.Ints(out)
	return out
}

func run(c Case) (sig, msg string, st stats, herr error) { return runFrom(c, nil, 0) }

// runFrom explores the crash states of c's operation. from == nil: the pre-state is laid out from c.Stored. Otherwise
// (depth 1) the pre-state is a recovered crash state of an earlier operation, left-overs and hard links included, and
// c describes the next operation on it: the history "crash, restart, next operation, crash".
func runFrom(c Case, from *fstrace.Snapshot, depth int) (sig, msg string, st stats, herr error) {
	if _, err := exec.LookPath("strace"); err != nil {
		return "", "", st, problem("strace is not available: %v", err)
	}
	base, err := mboxrun.TempBase("verif-c11-")
	if err != nil {
		return "", "", st, problem("%v", err)
	}
	defer os.RemoveAll(base)
	root := filepath.Join(base, "mbox")
	if from != nil {
		if err := from.Materialise(root, ""); err != nil {
			return "", "", st, problem("materialise the recovered state: %v", err)
		}
	} else if !c.Fresh {
		for _, f := range folders {
			if err := os.MkdirAll(filepath.Join(root, f), 0o755); err != nil {
				return "", "", st, problem("%v", err)
			}
		}
		for _, s := range c.Stored {
			path := filepath.Join(root, s.Folder, s.Msg.MID+s.ext())
			if s.ViaAPI && s.Folder == "in" && s.Ext == "" {
				m := new(fbb.Message)
				if err := m.ReadFrom(bytes.NewReader(s.Msg.Bytes())); err != nil {
					return "", "", st, problem("stored message does not parse: %v", err)
				}
				if err := mailbox.NewDirHandler(root, false).ProcessInbound(m); err != nil {
					return "", "", st, problem("storing the pre-state through ProcessInbound: %v", err)
				}
				if b, err := os.ReadFile(path); err != nil || !bytes.Equal(b, s.Msg.Bytes()) {
					return "", "", st, problem("pre-state stored through ProcessInbound differs from the generated message (err=%v)", err)
				}
				st.viaAPI++
				continue
			}
			if err := os.WriteFile(path, s.Msg.Bytes(), 0o644); err != nil {
				return "", "", st, problem("%v", err)
			}
		}
		for _, l := range c.Leftovers {
			if err := os.WriteFile(filepath.Join(root, l.Folder, l.Name), l.Data, 0o644); err != nil {
				return "", "", st, problem("%v", err)
			}
		}
	}
	var alias map[string]string
	if c.SentElsewhere && !c.Fresh {
		// the scratch mailbox lives on /dev/shm (tmpfs); the system's temporary directory is on another file system
		other, err := os.MkdirTemp("", "verif-c11-sent-")
		if err != nil {
			return "", "", st, problem("%v", err)
		}
		defer os.RemoveAll(other)
		var a, b syscall.Stat_t
		if syscall.Stat(root, &a) != nil || syscall.Stat(other, &b) != nil || a.Dev == b.Dev {
			st.skipped = "no second file system for the sent folder"
		} else {
			sent := filepath.Join(root, "sent")
			ents, _ := os.ReadDir(sent)
			for _, e := range ents {
				data, err := os.ReadFile(filepath.Join(sent, e.Name()))
				if err == nil {
					err = os.WriteFile(filepath.Join(other, e.Name()), data, 0o644)
				}
				if err != nil {
					return "", "", st, problem("moving the sent folder: %v", err)
				}
			}
			if err := os.RemoveAll(sent); err != nil {
				return "", "", st, problem("%v", err)
			}
			if err := os.Symlink(other, sent); err != nil {
				return "", "", st, problem("%v", err)
			}
			alias = map[string]string{other: sent}
			st.elsewhere = true
		}
	}
	exp := newExpectation(c)
	if c.Msg != nil {
		// the continuation phase hands these to the library again: they must be parseable messages
		for _, v := range []ref.Msg{*c.Msg, shorter(*c.Msg)} {
			if err := new(fbb.Message).ReadFrom(bytes.NewReader(v.Bytes())); err != nil {
				return "", "", st, problem("generated message (or its shorter variant) does not parse: %v", err)
			}
		}
	}

	// pre-state: a copy to link unchanged files from, and the model the calls are replayed on
	pool := filepath.Join(base, "pool")
	pre, err := fstrace.Load(root)
	if err != nil {
		return "", "", st, problem("load pre-state: %v", err)
	}
	if !c.Fresh {
		if err := pre.Snapshot().Materialise(pool, ""); err != nil {
			return "", "", st, problem("copy pre-state: %v", err)
		}
	}
	stateDir := filepath.Join(base, "state")
	continuing, nstate := false, 0
	check := func(s fstrace.Snapshot) (string, string, error) {
		os.RemoveAll(stateDir)
		if len(s.Dirs) == 0 { // not even the mailbox directory exists
			sg, ms := judge(stateDir, c, exp)
			return sg, ms, nil
		}
		if err := s.Materialise(stateDir, pool); err != nil {
			return "", "", problem("materialise crash state: %v", err)
		}
		sg, ms := judge(stateDir, c, exp)
		if sg == "" && continuing {
			// the station goes on working on the recovered mailbox (retry of the interrupted operation,
			// read-flag rewrites): it must behave as if nothing had happened
			nstate++
			sg, ms = continueAfter(stateDir, c, exp, nstate)
		}
		return sg, ms, nil
	}
	if !c.Fresh {
		if sg, ms, err := check(pre.Snapshot()); err != nil {
			return "", "", st, err
		} else if sg != "" && depth > 0 {
			return "", "", st, nil // the earlier operation had not got far enough for this follow-up: nothing to explore
		} else if strings.HasSuffix(sg, "false-already-received") {
			// nothing the generator lays out can make the library claim a message it does not list; the state before
			// the operation's first call is the first crash point
			return sg, fmt.Sprintf("crash before the first call of the operation (%s of %s, %d messages stored before):\n%s", c.Op, c.opMID(), len(c.Stored), ms), st, nil
		} else if sg != "" {
			return "", "", st, problem("the generated pre-state does not pass the oracle (%s): %s", sg, ms)
		}
	}

	// the operation, once, for real, under strace
	spec := mboxrun.Spec{Mbox: root, Prepare: true, MID: c.MID, Folder: c.Folder, Unread: c.Unread, Rejected: c.Rejected, Ext: c.targetExt()}
	spec.Op = c.Op
	if c.Msg != nil {
		spec.Msg = c.Msg.Bytes()
	}
	specPath := filepath.Join(base, "spec.json")
	if err := mboxrun.WriteSpec(specPath, spec); err != nil {
		return "", "", st, problem("%v", err)
	}
	tracePath := filepath.Join(base, "trace.txt")
	res, err := mboxrun.Run(specPath, fstrace.Command(tracePath)...)
	if err != nil {
		return "", "", st, problem("helper under strace: %v", err)
	}
	if alias != nil && !res.Returned && res.ParseErr == "" && res.Exit > 0 && res.Panic == "" {
		// the folders are on different file systems and the library refused loudly (log.Fatalf ends the process):
		// no answer, but whatever it did to the tree before giving up is judged like any other run
		st.refused = true
	} else if !res.Returned || res.ParseErr != "" {
		// no answer from the operation (strace could not start or attach, the helper was killed, the
		// generated message does not parse): nothing can be said about the library
		return "", "", st, problem("the traced helper did not complete the operation: exit %d, result %+v\n%s", res.Exit, res, res.Output)
	}
	if !st.refused && (res.Err != "" || res.PrepareErr != "") {
		// the uninterrupted operation itself returned an error: that is C10's business, but it must be visible
		return "operation-failed:" + c.Op, fmt.Sprintf("the uninterrupted operation did not succeed: %+v", res), st, nil
	}
	events, _, err := fstrace.ParseAlias(tracePath, root, base, alias)
	if err != nil {
		return "", "", st, problem("parse trace: %v", err)
	}
	st.events = len(events)

	// self-check of tracer and replayer: replaying everything gives the tree the helper left
	full := fstrace.NewReplayer(root, pre)
	first, last := -1, -1
	for i, e := range events {
		if full.Mutates(e) {
			if first < 0 {
				first = i
			}
			last = i
			st.mutating++
		}
		if err := full.Apply(e, -1); err != nil {
			return "", "", st, problem("replay of %s (trace line %d): %v", e, e.Line, err)
		}
	}
	real, err := fstrace.Load(root)
	if err != nil {
		return "", "", st, problem("load final state: %v", err)
	}
	if ok, why := full.FS.Snapshot().Equal(real.Snapshot()); !ok {
		return "", "", st, problem("replayed final tree differs from the tree the helper left: %s", why)
	}

	// crash states
	cj, _ := json.Marshal(c)
	caseKey := harness.Hash(cj)
	r := fstrace.NewReplayer(root, pre)
	visit := func(s fstrace.Snapshot, idx, k, wlen int, what string) (string, string, error) {
		st.states++
		// continuation phase: at every call boundary, in the last 8 bytes and every 4th of the last 40 bytes of every
		// write (left-overs as long as possible) and at every 32nd (thorough: 4th) other state
		continuing = depth == 0 && (k < 0 || wlen-k <= 8 || (wlen-k <= 40 && k%4 == 0) || st.states%harness.Scale(32, 4) == 0)
		if continuing {
			st.continued++
		}
		// strictly between the first and the last tree-changing call: after any call but the last, or inside a write
		between := k >= 0 || (idx >= first && idx < last)
		if between {
			st.mid++
			st.hashes = append(st.hashes, harness.Hash(caseKey, idx, k))
		}
		if k >= 0 {
			st.inWrite++
		}
		sg, ms, err := check(s)
		if err != nil {
			return "", "", err
		}
		if sg != "" {
			st.failedState = what
			return sg, fmt.Sprintf("crash %s (call %d of %d on the mailbox tree; operation %s of %s, %d messages stored before):\n%s", what, idx+1, len(events), c.Op, c.opMID(), len(c.Stored), ms), nil
		}
		// second level (a third of the storing cases, at most 4 states each, call boundaries from the first tree-changing
		// call on): the station restarts on this state and rewrites the read flag of the message - and dies again
		if depth == 0 && k < 0 && idx >= first && st.second < 4 && c.Seed%3 == 0 && (c.Op == "process_inbound" || c.Op == "add_out") {
			f := map[string]string{"process_inbound": "in", "add_out": "out"}[c.Op]
			c2 := Case{Op: "set_unread", Folder: f, MID: c.Msg.MID, Unread: st.second%2 == 0, Seed: c.Seed + uint64(idx)}
			for _, x := range c.Stored {
				if !(x.Folder == f && x.Msg.MID == c.Msg.MID) {
					c2.Stored = append(c2.Stored, x)
				}
			}
			c2.Stored = append(c2.Stored, Stored{Folder: f, Msg: *c.Msg})
			sg2, ms2, st2, err := runFrom(c2, &s, 1)
			if err != nil {
				return "", "", err
			}
			if st2.states > 0 {
				st.second++
				st.secondStates += st2.states
			}
			if sg2 != "" {
				st.failedState = what
				return "second:" + sg2, fmt.Sprintf("history: %s of %s died %s; the station restarted (that state passes the recovery oracle) and SetUnread(%s, %v) was called - and died too:\n%s", c.Op, c.opMID(), what, c.Msg.MID, c2.Unread, ms2), nil
			}
		}
		return "", "", nil
	}
	for i, e := range events {
		if !r.Mutates(e) {
			if err := r.Apply(e, -1); err != nil {
				return "", "", st, problem("replay: %v", err)
			}
			continue
		}
		if e.Name == "write" || e.Name == "pwrite64" || e.Name == "copy" {
			st.writes++
			data := r.Payload(e)
			if len(data) > 1024 {
				st.bigWrites++
			}
			for _, k := range prefixLens(data, c.Seed+uint64(i)) {
				s, err := r.SnapshotWith(e, k)
				if err != nil {
					return "", "", st, problem("replay: %v", err)
				}
				if sg, ms, err := visit(s, i, k, len(data), fmt.Sprintf("inside %s after %d of %d bytes", e, k, len(data))); err != nil || sg != "" {
					return sg, ms, st, err
				}
			}
		}
		if err := r.Apply(e, -1); err != nil {
			return "", "", st, problem("replay: %v", err)
		}
		if sg, ms, err := visit(r.FS.Snapshot(), i, -1, 0, "right after "+e.String()); err != nil || sg != "" {
			return sg, ms, st, err
		}
	}
	return "", "", st, nil
}

// ---- generator ---------------------------------------------------------------------------------------

var words = []string{"hello", "73", "de", "LA1B", "position", "report", "weather", "QTH", "the", "quick", "brown", "fox", "Body: 5", "Mid: FAKE", "File: 3 x", ""}

func bulk(seed uint64, n int, family int) []byte {
	sm := gen.NewSM(seed)
	var b bytes.Buffer
	switch family {
	case 0: // short lines
		for b.Len() < n {
			b.WriteString(words[sm.Intn(len(words))])
			if sm.Intn(3) == 0 {
				b.WriteString("\r\n")
			} else {
				b.WriteByte(' ')
			}
		}
	case 1: // long lines
		for b.Len() < n {
			for i := 0; i < 200+sm.Intn(600) && b.Len() < n; i++ {
				b.WriteByte(byte('a' + sm.Intn(26)))
			}
			b.WriteString("\r\n")
		}
	case 2: // blank lines and CRLF runs
		for b.Len() < n {
			b.WriteString([]string{"\r\n", "\r\n\r\n", "x\r\n", "To: LA1B\r\n", "\r\n\r\nMid: X\r\n\r\n"}[sm.Intn(5)])
		}
	default: // binary
		for b.Len() < n {
			b.WriteByte(byte(sm.Next()))
		}
	}
	return b.Bytes()[:n]
}

func genMsg(t *rapid.T, mid string, maxBody int, label string) ref.Msg {
	m := ref.Msg{MID: mid, Date: "2024/05/06 07:08", From: "LA1B", To: []string{rapid.SampledFrom([]string{"N0CALL", "LA2C@winlink.org", "SMTP:ola@example.com"}).Draw(t, label+"_to")}, Subject: rapid.SampledFrom([]string{"Hello", "//WL2K P/ traffic", "x"}).Draw(t, label+"_subj")}
	if rapid.IntRange(0, 3).Draw(t, label+"_cc") == 0 {
		m.Cc = []string{"LA9XX"}
	}
	n := 1
	switch rapid.IntRange(0, 3).Draw(t, label+"_size") {
	case 0:
		n = rapid.IntRange(1, 40).Draw(t, label+"_n")
	case 1, 2:
		n = rapid.IntRange(1, min(700, maxBody)).Draw(t, label+"_n")
	default:
		n = rapid.IntRange(1, maxBody).Draw(t, label+"_n")
	}
	seed := rapid.Uint64().Draw(t, label+"_seed")
	m.Body = bulk(seed, n, rapid.IntRange(0, 2).Draw(t, label+"_fam"))
	if !bytes.HasSuffix(m.Body, []byte("\r\n")) && n >= 3 {
		copy(m.Body[n-2:], "\r\n")
	}
	switch rapid.IntRange(0, 5).Draw(t, label+"_files") {
	case 0:
		fn := rapid.IntRange(0, min(2000, maxBody)).Draw(t, label+"_fn")
		m.Files = []ref.File{{Name: "data.bin", Data: bulk(seed+1, fn, 3)}}
	case 1:
		fn := rapid.IntRange(1, min(600, maxBody)).Draw(t, label+"_fn")
		m.Files = []ref.File{{Name: "notes.txt", Data: bulk(seed+2, fn, 2)}, {Name: "empty.dat", Data: []byte{}}}
	}
	return m
}

func genCase(t *rapid.T) Case {
	c := Case{Seed: rapid.Uint64().Draw(t, "seed")}
	c.Op = rapid.SampledFrom([]string{"process_inbound", "process_inbound", "add_out", "set_sent", "set_unread", "set_unread"}).Draw(t, "op")
	n := 0
	empty := (c.Op == "process_inbound" || c.Op == "add_out") && rapid.IntRange(0, 7).Draw(t, "empty") == 0
	for _, f := range folders {
		k := rapid.IntRange(0, 4).Draw(t, "n_"+f)
		if empty {
			k = 0
		}
		if k == 0 && ((c.Op == "set_sent" && f == "out") || (c.Op == "set_unread" && f == "in")) {
			k = 1
		}
		for i := 0; i < k; i++ {
			n++
			mid := fmt.Sprintf("ST%s%07d", strings.ToUpper(f[:1]), n)
			switch rapid.IntRange(0, 7).Draw(t, "mid_shape") {
			case 0:
				mid = fmt.Sprintf("S%s.T%d", strings.ToUpper(f[:1]), n) // a dot inside
			case 1:
				mid = fmt.Sprintf("N%d%s.b2f", n, f[:1]) // the store's own extension inside the identifier
			}
			m := genMsg(t, mid, 1500, fmt.Sprintf("st%d", n))
			switch f {
			case "in":
				if rapid.IntRange(0, 2).Draw(t, "unread") > 0 {
					m.Extra = append(m.Extra, [2]string{"X-Unread", "true"})
				}
			case "out":
				m.P2POnly = rapid.IntRange(0, 3).Draw(t, "p2p") == 0
			}
			if rapid.IntRange(0, 4).Draw(t, "stalepath") == 0 {
				// what an earlier SetUnread left in the file
				m.Extra = append(m.Extra, [2]string{"X-Filepath", "/home/op/.wl2k/mailbox/N0CALL/" + f + "/" + m.MID + ".b2f"})
			}
			st := Stored{Folder: f, Msg: m}
			if f == "in" && len(m.Extra) == 1 && m.Extra[0][0] == "X-Unread" && rapid.Bool().Draw(t, "via_api") {
				st.ViaAPI = true // stored by ProcessInbound (which flags it unread)
			}
			if f != "out" && rapid.IntRange(0, 5).Draw(t, "ext_case") == 0 {
				st.Ext = rapid.SampledFrom([]string{".B2F", ".B2f"}).Draw(t, "ext")
			}
			c.Stored = append(c.Stored, st)
		}
	}
	if !empty && rapid.IntRange(0, 3).Draw(t, "leftovers") == 0 {
		// one to three interrupted writes of other messages happened in a folder before: their temporary files are
		// still there (neighbours in the directory listing), each a prefix of a message or a whole one
		f := rapid.SampledFrom([]string{"in", "in", "out", "sent"}).Draw(t, "left_folder")
		for i, k := 0, rapid.IntRange(1, 3).Draw(t, "left_n"); i < k; i++ {
			b := genMsg(t, fmt.Sprintf("LEFT%d", i+1), 400, fmt.Sprintf("left%d", i)).Bytes()
			cut := rapid.IntRange(0, len(b)).Draw(t, "left_cut")
			c.Leftovers = append(c.Leftovers, Leftover{Folder: f, Name: fmt.Sprintf(".LEFT%d.b2f.tmp", i+1), Data: b[:cut]})
		}
	}
	pick := func(f string) Stored {
		var l []Stored
		for _, s := range c.Stored {
			if s.Folder == f {
				l = append(l, s)
			}
		}
		return l[rapid.IntRange(0, len(l)-1).Draw(t, "pick")]
	}
	switch c.Op {
	case "process_inbound", "add_out":
		mid := rapid.SampledFrom([]string{"NEWMSG000001", "NEWMSG000001", "NEWMSG000001", "NEW.MSG00001", "NOTE.b2f", "A.b2f.b2f", "x"}).Draw(t, "new_mid")
		if rapid.IntRange(0, 4).Draw(t, "mid_elsewhere") == 0 {
			// a message to oneself: the same MID may already live in another folder
			other := "sent"
			if c.Op == "add_out" {
				other = "in"
			}
			for _, s := range c.Stored {
				if s.Folder == other {
					mid = s.Msg.MID
				}
			}
		}
		if rapid.IntRange(0, 5).Draw(t, "mid_case_variant") == 0 {
			// another message whose identifier differs from a stored one only in the case of its letters
			folder := "in"
			if c.Op == "add_out" {
				folder = "out"
			}
			for _, s := range c.Stored {
				if v := strings.ToLower(s.Msg.MID); s.Folder == folder && v != s.Msg.MID {
					mid = v
				}
			}
		}
		m := genMsg(t, mid, 7600, "op")
		if c.Op == "add_out" {
			m.P2POnly = rapid.Bool().Draw(t, "op_p2p")
		}
		c.Msg = &m
		if len(c.Stored) == 0 {
			c.Fresh = rapid.Bool().Draw(t, "fresh")
		}
	case "set_sent":
		c.MID = pick("out").Msg.MID
		c.Rejected = rapid.Bool().Draw(t, "rejected")
		c.SentElsewhere = rapid.IntRange(0, 3).Draw(t, "sent_elsewhere") == 0
	case "set_unread":
		c.Folder = rapid.SampledFrom([]string{"in", "in", "in", "out", "sent", "archive"}).Draw(t, "folder")
		has := false
		for _, s := range c.Stored {
			has = has || s.Folder == c.Folder
		}
		if !has {
			c.Folder = "in"
		}
		c.MID = pick(c.Folder).Msg.MID
		c.Unread = rapid.Bool().Draw(t, "unread_to")
	}
	return c
}

func account(c Case, st stats) {
	harness.EvalN(st.states)
	for _, h := range st.hashes {
		harness.NonTrivial(h)
	}
	harness.Label("case", "case:"+c.Op)
	harness.LabelN("states:"+c.Op, st.states)
	harness.LabelN("mid_write", st.inWrite)
	harness.LabelN("pre-state:inbox-messages-stored-by-the-library-itself", st.viaAPI)
	harness.LabelN("states-with-continuation-phase(retry+flag rewrites)", st.continued)
	harness.LabelN("between_first_and_last_call", st.mid)
	harness.LabelN("tree-changing calls", st.mutating)
	if st.bigWrites > 0 {
		harness.Label("case:write>1KiB(sampled prefixes)")
	}
	if st.writes == 0 {
		harness.Label("case:no-write:" + c.Op)
	}
	if c.Fresh {
		harness.Label("case:fresh-mailbox")
	}
	if len(c.Leftovers) > 0 {
		harness.Label(fmt.Sprintf("pre-state:%d temporary file(s) left by earlier interrupted writes", len(c.Leftovers)))
	}
	if st.elsewhere {
		harness.Label("case:sent-folder-on-another-file-system")
		if st.refused {
			harness.Label("case:sent-folder-on-another-file-system:move-refused-loudly")
		}
	}
	if st.skipped != "" {
		harness.Label("skipped:" + st.skipped)
	}
	harness.LabelN("second-level:explorations(crash, restart, SetUnread, crash)", st.second)
	harness.LabelN("second-level:states", st.secondStates)
	harness.EvalN(st.secondStates)
	if c.Msg != nil && len(c.Msg.Files) > 0 {
		harness.Label("case:attachments")
	}
	if harness.WantSample() && st.states > 3 {
		harness.Sample(map[string]any{"op": c.Op, "mid": c.opMID(), "stored": len(c.Stored), "traced_calls": st.events, "tree_changing_calls": st.mutating, "crash_states": st.states, "inside_a_write": st.inWrite})
	}
}

func execute(t harness.TB, c Case) {
	harness.Begin(c)
	sig, msg, st, herr := run(c)
	harness.End()
	var hp harnessProblem
	if errors.As(herr, &hp) {
		// not a verdict on the library: fail without a recorded violation (the driver reports "inconclusive")
		t.Fatalf("harness problem: %s", hp.msg)
	}
	account(c, st)
	if sig != "" {
		harness.Fail(t, sig, c, "%s", msg)
	}
}

func TestProp(t *testing.T) {
	rapid.Check(t, func(t *rapid.T) { execute(t, genCase(t)) })
}

func TestReplay(t *testing.T) {
	for _, f := range harness.ReplayFiles() {
		var c Case
		if _, err := harness.ReplayCase(f, &c); err != nil {
			t.Fatalf("%s: %v", f, err)
		}
		execute(t, c)
	}
}
