// C15 — the telnet login hands over a clean stream and honours the dial deadline.
package c15

import (
	"bytes"
	"context"
	"encoding/json"
	"errors"
	"fmt"
	"io"
	"net"
	"net/url"
	"os"
	"sync"
	"testing"
	"time"

	"github.com/la5nta/wl2k-go/transport"
	"github.com/la5nta/wl2k-go/transport/telnet"
	"pgregory.net/rapid"

	"verif/internal/gen"
	"verif/internal/harness"
)

func TestMain(m *testing.M) {
	harness.Property("C15",
		"families: relay (library dialler <-> byte-level TCP relay <-> library listener on loopback; the relay re-segments both directions by generated chunk schedules with split points inside prompts, replies and payload, and holds back the last 1..n bytes of the password line until the first Hold payload bytes of the dialler have arrived, then forwards them with one Write); eager (library dialler <-> scripted login server that sends the first Eager bytes of its payload with the same Write as 'Password :\\r', optionally with the prompt itself split); adversary (library dialler <-> scripted server that is silent, sends a partial prompt, garbage without CR once or endlessly, endless non-prompt lines, closes or half-closes at once, or stops after the callsign prompt), dialled with a deadline of 50..400 ms through DialContext, DialTimeout, Dialer.Timeout or the dial_timeout= URL parameter. Callsign [!-~]{1,16}; password any bytes without CR (0..24); in 1/6 (password) and 1/12 (callsign) of the cases the credential is repeated to a length from {255..70000} around the usual buffer sizes (4095/4096/4097, 8192, 65536); two adversary servers prompt and then never read while the credential is 12..24 MiB, so that the dialler is blocked in a write when the deadline passes; payloads 0..8 KiB each way (random, text, CR/LF-heavy, prompt look-alikes). Non-trivial: relay cases with Hold > 0, eager cases with Eager > 0, all adversary cases, overlap cases whose first session has a payload towards the library end point; distinct by hash of the whole case. overlap (two sessions open at the same time in one process: either two raw clients log in to ONE library listener, each sending its payload with the same Write as its password line, or the library dials two scripted eager servers; the first connection is not read until the second login is over, the second password line is mostly longer than the first, then both connections are read to EOF and every payload is compared).",
		"callsigns contain no white space at all (the login protocol trims the callsign line, and the statement's callsigns are station identifiers); passwords may contain any byte except CR, including LF, NUL and 0x80..0xFF, because the password line is delimited by CR only",
		"TCP segmentation cannot be forced: bytes meant to travel together are sent with one Write on a TCP_NODELAY socket, bytes meant to be separate are separated by a pause of 0..2 ms. A different segmentation chosen by the kernel weakens that case but cannot cause an alarm, since the property must hold for every segmentation",
		"end of stream is signalled to the library endpoints by the relay / scripted server shutting down its write side after the last expected byte, so 'complete' is decided by EOF, never by a clock",
		"deadline clause: the dial call must return no later than deadline + 10 s (a hang is unbounded; the slack only has to beat scheduling noise on a busy machine); the observed overshoot is reported in the class histogram. A dial that fails with a timeout error before its deadline-bounded login completes is permitted behaviour and only counted (label login-timeout-under-load)",
		"relay and eager cases dialled with a short deadline (linger) wait until the deadline has certainly passed before the payload exchange, so a deadline that survives the login is seen as a read/write error without any timing judgement",
	)
	harness.Main(m)
}

// Case holds every choice of one case.
type Case struct {
	Family   string `json:"family"` // relay | eager | adversary
	Call     string `json:"call"`
	Password []byte `json:"password"`
	C2S      []byte `json:"c2s"` // payload dialler -> listener
	S2C      []byte `json:"s2c"` // payload listener -> dialler

	S2CChunks []int `json:"s2c_chunks"`
	C2SChunks []int `json:"c2s_chunks"`
	GapUS     int   `json:"gap_us"`
	TailPw    int   `json:"tail_pw"` // relay: bytes of the password line (incl. its CR) held back
	Hold      int   `json:"hold"`    // relay: payload bytes delivered together with that tail
	Eager     int   `json:"eager"`   // eager: payload bytes written together with "Password :\r"
	// eager: bytes of "Password :\r" written ahead of the coalesced write
	PromptSplit int `json:"prompt_split"`

	Method    string `json:"method"`     // dial | timeout | context | url | dialer
	TimeoutMs int    `json:"timeout_ms"` // adversary: the deadline; relay/eager: deadline when Linger, else ignored
	Linger    bool   `json:"linger"`

	// method "dialer": the Dialer value was used for an earlier dial whose URL had dial_timeout=45s
	Prior bool `json:"prior,omitempty"`

	Server  string `json:"server"`  // adversary behaviour
	Garbage []byte `json:"garbage"` // what that behaviour sends

	// Long credentials are kept compact: when CallLen / PwLen exceeds the length of Call / Password, the
	// effective credential is Call / Password repeated cyclically up to that many bytes (see expand).
	CallLen int `json:"call_len,omitempty"`
	PwLen   int `json:"pw_len,omitempty"`

	// overlap: a second session in the same process logs in while the first connection is open and its
	// payload has not been read yet. Side says which library end point serves both (listener | dialler).
	Side   string  `json:"side,omitempty"`
	Second *Second `json:"second,omitempty"`
}

// Second is the later of two overlapping sessions.
type Second struct {
	Call     string `json:"call"`
	Password []byte `json:"password"`
	C2S      []byte `json:"c2s"`
	S2C      []byte `json:"s2c"`
}

func cyc(unit []byte, n int) []byte {
	if n <= len(unit) || len(unit) == 0 {
		return unit
	}
	out := make([]byte, n)
	for i := 0; i < n; i += copy(out[i:], unit) {
	}
	return out
}

// expand returns the case with its effective credentials written out.
func (c Case) expand() Case {
	c.Call = string(cyc([]byte(c.Call), c.CallLen))
	c.Password = cyc(c.Password, c.PwLen)
	return c
}

type outcome struct {
	elapsed  time.Duration
	returned string // adversary: "error" | "conn"
	skipped  string
}

const generous = 30 * time.Second

// dial calls the library through the case's method. d <= 0 means "no deadline of interest".
func dial(c Case, addr string, d time.Duration) (net.Conn, error) {
	pw := string(c.Password)
	u := &transport.URL{Scheme: "telnet", Host: addr, User: url.UserPassword(c.Call, pw), Target: "WL2K", Digis: []string{}, Params: url.Values{}}
	switch c.Method {
	case "dial":
		if d <= 0 {
			return telnet.Dial(addr, c.Call, pw) // fixed 5 s timeout
		}
		fallthrough
	case "timeout":
		if d <= 0 {
			d = generous
		}
		return telnet.DialTimeout(addr, c.Call, pw, d)
	case "url":
		if d <= 0 {
			d = generous
		}
		u.Params.Set("dial_timeout", d.String())
		return transport.DialURL(u) // the telnet package registers itself for "telnet"
	case "dialer":
		if d <= 0 {
			d = generous
		}
		dl := &telnet.Dialer{Timeout: d}
		if c.Prior {
			// the same Dialer was used before, for a URL that carried its own (long) dial_timeout; that dial
			// failed at once (nobody listens there). The Dialer's own Timeout must still bound the next dial.
			pu := &transport.URL{Scheme: "telnet", Host: deadAddr(), User: url.UserPassword("N0CALL", ""), Target: "WL2K", Digis: []string{}, Params: url.Values{"dial_timeout": {"45s"}}}
			if pc, _ := dl.DialURL(pu); pc != nil {
				pc.Close()
			}
		}
		return dl.DialURL(u)
	default: // context
		ctx := context.Background()
		if d > 0 {
			var cancel context.CancelFunc
			ctx, cancel = context.WithTimeout(ctx, d)
			defer cancel()
		}
		return telnet.DialContext(ctx, addr, c.Call, pw)
	}
}

// deadAddr returns a loopback address on which nobody listens (a listener is opened and closed again).
func deadAddr() string {
	ln, err := net.Listen("tcp", "127.0.0.1:0")
	if err != nil {
		return "127.0.0.1:1"
	}
	a := ln.Addr().String()
	ln.Close()
	return a
}

func isTimeout(err error) bool {
	var ne net.Error
	return errors.Is(err, context.DeadlineExceeded) || errors.Is(err, os.ErrDeadlineExceeded) || (errors.As(err, &ne) && ne.Timeout()) ||
		bytes.Contains([]byte(err.Error()), []byte("timeout")) || bytes.Contains([]byte(err.Error()), []byte("deadline exceeded"))
}

func head(b []byte) string {
	if len(b) > 48 {
		return fmt.Sprintf("%q...(%d bytes)", b[:48], len(b))
	}
	return fmt.Sprintf("%q", b)
}

// comparePayload classifies a difference between what was sent and what arrived.
func comparePayload(who, dropSig string, want, got []byte) (sig, msg string) {
	if bytes.Equal(want, got) {
		return "", ""
	}
	if len(got) < len(want) && bytes.HasSuffix(want, got) {
		return dropSig, fmt.Sprintf("%s received %d of %d payload bytes: the first %d bytes %s, which arrived together with the last login line, never reached the caller", who, len(got), len(want), len(want)-len(got), head(want[:len(want)-len(got)]))
	}
	i := 0
	for i < len(want) && i < len(got) && want[i] == got[i] {
		i++
	}
	return "payload-corrupted", fmt.Sprintf("%s received %d bytes, %d were sent; first difference at offset %d (got %s, want %s)", who, len(got), len(want), i, head(got[min(i, len(got)):]), head(want[min(i, len(want)):]))
}

// exchange writes out on conn and reads conn to EOF at the same time.
func exchange(conn net.Conn, out []byte) (in []byte, rerr, werr error) {
	done := make(chan struct{})
	go func() {
		defer close(done)
		if len(out) > 0 {
			_, werr = conn.Write(out)
		}
	}()
	in, rerr = io.ReadAll(conn)
	<-done
	return
}

func (c Case) lingerWait(start time.Time) {
	if c.Linger {
		if rest := time.Until(start.Add(time.Duration(c.TimeoutMs)*time.Millisecond + 60*time.Millisecond)); rest > 0 {
			time.Sleep(rest)
		}
	}
}

func (c Case) loginDeadline() time.Duration {
	if c.Linger {
		return time.Duration(c.TimeoutMs) * time.Millisecond
	}
	return 0
}

// ---- relay family -------------------------------------------------------------------------------

func runRelay(c Case, o *outcome) (sig, msg string) {
	ln, err := telnet.Listen("127.0.0.1:0")
	if err != nil {
		o.skipped = "listen: " + err.Error()
		return
	}
	front, err := net.Listen("tcp", "127.0.0.1:0")
	if err != nil {
		ln.Close()
		o.skipped = "listen: " + err.Error()
		return
	}
	var wg sync.WaitGroup
	var relayErr string
	wg.Add(2)
	go relay(front, ln.Addr().String(), c, &wg, func(s string) { relayErr = s })

	var srv struct {
		acceptErr  error
		isConn     bool
		remote     string
		got        []byte
		rerr, werr error
	}
	go func() {
		defer wg.Done()
		conn, err := ln.Accept()
		if err != nil {
			srv.acceptErr = err
			if conn != nil {
				conn.Close()
			}
			return
		}
		defer conn.Close()
		if tc, ok := conn.(*telnet.Conn); ok {
			srv.isConn, srv.remote = true, tc.RemoteCall()
		}
		srv.got, srv.rerr, srv.werr = exchange(conn, c.S2C)
	}()

	start := time.Now()
	conn, derr := dial(c, front.Addr().String(), c.loginDeadline())
	var got []byte
	var rerr, werr error
	if derr == nil {
		c.lingerWait(start)
		got, rerr, werr = exchange(conn, c.C2S)
		conn.Close()
	}
	front.Close()
	ln.Close()
	wg.Wait()

	switch {
	case relayErr != "":
		o.skipped = relayErr
		return
	case derr != nil && isTimeout(derr):
		o.skipped = "login-timeout-under-load"
		return
	case derr != nil:
		return "login-failed", fmt.Sprintf("dialling the package's own listener as %q failed: %v (listener: %v)", c.Call, derr, srv.acceptErr)
	case srv.acceptErr != nil:
		return "accept-failed", fmt.Sprintf("the dialler logged in as %q but Accept failed: %v", c.Call, srv.acceptErr)
	case !srv.isConn:
		return "accept-not-a-telnet-conn", "Accept did not return a *telnet.Conn"
	case srv.remote != c.Call:
		return "remote-call", fmt.Sprintf("accepted connection reports RemoteCall() = %q, the dialler's callsign is %q", srv.remote, c.Call)
	case rerr != nil || werr != nil:
		return "dialler-stream-error", fmt.Sprintf("after login the dialler's connection failed: read %v, write %v (dial deadline %v, linger %v)", rerr, werr, c.loginDeadline(), c.Linger)
	case srv.rerr != nil || srv.werr != nil:
		return "listener-stream-error", fmt.Sprintf("after login the accepted connection failed: read %v, write %v", srv.rerr, srv.werr)
	}
	if sig, msg = comparePayload("the listener side", "listener-drops-bytes-buffered-during-login", c.C2S, srv.got); sig != "" {
		return
	}
	return comparePayload("the dialler side", "dialler-drops-bytes-buffered-during-login", c.S2C, got)
}

// ---- eager family -------------------------------------------------------------------------------

func runEager(c Case, o *outcome) (sig, msg string) {
	ln, err := net.Listen("tcp", "127.0.0.1:0")
	if err != nil {
		o.skipped = "listen: " + err.Error()
		return
	}
	var wg sync.WaitGroup
	var res eagerResult
	wg.Add(1)
	go eagerServer(ln, c, &res, &wg)
	start := time.Now()
	conn, derr := dial(c, ln.Addr().String(), c.loginDeadline())
	var got []byte
	var rerr, werr error
	if derr == nil {
		c.lingerWait(start)
		got, rerr, werr = exchange(conn, c.C2S)
		conn.Close()
	}
	ln.Close()
	wg.Wait()
	switch {
	case derr != nil && isTimeout(derr):
		o.skipped = "login-timeout-under-load"
		return
	case derr != nil:
		return "login-failed", fmt.Sprintf("dialling a server that prompts for callsign and password failed: %v", derr)
	case rerr != nil || werr != nil:
		return "dialler-stream-error", fmt.Sprintf("after login the dialler's connection failed: read %v, write %v (dial deadline %v, linger %v)", rerr, werr, c.loginDeadline(), c.Linger)
	case res.err != nil:
		return "eager-peer-io-error", fmt.Sprintf("the scripted server's connection failed: %v", res.err)
	case string(res.callLine) != c.Call+"\r":
		return "callsign-line", fmt.Sprintf("the dialler answered the callsign prompt with %q, want %q", res.callLine, c.Call+"\r")
	case string(res.pwLine) != string(c.Password)+"\r":
		return "password-line", fmt.Sprintf("the dialler answered the password prompt with %q, want %q", res.pwLine, string(c.Password)+"\r")
	}
	if sig, msg = comparePayload("the server", "payload-corrupted", c.C2S, res.payload); sig != "" {
		return
	}
	return comparePayload("the dialler side", "dialler-drops-bytes-buffered-during-login", c.S2C, got)
}

// ---- overlap family -------------------------------------------------------------------------------

// rawLogin is a client that speaks the login dialogue on a plain TCP connection and sends its payload with the
// same Write as the password line; it then shuts its write side down and reads to EOF.
func rawLogin(addr, call string, pw, payload []byte, got *[]byte, errp *error, wg *sync.WaitGroup) {
	defer wg.Done()
	cc, err := net.Dial("tcp", addr)
	if err != nil {
		*errp = err
		return
	}
	conn := tcp(cc)
	defer conn.Close()
	if _, *errp = readLine(conn); *errp != nil {
		return
	}
	if _, *errp = conn.Write([]byte(call + "\r")); *errp != nil {
		return
	}
	if _, *errp = readLine(conn); *errp != nil {
		return
	}
	if _, *errp = conn.Write(append(append(append([]byte{}, pw...), '\r'), payload...)); *errp != nil {
		return
	}
	conn.CloseWrite()
	*got, *errp = io.ReadAll(conn)
}

// runOverlapListener: one library listener, two raw clients. The first client's payload arrives with its password
// line and stays unread while the second client logs in; then both accepted connections are read.
func runOverlapListener(c Case, o *outcome) (sig, msg string) {
	ln, err := telnet.Listen("127.0.0.1:0")
	if err != nil {
		o.skipped = "listen: " + err.Error()
		return
	}
	defer ln.Close()
	type side struct {
		call       string
		pw, c2s    []byte
		s2c        []byte
		clientGot  []byte
		clientErr  error
		conn       net.Conn
		srvGot     []byte
		rerr, werr error
	}
	ss := []*side{{call: c.Call, pw: c.Password, c2s: c.C2S, s2c: c.S2C}, {call: c.Second.Call, pw: c.Second.Password, c2s: c.Second.C2S, s2c: c.Second.S2C}}
	var wg sync.WaitGroup
	for i, x := range ss {
		wg.Add(1)
		go rawLogin(ln.Addr().String(), x.call, x.pw, x.c2s, &x.clientGot, &x.clientErr, &wg)
		conn, err := ln.Accept()
		if err != nil {
			for _, y := range ss[:i] {
				y.conn.Close()
			}
			if conn != nil {
				conn.Close()
			}
			wg.Wait()
			return "accept-failed", fmt.Sprintf("session %d: a client logged in as %q but Accept failed: %v", i+1, x.call, err)
		}
		x.conn = conn
		if c.GapUS > 0 {
			time.Sleep(time.Duration(c.GapUS) * time.Microsecond) // let the coalesced payload settle before the next login
		}
	}
	for _, x := range ss { // only now are the connections read, the earlier one first
		x.srvGot, x.rerr, x.werr = exchange(x.conn, x.s2c)
		x.conn.Close()
	}
	wg.Wait()
	for i, x := range ss {
		who := fmt.Sprintf("the accepted connection of session %d (of two open at the same time)", i+1)
		tc, ok := x.conn.(*telnet.Conn)
		switch {
		case !ok:
			return "accept-not-a-telnet-conn", "Accept did not return a *telnet.Conn"
		case tc.RemoteCall() != x.call:
			return "remote-call", fmt.Sprintf("%s reports RemoteCall() = %q, the client's callsign is %q", who, tc.RemoteCall(), x.call)
		case x.rerr != nil || x.werr != nil:
			return "listener-stream-error", fmt.Sprintf("%s failed: read %v, write %v", who, x.rerr, x.werr)
		case x.clientErr != nil:
			return "overlap-peer-io-error", fmt.Sprintf("the client of session %d failed: %v", i+1, x.clientErr)
		}
		if sig, msg = comparePayload(who, "listener-drops-bytes-buffered-during-login", x.c2s, x.srvGot); sig != "" {
			return
		}
		if sig, msg = comparePayload(fmt.Sprintf("the client of session %d", i+1), "payload-corrupted", x.s2c, x.clientGot); sig != "" {
			return
		}
	}
	return "", ""
}

// runOverlapDialler: two eager servers, two dials from this process. The first server's payload arrives with its
// password prompt and stays unread while the second dial logs in; then both connections are used.
func runOverlapDialler(c Case, o *outcome) (sig, msg string) {
	c2 := c
	c2.Call, c2.Password, c2.C2S, c2.S2C = c.Second.Call, c.Second.Password, c.Second.C2S, c.Second.S2C
	c2.Eager = min(c.Eager, len(c2.S2C))
	cs := []Case{c, c2}
	var lns []net.Listener
	var res [2]eagerResult
	var conns [2]net.Conn
	var wg sync.WaitGroup
	defer func() {
		for _, ln := range lns {
			ln.Close()
		}
	}()
	for i := range cs {
		ln, err := net.Listen("tcp", "127.0.0.1:0")
		if err != nil {
			o.skipped = "listen: " + err.Error()
			break
		}
		lns = append(lns, ln)
		wg.Add(1)
		go eagerServer(ln, cs[i], &res[i], &wg)
		conn, derr := dial(cs[i], ln.Addr().String(), 0)
		if derr != nil {
			sig, msg = "login-failed", fmt.Sprintf("session %d: dialling a server that prompts for callsign and password failed: %v", i+1, derr)
			if isTimeout(derr) {
				sig, msg, o.skipped = "", "", "login-timeout-under-load"
			}
			break
		}
		conns[i] = conn
		if c.GapUS > 0 {
			time.Sleep(time.Duration(c.GapUS) * time.Microsecond)
		}
	}
	var got [2][]byte
	var rerr, werr [2]error
	for i, conn := range conns {
		if conn == nil {
			continue
		}
		if sig == "" && o.skipped == "" {
			got[i], rerr[i], werr[i] = exchange(conn, cs[i].C2S)
		}
		conn.Close()
	}
	for _, ln := range lns {
		ln.Close()
	}
	wg.Wait()
	if sig != "" || o.skipped != "" {
		return
	}
	for i := range cs {
		who := fmt.Sprintf("the dialled connection of session %d (of two open at the same time)", i+1)
		switch {
		case rerr[i] != nil || werr[i] != nil:
			return "dialler-stream-error", fmt.Sprintf("%s failed: read %v, write %v", who, rerr[i], werr[i])
		case res[i].err != nil:
			return "eager-peer-io-error", fmt.Sprintf("the scripted server of session %d failed: %v", i+1, res[i].err)
		case string(res[i].callLine) != cs[i].Call+"\r":
			return "callsign-line", fmt.Sprintf("session %d: the dialler answered the callsign prompt with %q, want %q", i+1, res[i].callLine, cs[i].Call+"\r")
		case string(res[i].pwLine) != string(cs[i].Password)+"\r":
			return "password-line", fmt.Sprintf("session %d: the dialler answered the password prompt with %q, want %q", i+1, res[i].pwLine, string(cs[i].Password)+"\r")
		}
		if sig, msg = comparePayload(fmt.Sprintf("the server of session %d", i+1), "payload-corrupted", cs[i].C2S, res[i].payload); sig != "" {
			return
		}
		if sig, msg = comparePayload(who, "dialler-drops-bytes-buffered-during-login", cs[i].S2C, got[i]); sig != "" {
			return
		}
	}
	return "", ""
}

// ---- adversary family -----------------------------------------------------------------------------

const slack = 10 * time.Second

func runAdversary(c Case, o *outcome) (sig, msg string) {
	ln, err := net.Listen("tcp", "127.0.0.1:0")
	if err != nil {
		o.skipped = "listen: " + err.Error()
		return
	}
	stop := make(chan struct{})
	var wg sync.WaitGroup
	wg.Add(1)
	go adversary(ln, c, stop, &wg)
	d := time.Duration(c.TimeoutMs) * time.Millisecond
	type result struct {
		conn net.Conn
		err  error
		took time.Duration
	}
	done := make(chan result, 1)
	start := time.Now()
	go func() {
		conn, err := dial(c, ln.Addr().String(), d)
		done <- result{conn, err, time.Since(start)}
	}()
	var r result
	late := false
	select {
	case r = <-done:
	case <-time.After(d + slack):
		late = true
	}
	close(stop) // the server lets go: even a dialler without any deadline returns now
	ln.Close()
	if late {
		r = <-done
	}
	if r.conn != nil {
		r.conn.Close()
		o.returned = "conn"
	} else {
		o.returned = "error"
	}
	wg.Wait()
	o.elapsed = r.took
	if late || r.took > d+slack {
		return "dial-blocks-past-deadline", fmt.Sprintf("dial (%s, deadline %v) against a server that is %q had not returned after %v; it returned (%v) only once the server was shut down, after %v", c.Method, d, c.Server, d+slack, r.err, r.took.Round(time.Millisecond))
	}
	if r.conn == nil && r.err == nil {
		return "nil-conn-nil-error", "dial returned neither a connection nor an error"
	}
	return "", ""
}

func run(c0 Case) (sig, msg string, o outcome) {
	c := c0.expand()
	var psig, pmsg string
	hung, kind := harness.Watch(watchLimit, func() {
		psig, pmsg = harness.Catch(func() {
			switch c.Family {
			case "relay":
				sig, msg = runRelay(c, &o)
			case "eager":
				sig, msg = runEager(c, &o)
			case "adversary":
				sig, msg = runAdversary(c, &o)
			case "overlap":
				if c.Side == "listener" {
					sig, msg = runOverlapListener(c, &o)
				} else {
					sig, msg = runOverlapDialler(c, &o)
				}
			}
		})
	})
	if hung {
		harness.Record("hang:"+c.Family+"-login", c0, fmt.Sprintf("the %s case did not finish within %v (%s): a login or a post-login transfer is stuck", c.Family, watchLimit, kind))
		harness.ExitHung()
	}
	if psig != "" {
		return psig, pmsg, o
	}
	return
}

// ---- generators ---------------------------------------------------------------------------------

var promptish = [][]byte{[]byte("Callsign :\r"), []byte("Password :\r"), []byte("\r"), []byte("\r\n"), []byte("\n"), []byte("[WL2K-5.0-B2FWIHJM$]\r"), []byte(";PQ: 12345678\r"), []byte("FF\r"), {0}, {0xff, 0xfb, 0x01}}

func genPayload(t *rapid.T, label string) []byte {
	switch rapid.IntRange(0, 7).Draw(t, label+"_kind") {
	case 0:
		return nil
	case 7: // larger than the 4 KiB a buffered reader holds
		n := rapid.IntRange(4097, 8192).Draw(t, label+"_n")
		sm := gen.NewSM(rapid.Uint64().Draw(t, label+"_seed"))
		b := make([]byte, n)
		for i := range b {
			b[i] = byte(sm.Next())
		}
		return b
	case 1:
		return rapid.SliceOfN(rapid.Byte(), 1, 40).Draw(t, label)
	case 2: // prompt look-alikes and line ends
		var b []byte
		for i, n := 0, rapid.IntRange(1, 6).Draw(t, label+"_parts"); i < n; i++ {
			b = append(b, rapid.SampledFrom(promptish).Draw(t, label+"_part")...)
		}
		return b
	case 3: // text lines with CR
		n := rapid.IntRange(1, 2000).Draw(t, label+"_n")
		sm := gen.NewSM(rapid.Uint64().Draw(t, label+"_seed"))
		b := make([]byte, n)
		for i := range b {
			if sm.Intn(20) == 0 {
				b[i] = '\r'
			} else {
				b[i] = byte(' ' + sm.Intn(95))
			}
		}
		return b
	default: // random bytes, up to 8 KiB
		n := rapid.SampledFrom([]int{1, 2, 100, 1000, 4095, 4096, 4097, 8192}).Draw(t, label+"_size")
		n = rapid.IntRange(1, n).Draw(t, label+"_n")
		sm := gen.NewSM(rapid.Uint64().Draw(t, label+"_seed"))
		b := make([]byte, n)
		for i := range b {
			b[i] = byte(sm.Next())
		}
		return b
	}
}

func genChunks(t *rapid.T, label string) []int {
	switch rapid.IntRange(0, 3).Draw(t, label+"_kind") {
	case 0:
		return []int{1 << 20} // as it comes
	case 1:
		return []int{rapid.IntRange(1, 12).Draw(t, label+"_fixed")}
	default:
		return rapid.SliceOfN(rapid.SampledFrom([]int{1, 1, 2, 3, 5, 7, 10, 11, 12, 21, 22, 23, 100, 1000, 5000}), 1, 8).Draw(t, label)
	}
}

func genCredentials(t *rapid.T, c *Case) {
	c.Call = rapid.StringMatching(`[!-~]{1,16}`).Draw(t, "call")
	switch rapid.IntRange(0, 3).Draw(t, "pw_kind") {
	case 0:
		c.Password = []byte{}
	case 1:
		c.Password = []byte(rapid.SampledFrom([]string{"CMSTelnet", "secret", "p w", " lead", "trail ", "a\nb", "\n", "Password :", "callsign"}).Draw(t, "pw"))
	default:
		c.Password = rapid.SliceOfN(rapid.Byte().Filter(func(b byte) bool { return b != '\r' }), 1, 24).Draw(t, "pw")
	}
	// length classes around the usual I/O buffer sizes (a login line longer than a reader's buffer) - the
	// statement quantifies over all callsign/password strings without CR
	long := []int{255, 256, 1023, 1024, 4094, 4095, 4096, 4097, 4098, 5000, 8191, 8192, 8193, 20000, 65535, 65536, 70000}
	if len(c.Password) > 0 && rapid.IntRange(0, 5).Draw(t, "pw_long") == 0 {
		c.PwLen = rapid.SampledFrom(long).Draw(t, "pw_len")
	}
	if rapid.IntRange(0, 11).Draw(t, "call_long") == 0 {
		c.CallLen = rapid.SampledFrom(long).Draw(t, "call_len")
	}
}

func genLoginDial(t *rapid.T, c *Case) {
	c.Method = rapid.SampledFrom([]string{"dial", "timeout", "context", "url", "dialer"}).Draw(t, "method")
	if rapid.IntRange(0, 7).Draw(t, "linger") == 0 {
		c.Linger = true
		c.TimeoutMs = rapid.IntRange(150, 400).Draw(t, "timeout_ms")
	}
}

var (
	lineStart = []byte("abdefghijklmnoqrstuvwxyzABDEFGHIJKLMNOQRSTUVWXYZ0123456789*#<[;.-")
	lineRest  = []byte("abcdefghijklmnopqrstuvwxyzCPS 0123456789:*#<>[];.-")
	servers   = []string{"prompt-then-never-reads", "callsign-then-never-reads-password", "silent", "partial-prompt", "callsign-then-silence", "callsign-then-partial-password", "garbage-no-cr", "garbage-stream-no-cr", "endless-lines", "immediate-close", "half-close", "garbage-then-close"}
)

func genCase(t *rapid.T) Case {
	var c Case
	switch k := rapid.IntRange(0, 11).Draw(t, "family"); {
	case k < 4:
		c.Family = "relay"
	case k < 7:
		c.Family = "eager"
	case k < 10:
		c.Family = "adversary"
	default:
		c.Family = "overlap"
	}
	genCredentials(t, &c)
	if c.Family == "overlap" {
		// two sessions open at the same time; callsign without white space at the edges is not needed here (the
		// generator never produces any), credentials of ordinary length, the second password line mostly longer
		c.CallLen, c.PwLen = 0, 0
		c.Side = rapid.SampledFrom([]string{"listener", "dialler"}).Draw(t, "side")
		c.C2S, c.S2C = genPayload(t, "c2s"), genPayload(t, "s2c")
		var c2 Case
		genCredentials(t, &c2)
		if rapid.IntRange(0, 2).Draw(t, "pw2_longer") > 0 {
			c2.Password = append(append([]byte{}, c.Password...), rapid.SliceOfN(rapid.Byte().Filter(func(b byte) bool { return b != '\r' }), 1, 40).Draw(t, "pw2_more")...)
		}
		c.Second = &Second{Call: c2.Call, Password: c2.Password, C2S: genPayload(t, "c2s2"), S2C: genPayload(t, "s2c2")}
		c.S2CChunks = []int{1 << 20}
		c.GapUS = rapid.SampledFrom([]int{0, 500, 2000}).Draw(t, "gap_us")
		c.Method = rapid.SampledFrom([]string{"dial", "timeout", "context", "url", "dialer"}).Draw(t, "method")
		c.Eager = 1 << 20 // the whole server payload is written with the password prompt
		return c
	}
	if c.Family == "adversary" {
		c.Method = rapid.SampledFrom([]string{"context", "timeout", "url", "dialer"}).Draw(t, "method")
		c.TimeoutMs = rapid.IntRange(50, 400).Draw(t, "timeout_ms")
		c.Server = rapid.SampledFrom(servers).Draw(t, "server")
		c.Prior = c.Method == "dialer" && rapid.Bool().Draw(t, "prior")
		switch c.Server {
		case "prompt-then-never-reads", "callsign-then-never-reads-password":
			// the dialler must be blocked in a WRITE when the deadline passes: the reply has to exceed what
			// the kernel buffers between the two sockets (the server's receive buffer is set to 4 KiB; the
			// sender's buffer auto-tunes up to tcp_wmem max, 4 MiB here)
			n := rapid.SampledFrom([]int{12 << 20, 16 << 20, 24 << 20}).Draw(t, "huge")
			if c.Server == "prompt-then-never-reads" {
				c.CallLen = n
			} else {
				if len(c.Password) == 0 {
					c.Password = []byte("x")
				}
				c.PwLen, c.CallLen = n, 0
			}
		case "partial-prompt":
			c.Garbage = []byte("Callsign :")[:rapid.IntRange(1, 10).Draw(t, "prefix")]
		case "callsign-then-partial-password":
			c.Garbage = []byte("Password :")[:rapid.IntRange(1, 10).Draw(t, "prefix")]
		case "garbage-no-cr", "garbage-stream-no-cr", "garbage-then-close":
			c.Garbage = rapid.SliceOfN(rapid.Byte().Filter(func(b byte) bool { return b != '\r' }), 1, 600).Draw(t, "garbage")
		case "endless-lines":
			for i, n := 0, rapid.IntRange(1, 5).Draw(t, "lines"); i < n; i++ {
				c.Garbage = append(c.Garbage, rapid.SampledFrom(lineStart).Draw(t, "l0"))
				c.Garbage = append(c.Garbage, rapid.SliceOfN(rapid.SampledFrom(lineRest), 0, 30).Draw(t, "l")...)
				c.Garbage = append(c.Garbage, '\r')
			}
		}
		return c
	}
	c.C2S, c.S2C = genPayload(t, "c2s"), genPayload(t, "s2c")
	c.S2CChunks, c.C2SChunks = genChunks(t, "s2c_chunks"), genChunks(t, "c2s_chunks")
	c.GapUS = rapid.SampledFrom([]int{0, 100, 500, 1000, 2000}).Draw(t, "gap_us")
	genLoginDial(t, &c)
	if c.Family == "relay" {
		c.TailPw = rapid.IntRange(1, len(c.Password)+1).Draw(t, "tail_pw")
		if len(c.C2S) > 0 && rapid.IntRange(0, 4).Draw(t, "coalesce") > 0 {
			c.Hold = rapid.IntRange(1, min(len(c.C2S), rapid.SampledFrom([]int{1, 8, 100, 3000}).Draw(t, "hold_max"))).Draw(t, "hold")
		}
	} else {
		c.PromptSplit = rapid.IntRange(0, 10).Draw(t, "prompt_split")
		if len(c.S2C) > 0 && rapid.IntRange(0, 4).Draw(t, "coalesce") > 0 {
			c.Eager = rapid.IntRange(1, min(len(c.S2C), rapid.SampledFrom([]int{1, 8, 100, 3000}).Draw(t, "eager_max"))).Draw(t, "eager")
		}
	}
	return c
}

// ---- accounting ---------------------------------------------------------------------------------

func sizeLabel(prefix string, n int) string {
	switch {
	case n == 0:
		return prefix + ":0"
	case n <= 64:
		return prefix + ":1-64"
	case n <= 4096:
		return prefix + ":65-4096"
	}
	return prefix + ":>4096"
}

func account(c Case, o outcome) {
	harness.Eval()
	harness.Label("family:" + c.Family)
	if o.skipped != "" {
		harness.Label("skipped:" + o.skipped)
		return
	}
	raw, _ := json.Marshal(c)
	nt := false
	switch c.Family {
	case "adversary":
		nt = true
		harness.Label("server:"+c.Server, "deadline-via:"+c.Method, "adversary-returned:"+o.returned)
		over := o.elapsed - time.Duration(c.TimeoutMs)*time.Millisecond
		switch {
		case over <= 0:
			harness.Label("return-vs-deadline:before")
		case over <= 50*time.Millisecond:
			harness.Label("return-vs-deadline:+0..50ms")
		case over <= 500*time.Millisecond:
			harness.Label("return-vs-deadline:+50..500ms")
		case over <= slack:
			harness.Label("return-vs-deadline:+0.5..10s")
		default:
			harness.Label("return-vs-deadline:beyond+10s")
		}
	case "relay":
		nt = c.Hold > 0
		harness.Label("method:"+c.Method, sizeLabel("relay-c2s", len(c.C2S)), sizeLabel("relay-s2c", len(c.S2C)))
		if c.Hold > 0 {
			harness.Label("relay:payload-coalesced-with-password-line")
		}
		if len(c.S2CChunks) > 0 && c.S2CChunks[0] < 11 {
			harness.Label("relay:split-inside-prompt")
		}
		if len(c.C2SChunks) > 0 && c.C2SChunks[0] < len(c.Call)+1 {
			harness.Label("relay:split-inside-callsign-reply")
		}
	case "overlap":
		nt = (c.Side == "listener" && len(c.C2S) > 0) || (c.Side == "dialler" && len(c.S2C) > 0)
		harness.Label("overlap:"+c.Side, "method:"+c.Method)
		if c.Second != nil && len(c.Second.Password) > len(c.Password) {
			harness.Label("overlap:second-password-line-longer")
		}
	case "eager":
		nt = c.Eager > 0
		harness.Label("method:"+c.Method, sizeLabel("eager-s2c", len(c.S2C)))
		if c.Eager > 0 {
			harness.Label("eager:payload-coalesced-with-password-prompt")
		}
		if c.PromptSplit > 0 {
			harness.Label("eager:password-prompt-split")
		}
	}
	if c.Linger {
		harness.Label("linger-past-dial-deadline")
	}
	if bytes.IndexByte(c.Password, '\n') >= 0 {
		harness.Label("password:has-LF")
	}
	if c.Prior {
		harness.Label("history:dialer-used-before-with-a-long-dial_timeout-URL")
	}
	if c.PwLen >= 4096 {
		harness.Label("password:>=4096-bytes")
	}
	if c.CallLen >= 4096 {
		harness.Label("callsign:>=4096-bytes")
	}
	if len(c.Password) == 0 {
		harness.Label("password:empty")
	}
	if nt {
		harness.NonTrivial(harness.Hash(raw))
		harness.Label("nontrivial")
		if harness.WantSample() {
			harness.Sample(map[string]any{"family": c.Family, "call": c.Call, "password": fmt.Sprintf("%q", c.Password), "c2s_len": len(c.C2S), "s2c_len": len(c.S2C), "hold": c.Hold, "tail_pw": c.TailPw, "eager": c.Eager, "s2c_chunks": c.S2CChunks, "c2s_chunks": c.C2SChunks, "gap_us": c.GapUS, "method": c.Method, "server": c.Server, "timeout_ms": c.TimeoutMs, "linger": c.Linger, "elapsed_ms": o.elapsed.Milliseconds()})
		}
	}
}

func TestProp(t *testing.T) {
	rapid.Check(t, func(t *rapid.T) {
		c := genCase(t)
		harness.Begin(c)
		sig, msg, o := run(c)
		harness.End()
		account(c, o)
		if sig != "" {
			harness.Fail(t, sig, c, "%s", msg)
		}
	})
}

func TestReplay(t *testing.T) {
	for _, f := range harness.ReplayFiles() {
		var c Case
		if _, err := harness.ReplayCase(f, &c); err != nil {
			t.Fatalf("%s: %v", f, err)
		}
		harness.Begin(c)
		sig, msg, _ := run(c)
		harness.End()
		harness.Eval()
		if sig != "" {
			harness.Fail(t, sig, c, "replay %s: %s", f, msg)
		}
	}
}

// watchLimit is the (very generous) wall budget of one case; VERIF_C15_WATCH shortens it for
// debugging only.
var watchLimit = func() time.Duration {
	if d, err := time.ParseDuration(os.Getenv("VERIF_C15_WATCH")); err == nil && d > 0 {
		return d
	}
	return 180 * time.Second
}()
