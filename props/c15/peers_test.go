package c15

// The peers of the library dialler: a byte-level TCP relay that realises a segmentation plan
// between the library dialler and the library listener, a scripted eager login server, and
// scripted adversarial servers. None of this knows how the library is implemented; it speaks the
// login protocol as seen on the wire ("Callsign :\r" <call>\r "Password :\r" <password>\r).

import (
	"bytes"
	"io"
	"net"
	"sync"
	"time"
)

func tcp(c net.Conn) *net.TCPConn {
	t := c.(*net.TCPConn)
	t.SetNoDelay(true)
	return t
}

// cutsFor turns a cyclic chunk schedule into absolute, strictly increasing end offsets covering
// [from, to). After maxCuts chunks the rest goes out as it comes (bounds the time spent pausing).
func cutsFor(sched []int, from, to int, out []int) []int {
	const maxCuts = 48
	if len(sched) == 0 {
		sched = []int{1 << 20}
	}
	for i, pos := 0, from; pos < to; i++ {
		n := sched[i%len(sched)]
		if n < 1 {
			n = 1
		}
		if i >= maxCuts {
			n = to - pos
		}
		pos = min(pos+n, to)
		out = append(out, pos)
	}
	return out
}

// pump copies src to dst. Every element of cuts is an absolute stream offset at which a Write
// call must end (a split point): bytes on both sides of a cut never travel in the same Write.
// Bytes between two cuts are sent with a single Write if they have arrived together; pump never
// waits for more input while it has unsent bytes - except up to the offset waitFor, the one
// place where the plan holds bytes back on purpose: nothing from the cut before waitFor onwards
// is forwarded until waitFor bytes have arrived, and then they go out as ONE Write (TCP_NODELAY,
// followed by a pause of gap) so that they travel as one segment whenever the kernel allows.
// total(buf) reports the offset at which the stream is complete (or -1 while that is not yet
// known); once that many bytes were forwarded the write side of dst is shut down, which is how
// the receiving end learns that nothing more will come. Bytes beyond the planned cuts are
// forwarded as they arrive.
func pump(src, dst *net.TCPConn, cuts []int, waitFor int, gap time.Duration, total func(buf []byte) int) {
	var buf []byte
	tmp := make([]byte, 32<<10)
	sent, eof, closed := 0, false, false
	fill := func(upto int) {
		for len(buf) < upto && !eof {
			n, err := src.Read(tmp)
			buf = append(buf, tmp[:n]...)
			if err != nil {
				eof = true
			}
		}
	}
	send := func(upto int) bool {
		upto = min(upto, len(buf))
		if upto > sent {
			if _, err := dst.Write(buf[sent:upto]); err != nil {
				return false
			}
			sent = upto
			if gap > 0 {
				time.Sleep(gap)
			}
		}
		if t := total(buf); !closed && t >= 0 && sent >= t {
			closed = true
			dst.CloseWrite()
		}
		return true
	}
	for _, c := range cuts {
		for sent < c && !(eof && sent >= len(buf)) {
			if c == waitFor {
				fill(c)
			} else {
				fill(sent + 1)
			}
			if !send(c) {
				return
			}
		}
	}
	for !(eof && sent >= len(buf)) {
		fill(sent + 1)
		if !send(len(buf)) {
			return
		}
	}
	if !closed {
		dst.CloseWrite()
	}
}

// afterSecondCR returns the offset just behind the second CR of buf, or -1.
func afterSecondCR(buf []byte) int {
	i := bytes.IndexByte(buf, '\r')
	if i < 0 {
		return -1
	}
	j := bytes.IndexByte(buf[i+1:], '\r')
	if j < 0 {
		return -1
	}
	return i + 1 + j + 1
}

const promptLen = len("Callsign :\r") + len("Password :\r")

// relay accepts one connection on ln, connects to target and pumps both directions according
// to the case's plan. It returns when both directions are finished.
func relay(ln net.Listener, target string, c Case, wg *sync.WaitGroup, fail func(string)) {
	defer wg.Done()
	cc, err := ln.Accept()
	if err != nil {
		return // the case ended before the dialler connected
	}
	client := tcp(cc)
	defer client.Close()
	sc, err := net.Dial("tcp", target)
	if err != nil {
		fail("relay cannot reach the listener: " + err.Error())
		return
	}
	server := tcp(sc)
	defer server.Close()

	gap := time.Duration(c.GapUS) * time.Microsecond
	loginLen := len(c.Call) + 1 + len(c.Password) + 1
	// client -> server: schedule up to the held-back tail of the password line, then that tail
	// together with the first Hold payload bytes as ONE write, then the schedule again.
	tail := min(max(c.TailPw, 1), len(c.Password)+1)
	hold := min(c.Hold, len(c.C2S))
	var c2s []int
	c2s = cutsFor(c.C2SChunks, 0, loginLen-tail, c2s)
	c2s = append(c2s, loginLen+hold)
	c2s = cutsFor(c.C2SChunks, loginLen+hold, loginLen+len(c.C2S), c2s)
	// server -> client: schedule over prompts and payload alike
	s2c := cutsFor(c.S2CChunks, 0, promptLen+len(c.S2C), nil)

	var pw sync.WaitGroup
	pw.Add(2)
	go func() {
		defer pw.Done()
		pump(client, server, c2s, loginLen+hold, gap, func(b []byte) int {
			if e := afterSecondCR(b); e >= 0 {
				return e + len(c.C2S)
			}
			return -1
		})
	}()
	go func() {
		defer pw.Done()
		pump(server, client, s2c, -1, gap, func(b []byte) int {
			if e := afterSecondCR(b); e >= 0 {
				return e + len(c.S2C)
			}
			return -1
		})
	}()
	pw.Wait()
}

// readLine reads up to and including the next CR, one byte at a time (so that nothing behind
// the CR is consumed).
func readLine(c net.Conn) ([]byte, error) {
	var line []byte
	b := make([]byte, 1)
	for {
		if _, err := io.ReadFull(c, b); err != nil {
			return line, err
		}
		line = append(line, b[0])
		if b[0] == '\r' {
			return line, nil
		}
	}
}

func writeChunks(c net.Conn, data []byte, sched []int, gap time.Duration) error {
	prev := 0
	for _, cut := range cutsFor(sched, 0, len(data), nil) {
		if _, err := c.Write(data[prev:cut]); err != nil {
			return err
		}
		prev = cut
		if gap > 0 {
			time.Sleep(gap)
		}
	}
	return nil
}

type eagerResult struct {
	callLine, pwLine, payload []byte
	err                       error
}

// eagerServer is a login server that does not wait for the password before it starts talking:
// the first Eager bytes of its payload are written by the same Write call as "Password :\r".
func eagerServer(ln net.Listener, c Case, res *eagerResult, wg *sync.WaitGroup) {
	defer wg.Done()
	cc, err := ln.Accept()
	if err != nil {
		res.err = err
		return
	}
	conn := tcp(cc)
	defer conn.Close()
	gap := time.Duration(c.GapUS) * time.Microsecond
	if res.err = writeChunks(conn, []byte("Callsign :\r"), c.S2CChunks, gap); res.err != nil {
		return
	}
	if res.callLine, res.err = readLine(conn); res.err != nil {
		return
	}
	eager := min(c.Eager, len(c.S2C))
	head := append([]byte("Password :\r"), c.S2C[:eager]...)
	split := min(max(c.PromptSplit, 0), len("Password :\r")-1) // bytes of the prompt sent ahead, never its CR
	if split > 0 {
		if _, res.err = conn.Write(head[:split]); res.err != nil {
			return
		}
		if gap > 0 {
			time.Sleep(gap)
		}
	}
	if _, res.err = conn.Write(head[split:]); res.err != nil {
		return
	}
	if gap > 0 {
		time.Sleep(gap)
	}
	if res.err = writeChunks(conn, c.S2C[eager:], c.S2CChunks, gap); res.err != nil {
		return
	}
	conn.CloseWrite()
	if res.pwLine, res.err = readLine(conn); res.err != nil {
		return
	}
	res.payload, res.err = io.ReadAll(conn)
}

// adversary accepts one connection and misbehaves according to c.Server until stop is closed
// or the dialler goes away.
func adversary(ln net.Listener, c Case, stop <-chan struct{}, wg *sync.WaitGroup) {
	defer wg.Done()
	cc, err := ln.Accept()
	if err != nil {
		return
	}
	conn := tcp(cc)
	defer conn.Close()
	go func() { // unblock reads/writes when the case is over
		<-stop
		conn.SetDeadline(time.Unix(1, 0))
	}()
	drain := func() { io.Copy(io.Discard, conn) }
	hold := func() { <-stop } // never reads: whatever the dialler writes stays in the kernel buffers
	switch c.Server {
	case "prompt-then-never-reads":
		conn.SetReadBuffer(4096)
		conn.Write([]byte("Callsign :\r"))
		hold()
	case "callsign-then-never-reads-password":
		conn.Write([]byte("Callsign :\r"))
		readLine(conn)
		conn.SetReadBuffer(4096)
		conn.Write([]byte("Password :\r"))
		hold()
	case "silent":
		drain()
	case "partial-prompt":
		conn.Write(c.Garbage) // a prefix of "Callsign :\r" without the CR
		drain()
	case "callsign-then-silence":
		conn.Write([]byte("Callsign :\r"))
		drain()
	case "callsign-then-partial-password":
		conn.Write([]byte("Callsign :\r"))
		readLine(conn)
		conn.Write(c.Garbage) // a prefix of "Password :\r" without the CR
		drain()
	case "garbage-no-cr":
		conn.Write(c.Garbage)
		drain()
	case "garbage-stream-no-cr":
		go drain()
		for {
			if _, err := conn.Write(c.Garbage); err != nil {
				return
			}
			time.Sleep(time.Millisecond)
		}
	case "endless-lines":
		go drain()
		for {
			if _, err := conn.Write(c.Garbage); err != nil { // lines ending in CR that are not prompts
				return
			}
			time.Sleep(time.Millisecond)
		}
	case "immediate-close":
		return
	case "half-close":
		conn.CloseWrite()
		drain()
	case "garbage-then-close":
		conn.Write(c.Garbage)
		return
	}
}
