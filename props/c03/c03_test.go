// C03 — no byte sequence from the remote can crash, hang or exhaust a session.
package c03

import (
	"runtime/debug"
	"encoding/binary"
	"errors"
	"fmt"
	"io"
	"net"
	"runtime"
	"strings"
	"testing"
	"time"

	"github.com/la5nta/wl2k-go/fbb"
	"pgregory.net/rapid"

	"verif/internal/gen"
	"verif/internal/harness"
	"verif/internal/msggen"
	"verif/internal/peerscen"
	"verif/internal/ref/b2f"
	ref "verif/internal/ref/lzhuf"
	"verif/internal/stream"
)

func TestMain(m *testing.M) {
	harness.Property("C03",
		"the remote is a fixed byte script fed through a generated read schedule. Scripts: (1) conforming transcripts = the recorded peer->library stream of a clean exchange with the reference peer (sanity: must end nil/ErrConnLost); (2) layered mutations of such transcripts as structured elements — element drop/dup/swap, hostile lines (F>, ;PQ, FS, FC, FC EM, NUL lines, non-ASCII), numeric fields of proposals/answers/offsets set to -1, 0, 2^31-1, 2^31, 2^63, 10^18, 2^64-1, 2^64, 2^65-1, 19 nines (values that wrap to a negative 64 bit integer), frame header length/title/offset/block sizes/checksum edits, payload edits (LZHUF size negative / too small / huge with re-computed CRC, bit flips, truncation, random) with the frame and proposal re-computed around them, message edits (negative/huge/non-numeric Body: and File: sizes, dropped headers) re-compressed and re-framed, then byte level truncate/delete/insert/substitute; every 25th case additionally gets a flood of 150..600 KB of comment / empty / short lines at a line boundary; (3) arbitrary bytes. Master and slave role, 0..7 outbound messages, with and without handler. Non-trivial = the Session consumed bytes beyond the remote's handshake; distinct by hash(script, library config).",
		"a hang is declared only after 60 s wall for a case that normally takes microseconds; allocation bound per case: 64 MiB + 4096 x script bytes of cumulative allocation (runtime.MemStats.TotalAlloc), worker address space limited to 4 GiB, goroutine stacks limited to 16 MiB (debug.SetMaxStack; the largest scripts are 600 KB floods, so a stack beyond that is more than 25 times the bytes received)",
	)
	// the proportionality clause covers the stack too: a correct session needs a few KiB of stack whatever the
	// remote sends; a goroutine that grows beyond 16 MiB ends the process (fatal "stack overflow"), which the
	// driver attributes to the case and reports after re-running it alone
	debug.SetMaxStack(16 << 20)
	harness.Main(m)
}

type Case struct {
	Base   peerscen.Case `json:"base"` // library configuration (role, queue, policy, ...); the peer part only documents where the script came from
	Script []byte        `json:"script"`
	Sched  []int         `json:"sched"`
	Desc   []string      `json:"desc"`
	HsLen  int           `json:"handshake_len"` // bytes of the script that belong to the remote's handshake
	// Flood: Unit repeated N times is inserted at byte offset At of Script when the case runs (kept compact: the
	// remote sends a very long run of comment / empty / short lines, 150..600 KB)
	Flood *Flood `json:"flood,omitempty"`
	// Stall: the remote stops reading as soon as the Session starts to report an error to it ("*** ..."): that
	// write cannot complete. A deadline on the connection ends it (fast-forwarded by the scripted connection),
	// without one only Close does.
	Stall bool `json:"stall,omitempty"`
}

type Flood struct {
	At   int    `json:"at"`
	Unit string `json:"unit"`
	N    int    `json:"n"`
}

func (c Case) script() []byte {
	if c.Flood == nil || c.Flood.N <= 0 {
		return c.Script
	}
	at := min(max(c.Flood.At, 0), len(c.Script))
	out := make([]byte, 0, len(c.Script)+len(c.Flood.Unit)*c.Flood.N)
	out = append(out, c.Script[:at]...)
	out = append(out, strings.Repeat(c.Flood.Unit, c.Flood.N)...)
	return append(out, c.Script[at:]...)
}

type obs struct {
	stalled  bool
	consumed int
	err      error
	alloc    uint64
}

func run(c Case) (sig, msg string, o obs) {
	s, _, err := peerscen.NewLibSession(c.Base)
	if err != nil {
		return "harness-generator", err.Error(), o
	}
	script := c.script()
	conn := stream.NewScripted(script, c.Sched)
	conn.StallOnEcho = c.Stall
	var ms0, ms1 runtime.MemStats
	runtime.ReadMemStats(&ms0)
	var psig, pmsg string
	var xerr error
	hung, kind := harness.Watch(60*time.Second, func() {
		psig, pmsg = harness.Catch(func() { _, xerr = s.Exchange(conn) })
	})
	if hung {
		if conn.Stalled {
			harness.Record("hang:error-report-to-stalled-remote", c, fmt.Sprintf("Exchange did not return within 60 s: the remote stopped reading when the Session began to report an error to it (\"*** ...\"), the connection had no write deadline at that moment and was not closed either, so the write never ends (%v)", c.Desc))
			harness.ExitHung()
		}
		harness.Record("hang:exchange-"+kind, c, fmt.Sprintf("Exchange did not return within 60 s after the %d byte script ended (%v)", len(script), c.Desc))
		harness.ExitHung()
	}
	o.stalled = conn.Stalled
	runtime.ReadMemStats(&ms1)
	o.consumed, o.err = conn.Consumed(), xerr
	o.alloc = ms1.TotalAlloc - ms0.TotalAlloc
	if psig != "" {
		return psig, fmt.Sprintf("%v: %s", c.Desc, pmsg), o
	}
	if limit := uint64(64<<20) + 4096*uint64(len(script)); o.alloc > limit {
		return "allocation-out-of-proportion", fmt.Sprintf("%v: Exchange allocated %d bytes for a %d byte script (bound %d)", c.Desc, o.alloc, len(script), limit), o
	}
	if conn.CloseCount() < 1 {
		return "conn-not-closed", fmt.Sprintf("%v: Exchange returned (%v) without closing the connection", c.Desc, xerr), o
	}
	if len(c.Desc) == 1 && c.Desc[0] == "conforming" {
		if xerr != nil && !errors.Is(xerr, fbb.ErrConnLost) {
			return "conforming-script-rejected", fmt.Sprintf("the unmodified conforming transcript was rejected: %v", xerr), o
		}
	}
	return "", "", o
}

var hostileLines = []string{"F>", "F> ", "F>  ", "F", "FS", "FS ", "FC", "FC EM", "FC EM X", "FC EM X 1", "FC EM X 1 1", "FD EM X -1 -1 0", "FA", "FB 1", "FE", ";PQ", ";PQ:", ";PQ: ", ";PM", ";PM: a b c",
	";FW", ";FW:", ";FW: ", ";FW:  |", "[", "[]", "[-]", "[--]", "[a-b]", "[a-B2$]", "\x00", "\x00\x00", " \x00 ", "\x00F>", "FF\x00", "***", "*** err", "*", ">", " >", "FQ", "FF", "\xff\xfe", "FS A", "FS !", "FS A99999999999999999999", "FS A18446744073709551615", "FS !9999999999999999999", "FS A36893488147419103231", "FS +A", "FS +++++++++++", "FS A500", "FS !999999", "FS A1000000", "FS -=+A5", "FS E", "FS H"}

var hostileNums = []string{"-1", "0", "1", "2147483647", "2147483648", "4294967295", "4294967296", "9223372036854775807", "9223372036854775808", "1000000000000000000", "18446744073709551615", "18446744073709551616", "9999999999999999999", "36893488147419103231", "18446744073709551516", "340282366920938463463374607431768211455", "+5", " 5", "5 ", "", "x", "0x10", "1e9", "-0"}

func mutatePayload(t *rapid.T, p []byte, code byte) ([]byte, string) {
	p = append([]byte(nil), p...)
	fix := func() {
		if code == 'C' && len(p) >= 6 {
			binary.LittleEndian.PutUint16(p, ref.CRC16(p[2:]))
		}
	}
	switch rapid.IntRange(0, 6).Draw(t, "pmut") {
	case 0: // declared size edits with a valid CRC
		if len(p) >= 6 {
			n := int64(int32(binary.LittleEndian.Uint32(p[2:])))
			sz := rapid.SampledFrom([]int64{-1 << 31, -1, 0, 1, n - 1, n - 30, n + 1, n + 60, 1<<31 - 1, 1 << 30}).Draw(t, "psize")
			binary.LittleEndian.PutUint32(p[2:], uint32(int32(sz)))
			if rapid.IntRange(0, 3).Draw(t, "pfix") > 0 {
				fix()
			}
			return p, fmt.Sprintf("payload:size=%d", sz)
		}
		return p, "payload:none"
	case 1: // bit flips
		for i := rapid.IntRange(1, 3).Draw(t, "nflip"); i > 0 && len(p) > 0; i-- {
			b := rapid.IntRange(0, len(p)*8-1).Draw(t, "bit")
			p[b/8] ^= 1 << uint(b%8)
		}
		if rapid.Bool().Draw(t, "pfix") {
			fix()
		}
		return p, "payload:bitflip"
	case 2: // truncation
		p = p[:rapid.IntRange(0, len(p)).Draw(t, "pcut")]
		if rapid.Bool().Draw(t, "pfix") {
			fix()
		}
		return p, fmt.Sprintf("payload:truncated-to-%d", len(p))
	case 3:
		return rapid.SliceOfN(rapid.Byte(), 0, 300).Draw(t, "prandom"), "payload:random"
	case 4: // tiny
		return rapid.SampledFrom([][]byte{{}, {0}, {0, 0, 0, 0, 0}, {0, 0, 0, 0, 0, 0}, {0, 0, 0xff, 0xff, 0xff, 0xff}, {0x1f, 0x8b}, {0x1f, 0x8b, 8, 0, 0, 0, 0, 0, 0, 0}}).Draw(t, "ptiny"), "payload:tiny"
	case 5: // valid stream of something that is not a message
		junk := rapid.SliceOfN(rapid.Byte(), 0, 200).Draw(t, "junk")
		return b2f.Payload(junk, code), "payload:valid-stream-of-junk"
	default: // other compression than announced
		other := byte('C')
		if code == 'C' {
			other = 'D'
		}
		return b2f.Payload([]byte("Mid: X\r\nBody: 1\r\n\r\nx"), other), "payload:other-codec"
	}
}

func mutateMessage(t *rapid.T, msg []byte) ([]byte, string) {
	s := string(msg)
	num := rapid.SampledFrom(hostileNums).Draw(t, "mnum")
	switch rapid.IntRange(0, 6).Draw(t, "mmut") {
	case 0:
		return []byte(replaceHeader(s, "Body", num)), "message:Body=" + num
	case 1:
		return []byte(replaceHeader(s, "File", num+" name.txt")), "message:File=" + num
	case 2:
		return []byte(replaceHeader(s, "Date", rapid.SampledFrom([]string{"", "x", "2020/13/45 99:99", "00000000000000"}).Draw(t, "mdate"))), "message:Date"
	case 3: // add File headers without data
		return []byte(strings.Replace(s, "\r\n\r\n", "\r\nFile: "+num+" a\r\nFile: 10 b\r\nFile: \r\nFile: 5\r\n\r\n", 1)), "message:extra-File-headers"
	case 4: // truncated message
		return msg[:rapid.IntRange(0, len(msg)).Draw(t, "mcut")], "message:truncated"
	case 5: // no header end / garbage
		return rapid.SliceOfN(rapid.Byte(), 0, 200).Draw(t, "mgarbage"), "message:garbage"
	default: // huge header line / many headers
		return []byte("Mid: X\r\n" + strings.Repeat("X-A: "+strings.Repeat("y", 500)+"\r\n", rapid.IntRange(1, 40).Draw(t, "mrep")) + "Body: " + num + "\r\n\r\nabc"), "message:many-headers"
	}
}

func replaceHeader(msg, key, val string) string {
	lines := strings.Split(msg, "\r\n")
	done := false
	for i, l := range lines {
		if l == "" {
			break
		}
		if strings.HasPrefix(strings.ToLower(l), strings.ToLower(key)+":") {
			lines[i] = key + ": " + val
			done = true
		}
	}
	if !done {
		lines = append([]string{key + ": " + val}, lines...)
	}
	return strings.Join(lines, "\r\n")
}

func setProp(el []b2f.Elem, mid string, usize, csize int) {
	for i := range el {
		if el[i].Kind == "prop" && el[i].MID == mid {
			if usize >= 0 {
				el[i].USize = usize
			}
			el[i].CSize = csize
		}
	}
}

// mutate applies one structured mutation.
func mutate(t *rapid.T, el []b2f.Elem) ([]b2f.Elem, string) {
	if len(el) == 0 {
		return el, "empty"
	}
	idx := func(kind string) int {
		var c []int
		for i, e := range el {
			if e.Kind == kind {
				c = append(c, i)
			}
		}
		if len(c) == 0 {
			return -1
		}
		return c[rapid.IntRange(0, len(c)-1).Draw(t, "idx_"+kind)]
	}
	switch rapid.IntRange(0, 11).Draw(t, "mut") {
	case 0: // drop
		i := rapid.IntRange(0, len(el)-1).Draw(t, "drop")
		return append(append([]b2f.Elem{}, el[:i]...), el[i+1:]...), "drop:" + el[i].Kind
	case 1: // dup
		i := rapid.IntRange(0, len(el)-1).Draw(t, "dup")
		out := append(append([]b2f.Elem{}, el[:i+1]...), el[i:]...)
		return out, "dup:" + el[i].Kind
	case 2: // swap
		if len(el) < 2 {
			return el, "none"
		}
		i := rapid.IntRange(0, len(el)-2).Draw(t, "swap")
		out := append([]b2f.Elem{}, el...)
		out[i], out[i+1] = out[i+1], out[i]
		return out, "swap:" + el[i].Kind + "," + el[i+1].Kind
	case 3: // replace or insert a hostile line
		i := rapid.IntRange(0, len(el)).Draw(t, "lineat")
		h := rapid.SampledFrom(hostileLines).Draw(t, "hostile")
		out := append(append(append([]b2f.Elem{}, el[:i]...), b2f.Elem{Kind: "line", Text: h}), el[i:]...)
		if i < len(el) && rapid.Bool().Draw(t, "replace") {
			out = append(out[:i+1], out[i+2:]...)
		}
		return out, fmt.Sprintf("line:%q", h)
	case 4: // proposal numeric fields
		if i := idx("prop"); i >= 0 {
			out := append([]b2f.Elem{}, el...)
			n := rapid.SampledFrom(hostileNums).Draw(t, "propnum")
			if rapid.Bool().Draw(t, "which") {
				out[i].USizeText = n
			} else {
				out[i].CSizeText = n
			}
			return out, "prop:size=" + n
		}
	case 5: // block end checksum text
		if i := idx("end"); i >= 0 {
			out := append([]b2f.Elem{}, el...)
			out[i].HH = rapid.SampledFrom([]string{" ", "  ", " ZZ", " 1", " 123456789", " -1", " 00", "\x00"}).Draw(t, "hh")
			return out, fmt.Sprintf("end:%q", out[i].HH)
		}
	case 6: // answer line edits
		for i, e := range el {
			if e.Kind == "line" && strings.HasPrefix(e.Text, "FS ") {
				out := append([]b2f.Elem{}, el...)
				n := len(e.Text) - 3
				out[i].Text = rapid.SampledFrom([]string{"FS " + strings.Repeat("A500", n), "FS " + strings.Repeat("!999999", n), "FS " + strings.Repeat("A1000000", n), "FS " + strings.Repeat("+", n+1),
					"FS " + strings.Repeat("+", max(n-1, 0)), "FS " + strings.Repeat("A", n), "FS " + strings.Repeat("!0", n) + "0", "FS " + strings.Repeat("E", n), "FS " + strings.Repeat("A-1", n), "FS " + strings.Repeat("A2147483648", n)}).Draw(t, "fs")
				return out, "answer:" + out[i].Text
			}
		}
	case 7: // frame header edits
		if i := idx("frame"); i >= 0 {
			out := append([]b2f.Elem{}, el...)
			switch rapid.IntRange(0, 4).Draw(t, "fh") {
			case 0:
				v := rapid.IntRange(0, 255).Draw(t, "lenbyte")
				out[i].LenByte = &v
				return out, fmt.Sprintf("frame:lenbyte=%d", v)
			case 1:
				out[i].Title = rapid.SampledFrom([]string{"", strings.Repeat("T", 250), "=?utf-8?q?=C3=A6?=", "=?x?q?", "\xff\xfe", "a\rb"}).Draw(t, "title")
				return out, fmt.Sprintf("frame:title=%q", out[i].Title)
			case 2:
				out[i].Offset = rapid.SampledFrom(hostileNums).Draw(t, "offset")
				return out, "frame:offset=" + out[i].Offset
			case 3:
				out[i].CksAdd = rapid.IntRange(1, 255).Draw(t, "cks")
				return out, "frame:checksum"
			default:
				out[i].Blocks = rapid.SliceOfN(rapid.IntRange(1, 256), 1, 5).Draw(t, "blocks")
				return out, "frame:blocks"
			}
		}
	case 8: // frame truncated
		if i := idx("frame"); i >= 0 {
			out := append([]b2f.Elem{}, el[:i+1]...)
			f := b2f.Render(out[i : i+1])
			out[i].Cut = rapid.IntRange(1, max(len(f)-1, 1)).Draw(t, "fcut")
			return out, "frame:cut"
		}
	case 9, 10: // payload layer (frame and proposal recomputed around it)
		if i := idx("frame"); i >= 0 {
			out := append([]b2f.Elem{}, el...)
			p, d := mutatePayload(t, out[i].Payload, out[i].Code)
			out[i].Payload = p
			setProp(out, out[i].MID, -1, len(p))
			return out, d
		}
	default: // message layer (re-compressed, frame and proposal recomputed)
		if i := idx("frame"); i >= 0 {
			out := append([]b2f.Elem{}, el...)
			m, d := mutateMessage(t, out[i].Msg)
			out[i].Payload = b2f.Payload(m, out[i].Code)
			usize := len(m)
			if rapid.IntRange(0, 3).Draw(t, "usize_stale") == 0 {
				usize = -1
			}
			setProp(out, out[i].MID, usize, len(out[i].Payload))
			return out, d
		}
	}
	return el, "none"
}

func genCase(t *rapid.T) Case {
	base := peerscen.GenCase(t)
	// keep the transcript short: small queues
	if len(base.Lib.Queue) > 7 {
		base.Lib.Queue = base.Lib.Queue[:7]
	}
	if len(base.Peer.Queue) > 4 {
		base.Peer.Queue = base.Peer.Queue[:4]
	}
	base.Peer.EarlyFQ = false
	sig, _, oc := peerscen.Run(base)
	c := Case{Base: base, Sched: gen.Schedule(t, "sched")}
	if sig != "" {
		// the conforming exchange itself fails: that is C05's business; still use what was recorded
		harness.Label("base-exchange-not-clean")
	}
	el := oc.Peer.Sent
	// bytes of the remote's handshake
	for i, e := range el {
		if e.Kind != "line" || (i > 0 && (strings.HasPrefix(e.Text, "F") || i > 8)) {
			break
		}
		c.HsLen = len(b2f.Render(el[:i+1]))
		if strings.HasSuffix(e.Text, ">") || strings.HasPrefix(e.Text, "; ") {
			break
		}
	}
	switch fam := rapid.IntRange(0, 9).Draw(t, "family"); {
	case fam == 0:
		c.Script, c.Desc = b2f.Render(el), []string{"conforming"}
	case fam == 1:
		c.Script, c.Desc = rapid.SliceOfN(rapid.Byte(), 0, 2000).Draw(t, "arbitrary"), []string{"arbitrary-bytes"}
	case fam == 2: // arbitrary lines after a valid handshake
		hs := b2f.Render(el)[:c.HsLen]
		n := rapid.IntRange(1, 6).Draw(t, "nlines")
		for i := 0; i < n; i++ {
			hs = append(hs, []byte(rapid.SampledFrom(hostileLines).Draw(t, "hl")+"\r")...)
		}
		c.Script, c.Desc = hs, []string{"handshake+hostile-lines"}
	default:
		n := rapid.IntRange(1, 3).Draw(t, "nmut")
		for i := 0; i < n; i++ {
			var d string
			el, d = mutate(t, el)
			c.Desc = append(c.Desc, d)
		}
		c.Script = b2f.Render(el)
		if rapid.IntRange(0, 2).Draw(t, "bytelevel") == 0 && len(c.Script) > 0 {
			p := rapid.IntRange(0, len(c.Script)-1).Draw(t, "bpos")
			switch rapid.IntRange(0, 3).Draw(t, "bop") {
			case 0:
				c.Script = c.Script[:p]
				c.Desc = append(c.Desc, "bytes:truncate")
			case 1:
				c.Script = append(c.Script[:p:p], c.Script[p+1:]...)
				c.Desc = append(c.Desc, "bytes:delete")
			case 2:
				c.Script = append(c.Script[:p:p], append([]byte{rapid.Byte().Draw(t, "bins")}, c.Script[p:]...)...)
				c.Desc = append(c.Desc, "bytes:insert")
			default:
				c.Script = append([]byte(nil), c.Script...)
				c.Script[p] = rapid.Byte().Draw(t, "bsub")
				c.Desc = append(c.Desc, "bytes:substitute")
			}
		}
	}
	// a flood of short lines at a line boundary of the script (every 25th case): memory, including the stack of
	// the session's goroutine (limited to 48 MiB in this process, see TestMain), must stay in proportion
	if len(c.Script) > 0 && rapid.IntRange(0, 24).Draw(t, "flood") == 0 {
		var cuts []int
		for i, b := range c.Script {
			if b == '\r' {
				cuts = append(cuts, i+1)
			}
		}
		if len(cuts) > 0 {
			unit := rapid.SampledFrom([]string{";\r", ";\r", "; x\r", ";PM: A B 1 C D\r", "\r", ";FW: N0CALL\r", "FS\r", " \r"}).Draw(t, "flood_unit")
			bytesTotal := rapid.SampledFrom([]int{150 << 10, 300 << 10, 600 << 10}).Draw(t, "flood_bytes")
			c.Flood = &Flood{At: cuts[rapid.IntRange(0, len(cuts)-1).Draw(t, "flood_at")], Unit: unit, N: bytesTotal / len(unit)}
			c.Desc = append(c.Desc, fmt.Sprintf("flood:%q x %d", unit, c.Flood.N))
		}
	}
	c.Stall = rapid.IntRange(0, 2).Draw(t, "stall") == 0
	return c
}

func account(c Case, o obs) {
	harness.Eval()
	if o.stalled {
		harness.Label("remote-stalled-at-error-report")
	}
	for _, d := range c.Desc {
		if i := strings.IndexAny(d, ":="); i > 0 {
			d = d[:i]
		}
		harness.Label("mut:" + d)
	}
	if o.consumed > c.HsLen && c.HsLen > 0 {
		harness.NonTrivial(harness.Hash(c.Script, fmt.Sprint(c.Flood), fmt.Sprintf("%+v", c.Base.Lib), c.Sched))
		harness.Label("consumed-beyond-handshake")
	}
	if o.consumed == len(c.script()) {
		harness.Label("consumed-whole-script")
	}
	switch {
	case o.err == nil:
		harness.Label("result:nil")
	case errors.Is(o.err, fbb.ErrConnLost):
		harness.Label("result:ErrConnLost")
	case errors.Is(o.err, io.EOF) || errors.Is(o.err, net.ErrClosed):
		harness.Label("result:eof")
	default:
		e := o.err.Error()
		for _, k := range []string{"lzhuf", "gzip", "hecksum", "Unable to parse", "offset", "Offset", "Unexpected", "unexpected", "Header length", "malformed MIME", "Malformed", "Length mismatch", "No sid", "B2 Forwarding", "parsing time", "secure login"} {
			if strings.Contains(e, k) {
				harness.Label("result:error:" + k)
				return
			}
		}
		harness.Label("result:error:other")
	}
	if c.Base.Peer.Master {
		harness.Label("role:slave")
	} else {
		harness.Label("role:master")
	}
	if harness.WantSample() && len(c.Desc) > 0 && c.Desc[0] != "conforming" && o.consumed > c.HsLen {
		s := c.Script
		if len(s) > 200 {
			s = s[:200]
		}
		harness.Sample(map[string]any{"mutations": c.Desc, "script_len": len(c.Script), "script_head": fmt.Sprintf("%q", s), "consumed": o.consumed, "result": fmt.Sprint(o.err), "lib_queue": len(c.Base.Lib.Queue), "lib_master": !c.Base.Peer.Master})
	}
}

func prop(t *rapid.T) {
	c := genCase(t)
	harness.Begin(c)
	sig, msg, o := run(c)
	harness.End()
	account(c, o)
	if sig != "" {
		harness.Fail(t, sig, c, "%s", msg)
	}
}

func TestProp(t *testing.T) { rapid.Check(t, prop) }

// FuzzScript: coverage guided bytes after a fixed valid handshake, in both roles.
func FuzzScript(f *testing.F) {
	seeds := []string{"FF\r", "FQ\r", "FC EM ABC 10 20 0\rF> 00\r", "F>\r", ";PQ\r", "\x00\r", "FS A500\r", "FS +\r\x01\x03t\x000\x00\x02\x01a\x04\x9f", "FC EM A 1 6 0\rF> 7A\r\x01\x04T\x000\x00\x02\x06\x00\x00\xff\xff\xff\xff\x04\x04"}
	for _, s := range seeds {
		f.Add([]byte(s), true, uint8(3))
		f.Add([]byte(s), false, uint8(0))
	}
	f.Fuzz(func(t *testing.T, data []byte, libMaster bool, nq uint8) {
		base := peerscen.Case{}
		base.Lib = peerscen.Lib{Call: "LA5NTA", Target: "N0CALL", Locator: "JO29PJ", UAName: "wl2kgo", UAVer: "0.1a"}
		base.Peer.Master = !libMaster
		for i := 0; i < int(nq%4); i++ {
			base.Lib.Queue = append(base.Lib.Queue, fixedMsg(i))
		}
		hs := "[RMS-1.0-B2FHM$]\r; LA5NTA DE N0CALL (JO59)\r"
		if !libMaster {
			hs = ";FW: N0CALL\r[RMS-1.0-B2FHM$]\rN0CALL>\r"
		}
		c := Case{Base: base, Script: append([]byte(hs), data...), Desc: []string{"fuzz"}, HsLen: len(hs)}
		if sig, msg, _ := run(c); sig != "" {
			harness.Fail(t, sig, c, "%s", msg)
		}
	})
}

func TestReplay(t *testing.T) {
	for _, f := range harness.ReplayFiles() {
		var c Case
		if _, err := harness.ReplayCase(f, &c); err != nil {
			t.Fatalf("%s: %v", f, err)
		}
		harness.Begin(c)
		sig, msg, _ := run(c)
		harness.End()
		harness.Eval()
		if sig != "" {
			harness.Fail(t, sig, c, "replay %s: %s", f, msg)
		}
	}
}

func fixedMsg(i int) (s msggen.Spec) {
	return msggen.Spec{MID: fmt.Sprintf("FUZZ%d", i), From: "LA5NTA", To: []string{"N0CALL"}, Subject: "s", Body: strings.Repeat("hello ", 20+i), Minute: 5}
}
