package c13

import (
	"fmt"
	"strings"

	"pgregory.net/rapid"

	"verif/internal/gen"
	"verif/internal/harness"
	"verif/internal/ref/agwsim"
)

func genCall(t *rapid.T, label string) string {
	base := rapid.StringMatching(`[A-Z]{1,2}[0-9][A-Z]{1,3}`).Draw(t, label)
	if ssid := rapid.IntRange(-1, 15).Draw(t, label+"_ssid"); ssid >= 0 {
		return fmt.Sprintf("%s-%d", base, ssid)
	}
	return base
}

func baseOf(call string) string {
	if i := strings.IndexByte(call, '-'); i >= 0 {
		return call[:i]
	}
	return call
}

// genOther draws a callsign different from the given ones, preferably one that looks like rel
// (same base with another SSID, or the bare base).
func genOther(t *rapid.T, label, rel string, not ...string) string {
	for try := 0; ; try++ {
		var s string
		switch rapid.IntRange(0, 3).Draw(t, label+"_kind") {
		case 0:
			s = fmt.Sprintf("%s-%d", baseOf(rel), rapid.IntRange(0, 15).Draw(t, label+"_ssid"))
		case 1:
			s = baseOf(rel)
		case 2:
			b := baseOf(rel)
			if len(b) < 6 {
				s = b + "X"
			} else {
				s = b[:5]
			}
		default:
			s = genCall(t, label)
		}
		ok := s != ""
		for _, n := range not {
			if s == n {
				ok = false
			}
		}
		if ok {
			return s
		}
		if try > 20 {
			return "ZZ9ZZZ-9"
		}
	}
}

func genPayload(t *rapid.T, label string, maxLen int) []byte {
	var n int
	switch rapid.IntRange(0, 7).Draw(t, label+"_cls") {
	case 0:
		n = 1
	case 1, 2:
		n = rapid.IntRange(2, 40).Draw(t, label+"_n")
	case 3, 4:
		n = rapid.IntRange(41, 300).Draw(t, label+"_n")
	case 5:
		n = rapid.IntRange(250, 260).Draw(t, label+"_n")
	default:
		n = rapid.IntRange(301, 2048).Draw(t, label+"_n")
	}
	n = min(n, maxLen)
	sm := gen.NewSM(rapid.Uint64().Draw(t, label+"_seed"))
	b := make([]byte, n)
	for i := range b {
		b[i] = byte(sm.Next())
	}
	return b
}

// genSeg draws how a frame of dataLen data bytes is cut into TCP writes.
func genSeg(t *rapid.T, label string, dataLen int, minFirstGap int) agwsim.Seg {
	total := agwsim.HeaderLen + dataLen
	var cuts []int
	hdr := func() int { return rapid.IntRange(1, agwsim.HeaderLen-1).Draw(t, label+"_hcut") }
	dat := func() int {
		if dataLen < 2 {
			return agwsim.HeaderLen
		}
		return rapid.IntRange(agwsim.HeaderLen+1, total-1).Draw(t, label+"_dcut")
	}
	switch rapid.IntRange(0, 7).Draw(t, label+"_segkind") {
	case 0: // one write
	case 1:
		cuts = []int{hdr()}
	case 2:
		cuts = []int{agwsim.HeaderLen}
	case 3, 4:
		cuts = []int{dat()}
	case 5:
		cuts = []int{hdr(), agwsim.HeaderLen, dat()}
	case 6:
		cuts = []int{agwsim.HeaderLen, dat()}
	default:
		a, b := dat(), dat()
		if a > b {
			a, b = b, a
		}
		cuts = []int{hdr(), a, b}
	}
	var clean []int
	prev := 0
	for _, c := range cuts {
		if c > prev && c < total {
			clean = append(clean, c)
			prev = c
		}
	}
	gaps := make([]int, len(clean)+1)
	gaps[0] = rapid.IntRange(minFirstGap, 3).Draw(t, label+"_gap0")
	for i := 1; i < len(gaps); i++ {
		gaps[i] = rapid.IntRange(1, 3).Draw(t, label+"_gap")
	}
	return agwsim.Seg{Cuts: clean, GapsMs: gaps}
}

func genReads(t *rapid.T, label string) []int {
	switch rapid.IntRange(0, 5).Draw(t, label+"_kind") {
	case 0:
		return []int{1}
	case 1:
		return []int{4096}
	case 2:
		return []int{rapid.IntRange(2, 16).Draw(t, label+"_small")}
	case 3:
		return []int{rapid.SampledFrom([]int{35, 36, 37, 127, 128, 255, 256, 257, 1024, 2047, 2048}).Draw(t, label+"_fixed")}
	default:
		return rapid.SliceOfN(rapid.OneOf(rapid.IntRange(1, 8), rapid.IntRange(9, 300), rapid.IntRange(301, 4096)), 1, 6).Draw(t, label)
	}
}

func genForeign(t *rapid.T, label string, c *Case, other string) TFrame {
	otherPort := (c.Port + rapid.IntRange(1, 3).Draw(t, label+"_dport")) % 4
	text := func(s string) []byte {
		if c.NulTerm {
			return []byte(s + "\x00")
		}
		return []byte(s)
	}
	f := TFrame{Port: c.Port, Kind: "D", PID: 0xf0, From: c.Remote, To: c.MyCall}
	switch rapid.IntRange(0, 8).Draw(t, label+"_why") {
	case 0, 1:
		f.Why, f.Port = "other-port-D", otherPort
		f.Data = genPayload(t, label+"_p", 2048)
	case 2, 3:
		f.Why, f.From = "other-station-D", other
		f.Data = genPayload(t, label+"_p", 2048)
	case 4:
		f.Why, f.Port, f.Kind, f.PID = "other-port-d", otherPort, "d", 0
		f.Data = text("*** DISCONNECTED From Station " + c.Remote + "\r")
	case 5:
		f.Why, f.From, f.Kind, f.PID = "other-station-d", other, "d", 0
		f.Data = text("*** DISCONNECTED From Station " + other + "\r")
	case 6:
		f.Why, f.Port, f.Kind, f.PID = "other-port-C", otherPort, "C", 0
		f.From = rapid.SampledFrom([]string{other, c.Remote}).Draw(t, label+"_cfrom")
		f.Data = text("*** CONNECTED To Station " + f.From + "\r")
	case 7:
		f.Why, f.Port, f.From = "other-port-other-station-D", otherPort, other
		f.Data = genPayload(t, label+"_p", 300)
	default: // monitor frames: what was heard on the channel, as text
		f.Why = "monitor"
		f.Kind = rapid.SampledFrom([]string{"U", "I", "S", "T"}).Draw(t, label+"_mon")
		if rapid.Bool().Draw(t, label+"_monother") {
			f.From, f.To = other, "BEACON"
		}
		f.Data = []byte(fmt.Sprintf(" %d:Fm %s To %s <I R0 S1 pid=F0 Len=5 >[12:00:00]\rhello\r", c.Port+1, f.From, f.To))
	}
	f.Seg = genSeg(t, label+"_seg", len(f.Data), 1)
	return f
}

// predictedTicks mirrors the polling a careful host does (poll until <= MAXFRAME, send, poll until
// > 0; poll until 0 to flush) against the simulator's queue model. Used only to keep cases cheap:
// every unsatisfied poll costs the library a 200 ms tick.
func predictedTicks(c *Case) int {
	q, di, ticks := 0, 0, 0
	poll := func() int {
		n := q
		if q > 0 {
			d := q
			if len(c.Drain) > 0 {
				d = c.Drain[di%len(c.Drain)]
				di++
			}
			q -= min(d, q)
		}
		return n
	}
	for _, rd := range c.Rounds {
		for _, w := range rd.Out {
			for poll() > c.MaxFrame {
				if ticks++; ticks > 1000 {
					return ticks
				}
			}
			u := 1
			if c.Paclen > 0 && len(w) > c.Paclen {
				u = (len(w) + c.Paclen - 1) / c.Paclen
			}
			q += u
			poll()
		}
	}
	for poll() != 0 {
		if ticks++; ticks > 1000 {
			return ticks
		}
	}
	return ticks
}

func genBase(t *rapid.T, c *Case) {
	c.Port = rapid.IntRange(0, 3).Draw(t, "port")
	c.MyCall = genCall(t, "mycall")
	c.Remote = genOther(t, "remote", c.MyCall, c.MyCall)
	c.Accept = rapid.Bool().Draw(t, "accept")
	c.ReverseY = rapid.IntRange(0, 3).Draw(t, "reverse_y") == 0
	c.CtxCancel = !c.Accept && rapid.Bool().Draw(t, "ctx_cancel")
	if !c.Accept && rapid.IntRange(0, 2).Draw(t, "again") == 0 {
		c.Again, c.AgainSeed = true, rapid.Uint64().Draw(t, "again_seed")
	}
	c.MaxFrame = rapid.IntRange(1, 7).Draw(t, "maxframe")
	c.NulTerm = rapid.Bool().Draw(t, "nulterm")
	if !c.Accept {
		nd := 0
		if rapid.IntRange(0, 2).Draw(t, "via") == 0 {
			nd = rapid.IntRange(1, 7).Draw(t, "ndigis")
		}
		for i := 0; i < nd; i++ {
			c.Digis = append(c.Digis, genCall(t, "digi"))
		}
	}
}

func genReplyCuts(t *rapid.T) [][]int {
	n := rapid.IntRange(0, 3).Draw(t, "nreplycuts")
	var out [][]int
	for i := 0; i < n; i++ {
		switch rapid.IntRange(0, 4).Draw(t, "replycut_kind") {
		case 0:
			out = append(out, nil)
		case 1:
			out = append(out, []int{rapid.IntRange(1, 35).Draw(t, "replycut_h")})
		case 2:
			out = append(out, []int{36})
		case 3:
			out = append(out, []int{rapid.IntRange(37, 47).Draw(t, "replycut_d")})
		default:
			out = append(out, []int{rapid.IntRange(1, 35).Draw(t, "replycut_h"), 36, rapid.IntRange(37, 47).Draw(t, "replycut_d")})
		}
	}
	return out
}

func genConforming(t *rapid.T) Case {
	c := Case{Family: "conforming"}
	genBase(t, &c)
	c.Paclen = rapid.SampledFrom([]int{0, 64, 128, 256}).Draw(t, "paclen")
	c.Drain = rapid.SliceOfN(rapid.IntRange(0, 4), 1, 4).Draw(t, "drain")
	sum := 0
	for _, d := range c.Drain {
		sum += d
	}
	if sum == 0 {
		c.Drain[len(c.Drain)-1] = 1
	}
	c.ReplyCuts = genReplyCuts(t)
	other := genOther(t, "other", c.Remote, c.Remote, c.MyCall)
	maxOwn := harness.Scale(10, 16)
	nRounds := rapid.IntRange(1, harness.Scale(3, 4)).Draw(t, "rounds")
	for ri := 0; ri < nRounds; ri++ {
		var rd Round
		lbl := fmt.Sprintf("r%d", ri)
		nOwn := 0
		if rapid.IntRange(0, 4).Draw(t, lbl+"_hasin") > 0 {
			nOwn = rapid.IntRange(1, maxOwn).Draw(t, lbl+"_nown")
		}
		total := 0
		for i := 0; i < nOwn; i++ {
			for rapid.IntRange(0, 3).Draw(t, lbl+"_foreign") == 0 {
				rd.In = append(rd.In, genForeign(t, lbl+"_f", &c, other))
			}
			f := TFrame{Own: true, Port: c.Port, Kind: "D", PID: 0xf0, From: c.Remote, To: c.MyCall}
			f.Data = genPayload(t, lbl+"_own", 2048)
			f.Seg = genSeg(t, lbl+"_ownseg", len(f.Data), 1)
			total += len(f.Data)
			rd.In = append(rd.In, f)
		}
		// A round always ends with a frame of the connection under test: when the reader has consumed it,
		// every earlier frame has left the library's (lossy, see knownDropSig) frame pipeline, so the Y
		// replies of the following writes/flush travel alone.
		if nOwn > 0 && rapid.IntRange(0, 7).Draw(t, lbl+"_knock") == 0 {
			k := TFrame{Why: "knock", Port: c.Port, Kind: "C", From: other, To: c.MyCall, Data: []byte("*** CONNECTED To Station " + other + "\r")}
			k.Seg = genSeg(t, lbl+"_knockseg", len(k.Data), 1)
			rd.Knock = &k
		}
		w := rapid.IntRange(1, 16).Draw(t, lbl+"_window")
		if w > maxBacklog {
			c.Excl++
			w = maxBacklog
		}
		rd.Window = w
		rd.Reads = genReads(t, lbl+"_reads")
		if nOwn > 0 {
			np := rapid.IntRange(0, 3).Draw(t, lbl+"_npauses")
			at := 0
			for i := 0; i < np; i++ {
				at += rapid.IntRange(0, max(1, total/2)).Draw(t, lbl+"_pauseat")
				rd.Pauses = append(rd.Pauses, Pause{At: at, Ms: rapid.IntRange(1, 15).Draw(t, lbl+"_pausems")})
			}
		}
		if rapid.IntRange(0, 3).Draw(t, lbl+"_hasout") > 0 {
			nw := rapid.IntRange(1, harness.Scale(4, 6)).Draw(t, lbl+"_nwrites")
			for i := 0; i < nw; i++ {
				rd.Out = append(rd.Out, genPayload(t, lbl+"_w", 2048))
			}
		}
		c.Rounds = append(c.Rounds, rd)
	}
	c.Flush = rapid.IntRange(0, 3).Draw(t, "flush") > 0
	c.End = "close"
	if rapid.IntRange(0, 3).Draw(t, "end") == 0 {
		c.End = "remote"
	}
	if predictedTicks(&c) > harness.Scale(6, 10) {
		c.Drain = []int{2, 8}
		if predictedTicks(&c) > harness.Scale(6, 10) {
			c.Drain = []int{1000}
		}
	}
	return c
}

var hugeLens = []uint32{0, 1, 3, 4, 5, 7, 8, 11, 12, 13, 35, 36, 37, 255, 4096, 65535, 65536, 1 << 20, 1 << 24, 1<<31 - 1, 1 << 31, 1<<32 - 2, 1<<32 - 1}

func genMalformed(t *rapid.T) Case {
	c := Case{Family: "malformed"}
	genBase(t, &c)
	if len(c.Digis) > 2 {
		c.Digis = c.Digis[:2]
	}
	c.Drain = []int{1000}
	c.ReplyCuts = genReplyCuts(t)
	c.Flush = rapid.Bool().Draw(t, "flush")
	c.End = "close"
	other := genOther(t, "other", c.Remote, c.Remote, c.MyCall)
	var rd Round
	for i, n := 0, rapid.IntRange(0, 3).Draw(t, "nown"); i < n; i++ {
		f := TFrame{Own: true, Port: c.Port, Kind: "D", PID: 0xf0, From: c.Remote, To: c.MyCall}
		f.Data = genPayload(t, "own", 600)
		f.Seg = genSeg(t, "ownseg", len(f.Data), 0)
		rd.In = append(rd.In, f)
	}
	for i, n := 0, rapid.IntRange(0, 2).Draw(t, "nwrites"); i < n; i++ {
		rd.Out = append(rd.Out, genPayload(t, "w", 300))
	}
	c.Rounds = []Round{rd}
	m := &Mal{CutAt: -1, Rst: rapid.Bool().Draw(t, "rst"), Version: rapid.Bool().Draw(t, "version"),
		ReadBuf: rapid.SampledFrom([]int{1, 7, 100, 4096}).Draw(t, "readbuf")}
	if rapid.IntRange(0, 9).Draw(t, "hascut") < 4 {
		m.CutAt = rapid.IntRange(0, 20).Draw(t, "cutat")
	}
	ons := []string{"g", "X", "C", "Y", "Y", "d", "R", "A"}
	modes := []string{"drop", "data", "data", "declen", "declen", "kind", "hdrxor", "trunc", "dup", "random", "thencut"}
	for i, n := 0, rapid.IntRange(0, 3).Draw(t, "nops"); i < n; i++ {
		op := MalOp{On: rapid.SampledFrom(ons).Draw(t, "op_on"), Mode: rapid.SampledFrom(modes).Draw(t, "op_mode")}
		if op.On == "Y" {
			op.Nth = rapid.IntRange(0, 5).Draw(t, "op_nth")
		} else if op.On == "d" || op.On == "C" {
			op.Nth = rapid.IntRange(0, 1).Draw(t, "op_nth")
		}
		switch op.Mode {
		case "data":
			op.Data = rapid.SliceOfN(rapid.Byte(), 0, 20).Draw(t, "op_data")
		case "declen":
			op.Len = rapid.SampledFrom(hugeLens).Draw(t, "op_len")
		case "kind":
			op.V = int(rapid.SampledFrom([]byte("gXxCvdDYyRUMT?\x00\xff")).Draw(t, "op_kind"))
		case "hdrxor":
			op.I, op.V = rapid.IntRange(0, 35).Draw(t, "op_i"), rapid.IntRange(0, 255).Draw(t, "op_v")
		case "trunc":
			op.N = rapid.IntRange(0, 60).Draw(t, "op_n")
		case "random":
			op.Data = rapid.SliceOfN(rapid.Byte(), 1, 90).Draw(t, "op_raw")
		}
		m.Ops = append(m.Ops, op)
	}
	stages := []string{"registered", "connected", "data", "data", "closing"}
	for i, n := 0, rapid.IntRange(0, 3).Draw(t, "ninj"); i < n; i++ {
		in := MalInj{Stage: rapid.SampledFrom(stages).Draw(t, "inj_stage")}
		own := agwsim.Frame{Port: uint8(c.Port), Kind: 'D', PID: 0xf0, From: c.Remote, To: c.MyCall}
		body := rapid.SliceOfN(rapid.Byte(), 0, 100).Draw(t, "inj_body")
		hdr := func(f agwsim.Frame, declared uint32) []byte {
			return agwsim.EncodeHeader(f.Port, f.Kind, f.PID, f.From, f.To, declared, 0)
		}
		switch rapid.IntRange(0, 12).Draw(t, "inj_what") {
		case 0:
			in.What = "random-header-in-sync"
			h := rapid.SliceOfN(rapid.Byte(), 36, 36).Draw(t, "inj_hdr")
			h[28], h[29], h[30], h[31] = byte(len(body)), 0, 0, 0
			in.Raw = append(h, body...)
		case 1:
			in.What = "random-bytes"
			in.Raw = rapid.SliceOfN(rapid.Byte(), 1, 120).Draw(t, "inj_raw")
		case 2:
			in.What = "unknown-kind"
			own.Kind = rapid.Byte().Draw(t, "inj_kind")
			own.Data = body
			in.Raw = own.Encode()
		case 3, 4:
			in.What = "huge-datalen"
			in.Raw = append(hdr(own, rapid.SampledFrom(hugeLens[14:]).Draw(t, "inj_len")), body...)
		case 5:
			in.What = "declared-longer-than-data"
			in.Raw = append(hdr(own, uint32(len(body)+rapid.IntRange(1, 50).Draw(t, "inj_more"))), body...)
		case 6:
			in.What = "declared-shorter-than-data"
			in.Raw = append(hdr(own, uint32(len(body)/2)), body...)
		case 7:
			in.What = "truncated-frame-then-cut"
			own.Data = body
			b := own.Encode()
			in.Raw = b[:rapid.IntRange(1, len(b)).Draw(t, "inj_trunc")]
			in.Then = rapid.SampledFrom([]string{"cut", "rst"}).Draw(t, "inj_then")
		case 8:
			in.What = "other-station-connects"
			in.Raw = agwsim.Frame{Port: uint8(c.Port), Kind: 'C', From: other, To: c.MyCall, Data: []byte("*** CONNECTED To Station " + other + "\r")}.Encode()
			if rapid.Bool().Draw(t, "inj_thencut") {
				in.Then = rapid.SampledFrom([]string{"cut", "rst"}).Draw(t, "inj_then")
			}
		case 9:
			in.What = "duplicate-connect"
			txt := rapid.SampledFrom([]string{"*** CONNECTED To Station ", "*** CONNECTED With Station ", "*** CONNECTED To ", ""}).Draw(t, "inj_ctext")
			in.Raw = agwsim.Frame{Port: uint8(c.Port), Kind: 'C', From: c.Remote, To: c.MyCall, Data: []byte(txt + c.Remote + "\r")}.Encode()
		case 10:
			in.What = "remote-disconnects"
			in.Raw = agwsim.Frame{Port: uint8(c.Port), Kind: 'd', From: c.Remote, To: c.MyCall, Data: []byte("*** DISCONNECTED From Station " + c.Remote + "\r")}.Encode()
		case 11:
			in.What = "empty-D"
			in.Raw = own.Encode()
		default:
			in.What = "big-D"
			own.Data = make([]byte, rapid.SampledFrom([]int{4096, 65535, 65536, 70000}).Draw(t, "inj_big"))
			in.Raw = own.Encode()
		}
		total := len(in.Raw)
		if total > 2 && rapid.Bool().Draw(t, "inj_split") {
			in.Seg = agwsim.Seg{Cuts: []int{rapid.IntRange(1, min(total-1, 60)).Draw(t, "inj_cut")}, GapsMs: []int{0, 1}}
		}
		m.Inject = append(m.Inject, in)
	}
	c.Mal = m
	return c
}

func genCase(t *rapid.T) Case {
	if rapid.IntRange(0, 9).Draw(t, "family") < 3 {
		return genMalformed(t)
	}
	return genConforming(t)
}
