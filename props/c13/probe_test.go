package c13

import (
	"bytes"
	"context"
	"fmt"
	"sync/atomic"
	"testing"
	"time"

	"github.com/la5nta/wl2k-go/transport/ax25/agwpe"

	"verif/internal/harness"
	"verif/internal/ref/agwsim"
)

// TestKnownProbe re-demonstrates the known finding agwpe-demux-drop-backlog: the TNC delivers 100
// small data frames while the application is not reading; afterwards the application reads
// everything. Frames are delivered in order, so once a later "sentinel" frame (sent one at a time
// after the burst, when the pipeline is idle) has been read, every burst frame that has not shown
// up before it is lost for good. No timing enters the verdict.
func TestKnownProbe(t *testing.T) {
	lost, total, err := probeDrop()
	if err != nil {
		fmt.Printf("KNOWN-PROBE sig=%s reproduced=false (probe could not run: %v)\n", knownDropSig, err)
		return
	}
	fmt.Printf("KNOWN-PROBE sig=%s reproduced=%v lost=%d of %d frames sent while the reader was idle\n", knownDropSig, lost > 0, lost, total)
}

func probeDrop() (lost, total int, err error) {
	const N = 100
	sim, err := agwsim.Start(agwsim.Config{MaxFrame: 4})
	if err != nil {
		return 0, 0, err
	}
	defer sim.Close()
	var res error
	var seen int
	hung, _ := harness.Watch(120*time.Second, func() {
		var tp *agwpe.TNCPort
		tp, res = agwpe.OpenPortTCP(sim.Addr(), 0, "N0CALL-1")
		if res != nil {
			return
		}
		defer tp.Close()
		var conn interface {
			Read([]byte) (int, error)
		}
		c, e := tp.DialContext(context.Background(), "N0CALL-2")
		if e != nil {
			res = e
			return
		}
		conn = c
		for i := 0; i < N; i++ {
			if e := sim.Send(agwsim.Frame{Kind: 'D', PID: 0xf0, From: "N0CALL-2", To: "N0CALL-1", Data: []byte(fmt.Sprintf("F%07d", i))}, agwsim.Seg{}); e != nil {
				res = e
				return
			}
		}
		tp.TNC.Version() // a round trip behind the burst: the library has taken all 100 frames off the socket
		var done atomic.Bool
		go func() {
			for k := 0; k < 400 && !done.Load(); k++ {
				time.Sleep(50 * time.Millisecond)
				if sim.Send(agwsim.Frame{Kind: 'D', PID: 0xf0, From: "N0CALL-2", To: "N0CALL-1", Data: []byte(fmt.Sprintf("S%07d", k))}, agwsim.Seg{}) != nil {
					return
				}
			}
			sim.CutLink(false) // no sentinel ever arrived: unblock the reader
		}()
		var got []byte
		buf := make([]byte, 4096)
		for {
			n, e := conn.Read(buf)
			got = append(got, buf[:n]...)
			if i := bytes.IndexByte(got, 'S'); i >= 0 && len(got) >= i+8 {
				got = got[:i]
				break
			}
			if e != nil {
				res = fmt.Errorf("read: %v", e)
				break
			}
		}
		done.Store(true)
		for i := 0; i < N; i++ {
			if bytes.Contains(got, []byte(fmt.Sprintf("F%07d", i))) {
				seen++
			}
		}
	})
	if hung {
		return 0, N, fmt.Errorf("probe hung")
	}
	if res != nil {
		return 0, N, res
	}
	return N - seen, N, nil
}
