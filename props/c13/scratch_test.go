package c13

import (
	"context"
	"fmt"
	"os"
	"testing"
	"time"

	"github.com/la5nta/wl2k-go/transport/ax25/agwpe"
	"verif/internal/ref/agwsim"
)

func TestScratchHuge(t *testing.T) {
	s, _ := agwsim.Start(agwsim.Config{MaxFrame: 4})
	defer s.Close()
	tp, err := agwpe.OpenPortTCP(s.Addr(), 0, "ME-1")
	if err != nil {
		t.Fatal(err)
	}
	h := agwsim.EncodeHeader(0, 'D', 0xf0, "YOU", "ME-1", 0xffffffff, 0)
	s.SendRaw(append(h, 1, 2, 3), agwsim.Seg{}, "")
	time.Sleep(300 * time.Millisecond)
	s.CutLink(true)
	time.Sleep(100 * time.Millisecond)
	tp.Close()
	fmt.Println("survived huge")
}

func TestScratchChainRace(t *testing.T) {
	n := 300
	for i := 0; i < n; i++ {
		s, _ := agwsim.Start(agwsim.Config{MaxFrame: 4})
		tp, err := agwpe.OpenPortTCP(s.Addr(), 0, "ME-1")
		if err != nil {
			t.Fatal(err)
		}
		s.InboundConnect(0, "YOU", "ME-1", agwsim.Seg{})
		s.CutLink(i%2 == 0)
		time.Sleep(2 * time.Millisecond)
		tp.Close()
		s.Close()
	}
	fmt.Println("survived chain race", n)
}

func TestScratchBurst(t *testing.T) {
	lost := 0
	rounds := 200
	if os.Getenv("ROUNDS") != "" {
		fmt.Sscan(os.Getenv("ROUNDS"), &rounds)
	}
	burst := 6
	if os.Getenv("BURST") != "" {
		fmt.Sscan(os.Getenv("BURST"), &burst)
	}
	gap := 0
	if os.Getenv("GAPUS") != "" {
		fmt.Sscan(os.Getenv("GAPUS"), &gap)
	}
	s, _ := agwsim.Start(agwsim.Config{MaxFrame: 4})
	defer s.Close()
	tp, err := agwpe.OpenPortTCP(s.Addr(), 0, "ME-1")
	if err != nil {
		t.Fatal(err)
	}
	conn, err := tp.DialContext(context.Background(), "YOU")
	if err != nil {
		t.Fatal(err)
	}
	buf := make([]byte, 4096)
	for r := 0; r < rounds; r++ {
		for i := 0; i < burst; i++ {
			s.Send(agwsim.Frame{Kind: 'D', PID: 0xf0, From: "YOU", To: "ME-1", Data: []byte{byte(i)}}, agwsim.Seg{})
			if gap > 0 {
				time.Sleep(time.Duration(gap) * time.Microsecond)
			}
		}
		// sentinel after settle
		time.Sleep(5 * time.Millisecond)
		s.Send(agwsim.Frame{Kind: 'D', PID: 0xf0, From: "YOU", To: "ME-1", Data: []byte{0xee}}, agwsim.Seg{})
		got := 0
		for {
			n, err := conn.Read(buf)
			if err != nil {
				t.Fatal(err)
			}
			if n == 1 && buf[0] == 0xee {
				break
			}
			got += n
		}
		if got != burst {
			lost++
		}
	}
	fmt.Printf("burst=%d gap=%dus rounds=%d rounds-with-loss=%d\n", burst, gap, rounds, lost)
	tp.Close()
}
