package c13

import (
	"os"
	"bytes"
	"context"
	"fmt"
	"net"
	"strings"
	"sync"
	"sync/atomic"
	"time"

	"github.com/la5nta/wl2k-go/transport/ax25/agwpe"

	"verif/internal/gen"
	"verif/internal/harness"
	"verif/internal/ref/agwsim"
)

type probe struct {
	start int
	data  []byte
}

type dframe struct {
	own  bool
	why  string
	data []byte
}

// connStream is the state shared by the frame sender and the reader of the connection under test.
type connStream struct {
	mu         sync.Mutex
	cond       *sync.Cond
	expected   []byte   // own payload bytes announced so far (announced before the frame is sent)
	ends       []int    // end offset of every announced own frame
	payloads   [][]byte // own payloads in order (probes included)
	allD       []dframe // every D frame put on the link, in wire order
	probes     []probe
	got        int // bytes the reader has consumed
	sendDone   bool
	readerDone bool
	abort      bool
	linkLost   bool
}

func (cs *connStream) announce(p []byte) {
	cs.expected = append(cs.expected, p...)
	cs.ends = append(cs.ends, len(cs.expected))
	cs.payloads = append(cs.payloads, p)
}

// unconsumed counts announced own frames the reader has not read to their end.
func (cs *connStream) unconsumed() int {
	n := 0
	for i := len(cs.ends) - 1; i >= 0 && cs.ends[i] > cs.got; i-- {
		n++
	}
	return n
}

func probePayload(k int) []byte {
	return []byte(fmt.Sprintf("\xfe\xed\xfa\xceC13-END-OF-ROUND-PROBE-%08d\xce\xfa\xed\xfe", k))
}

type crun struct {
	c   Case
	sim *agwsim.Sim
	st  *stats
	v   verdict

	stageV atomic.Value
	tp     *agwpe.TNCPort
	tpDone bool
	ln     net.Listener
	accCh  chan accRes
	accGot bool
	conn   net.Conn
	cs     *connStream

	got       []byte
	written   []byte
	knockers  map[string]bool
	attempts  int
	maxUnread int
}

type accRes struct {
	conn       net.Conn
	err        error
	psig, pmsg string
}

func (r *crun) setStage(s string) { r.stageV.Store(s) }
func (r *crun) stage() string {
	if s, ok := r.stageV.Load().(string); ok {
		return s
	}
	return "start"
}

func replySeg(c Case) func(kind byte, n int) agwsim.Seg {
	if len(c.ReplyCuts) == 0 {
		return nil
	}
	return func(kind byte, n int) agwsim.Seg {
		cuts := c.ReplyCuts[n%len(c.ReplyCuts)]
		gaps := make([]int, len(cuts)+1)
		for i := 1; i < len(gaps); i++ {
			gaps[i] = 1
		}
		return agwsim.Seg{Cuts: cuts, GapsMs: gaps}
	}
}

func runConforming(c Case, st *stats) (string, string) {
	sim, err := agwsim.Start(agwsim.Config{MaxFrame: c.MaxFrame, Paclen: c.Paclen, Drain: c.Drain, NulTerm: c.NulTerm, ReplySeg: replySeg(c), DocYOrder: c.ReverseY})
	if err != nil {
		panic("harness: cannot start the TNC simulator: " + err.Error())
	}
	defer sim.Close()
	// the option is read from the environment at every poll; cases run one after another in this process
	if c.ReverseY {
		os.Setenv("AGWPE_REVERSE_TO_FROM", "1")
		st.label("option:AGWPE_REVERSE_TO_FROM(doc-order TNC)")
		if c.Accept {
			st.label("option:AGWPE_REVERSE_TO_FROM+inbound-connection")
		}
	} else {
		os.Unsetenv("AGWPE_REVERSE_TO_FROM")
	}
	defer os.Unsetenv("AGWPE_REVERSE_TO_FROM")
	if c.CtxCancel && !c.Accept {
		st.label("dial:context-cancelled-after-connect")
	}
	r := &crun{c: c, sim: sim, st: st, cs: &connStream{}, knockers: map[string]bool{}}
	r.cs.cond = sync.NewCond(&r.cs.mu)
	hung, kind := harness.Watch(hangLimit(), func() { r.body() })
	if hung {
		harness.Record("hang:"+r.stage(), c, fmt.Sprintf("case did not finish within %v (%s) in stage %q; host frames so far: %s", hangLimit(), kind, r.stage(), hostKinds(sim.Events())))
		harness.ExitHung()
	}
	r.finishStats()
	return r.v.sig, r.v.msg
}

func hostKinds(ev []agwsim.Event) string {
	var b strings.Builder
	for _, e := range ev {
		if e.Dir == agwsim.HostToTNC {
			b.WriteByte(e.Frame.Kind)
		}
	}
	s := b.String()
	if len(s) > 120 {
		s = s[:120] + "..."
	}
	return s
}

// apiError turns an unexpected error of a library call into a violation. If the library has
// closed its TCP link to the TNC, that is the root cause and gets its own signature.
func (r *crun) apiError(sig, call string, err error) {
	byHost := false
	for i := 0; i < 100; i++ { // only picks the label of a case that fails anyway
		var down bool
		down, byHost = r.sim.LinkDown()
		if down {
			break
		}
		time.Sleep(10 * time.Millisecond)
	}
	if byHost {
		last := "none"
		ev := r.sim.Events()
		for i := len(ev) - 1; i >= 0; i-- {
			if ev[i].Dir == agwsim.TNCToHost {
				last = ev[i].Frame.String()
				break
			}
		}
		r.v.set("host-closed-tnc-link", "%s returned %v in stage %q: the library closed its TCP link to the TNC although the TNC only sent well-formed frames. Last frame from the TNC: %s. Host frames: %s", call, err, r.stage(), last, hostKinds(ev))
		return
	}
	r.v.set(sig, "%s returned %v in stage %q. Host frames: %s", call, err, r.stage(), hostKinds(r.sim.Events()))
}

func (r *crun) isOurs(f agwsim.Frame) bool {
	c := r.c
	return int(f.Port) == c.Port && ((f.From == c.MyCall && f.To == c.Remote) || (f.From == c.Remote && f.To == c.MyCall))
}

func (r *crun) body() {
	c := r.c
	defer r.cleanup()

	// ---- open: g and X ---------------------------------------------------------------------
	r.setStage("open")
	var err error
	if ps, pm := harness.Catch(func() { r.tp, err = agwpe.OpenPortTCP(r.sim.Addr(), c.Port, c.MyCall) }); ps != "" {
		r.tp = nil
		r.v.set(ps, "OpenPortTCP(port %d, %q): %s", c.Port, c.MyCall, pm)
		return
	}
	if err != nil {
		r.tp = nil
		r.apiError("open-failed", "OpenPortTCP", err)
		return
	}
	seenX := false
	for _, e := range r.sim.Events() {
		if e.Dir == agwsim.HostToTNC && e.Frame.Kind == 'X' && e.Frame.From == c.MyCall {
			seenX = true
		}
	}
	if !seenX {
		r.v.set("register-without-X", "OpenPortTCP returned but the TNC has not received an X frame for %q. Host frames: %s", c.MyCall, hostKinds(r.sim.Events()))
		return
	}

	// ---- connect ---------------------------------------------------------------------------
	if c.Accept {
		if !r.accept() {
			return
		}
	} else {
		r.setStage("dial")
		ctx, cancel := context.Background(), context.CancelFunc(func() {})
		if c.CtxCancel {
			ctx, cancel = context.WithCancel(ctx)
		}
		ps, pm := harness.Catch(func() { r.conn, err = r.tp.DialContext(ctx, c.Remote, c.Digis...) })
		cancel() // what "ctx, cancel := context.WithTimeout(...); defer cancel()" does once the dial has returned
		if ps != "" {
			r.conn = nil
			r.v.set(ps, "DialContext(%q via %v) on port %d: %s", c.Remote, c.Digis, c.Port, pm)
			return
		}
		if err != nil {
			r.conn = nil
			r.apiError("dial-failed", "DialContext", err)
			return
		}
		if !r.checkDialFrame() {
			return
		}
	}

	// ---- rounds ----------------------------------------------------------------------------
	for ri, rd := range c.Rounds {
		if len(rd.In) > 0 || rd.Knock != nil {
			r.setStage(fmt.Sprintf("round%d-in", ri))
			r.inRound(rd)
			if r.v.sig != "" {
				return
			}
		}
		for wi, w := range rd.Out {
			r.setStage(fmt.Sprintf("round%d-write%d", ri, wi))
			var n int
			if ps, pm := harness.Catch(func() { n, err = r.conn.Write(w) }); ps != "" {
				r.v.set(ps, "Conn.Write(%d bytes): %s", len(w), pm)
				return
			}
			if err != nil {
				r.apiError("write-failed", fmt.Sprintf("Conn.Write(%d bytes)", len(w)), err)
				return
			}
			if n != len(w) {
				r.v.set("write-count", "Conn.Write(%d bytes) returned n=%d, err=nil", len(w), n)
				return
			}
			r.written = append(r.written, w...)
		}
	}

	// ---- flush -----------------------------------------------------------------------------
	if c.Flush {
		r.setStage("flush")
		fl, ok := r.conn.(interface{ Flush() error })
		if !ok {
			r.v.set("conn-not-flusher", "the connection does not implement Flush() error (transport.Flusher)")
			return
		}
		if ps, pm := harness.Catch(func() { err = fl.Flush() }); ps != "" {
			r.v.set(ps, "Conn.Flush: %s", pm)
			return
		}
		if err != nil {
			r.apiError("flush-failed", "Conn.Flush", err)
			return
		}
		ev := r.sim.Events()
		if lastD := r.lastOwnD(ev, len(ev)); lastD >= 0 && !r.zeroReplyBetween(ev, lastD, len(ev)) {
			r.v.set("flush-returned-before-queue-empty", "Flush returned although the TNC has not reported 0 outstanding frames since the last D frame (event %d). Y replies after it: %v (TX queue now %d)", ev[lastD].Seq, r.yRepliesAfter(ev, lastD), r.sim.Outstanding(uint8(c.Port), c.MyCall, c.Remote))
			return
		}
	}

	// ---- end -------------------------------------------------------------------------------
	if c.End == "remote" {
		r.setStage("remote-disconnect")
		if err := r.sim.RemoteDisconnect(uint8(c.Port), c.Remote, c.MyCall, agwsim.Seg{GapsMs: []int{1}}); err != nil {
			r.apiError("tnc-link-lost", "sending the remote's disconnect", err)
			return
		}
		buf := make([]byte, 512)
		for i := 0; ; i++ {
			var n int
			if ps, pm := harness.Catch(func() { n, err = r.conn.Read(buf) }); ps != "" {
				r.v.set(ps, "Conn.Read after the remote disconnected: %s", pm)
				return
			}
			if n > 0 {
				r.v.set("stream-extra-bytes", "Read returned %d more bytes (%q) after the complete stream, before the end of the connection", n, buf[:min(n, 32)])
				return
			}
			if err != nil {
				break
			}
			if i > 10000 {
				r.v.set("read-spins", "10000 consecutive Read calls returned (0, nil) after the remote disconnected")
				return
			}
		}
		r.setStage("close-after-remote-disconnect")
		if ps, pm := harness.Catch(func() { r.conn.Close() }); ps != "" {
			r.v.set(ps, "Conn.Close after the remote disconnected: %s", pm)
			return
		}
	} else {
		r.setStage("close")
		if ps, pm := harness.Catch(func() { err = r.conn.Close() }); ps != "" {
			r.v.set(ps, "Conn.Close on port %d: %s", c.Port, pm)
			return
		}
		if err != nil {
			r.apiError("close-failed", "Conn.Close", err)
			return
		}
		ev := r.sim.Events()
		hd := -1
		for i, e := range ev {
			if e.Dir == agwsim.HostToTNC && e.Frame.Kind == 'd' && int(e.Frame.Port) == c.Port && e.Frame.From == c.MyCall && e.Frame.To == c.Remote {
				hd = i
				break
			}
		}
		if hd < 0 {
			r.v.set("close-without-d", "Close returned but the TNC has not received a d frame port=%d from=%q to=%q. Host frames: %s", c.Port, c.MyCall, c.Remote, hostKinds(ev))
			return
		}
		replied := false
		for _, e := range ev[hd:] {
			if e.Dir == agwsim.TNCToHost && e.Auto && e.Frame.Kind == 'd' && e.Frame.From == c.Remote && e.Frame.To == c.MyCall {
				replied = true
			}
		}
		if !replied {
			r.v.set("close-returned-before-tnc-d", "Close returned before the TNC had answered the d frame")
			return
		}
		if lastD := r.lastOwnD(ev, hd); lastD >= 0 && !r.zeroReplyBetween(ev, lastD, hd) {
			r.v.set("close-before-tx-drained", "the d frame was sent although the TNC had not reported 0 outstanding frames since the last D frame; Y replies in between: %v", r.yRepliesAfter(ev[:hd], lastD))
			return
		}
	}

	// ---- second connection to the same station ------------------------------------------------
	if c.Again && !c.Accept && c.End == "close" {
		if !r.again() {
			return
		}
	}

	// ---- port close ------------------------------------------------------------------------
	r.setStage("port-close")
	r.tpDone = true
	if ps, pm := harness.Catch(func() { r.tp.Close() }); ps != "" {
		r.v.set(ps, "TNCPort.Close on port %d: %s", c.Port, pm)
		return
	}
	r.sim.WaitLinkDown()
	r.judgeHostFrames()
}

// again dials the same station a second time. The TNC's frames are sent one at a time on an otherwise idle link,
// so the known whole-frame loss (a busy one-slot queue) cannot occur: a frame that has not reached Read after
// a long wait although a LATER frame has, was lost by the library on an idle pipeline.
func (r *crun) again() bool {
	c := r.c
	r.setStage("again-dial")
	var conn2 net.Conn
	var err error
	if ps, pm := harness.Catch(func() { conn2, err = r.tp.DialContext(context.Background(), c.Remote, c.Digis...) }); ps != "" {
		r.v.set(ps, "second DialContext(%q): %s", c.Remote, pm)
		return false
	}
	if err != nil {
		r.apiError("dial-failed", "second DialContext to the same station", err)
		return false
	}
	r.st.label("again:second-connection-to-the-same-station")
	sm := gen.NewSM(c.AgainSeed)
	var frames [][]byte
	for i := 0; i < 3; i++ {
		f := make([]byte, 8+sm.Intn(40))
		for j := range f {
			f[j] = byte(sm.Next())
		}
		copy(f, fmt.Sprintf("[2nd-%d]", i))
		frames = append(frames, f)
	}
	var mu sync.Mutex
	var got []byte
	var rerr error
	prog := make(chan struct{}, 64)
	rdone := make(chan struct{})
	go func() {
		defer close(rdone)
		buf := make([]byte, 4096)
		for {
			var n int
			var e error
			if ps, _ := harness.Catch(func() { n, e = conn2.Read(buf) }); ps != "" {
				mu.Lock()
				rerr = fmt.Errorf("panic in Read: %s", ps)
				mu.Unlock()
				return
			}
			mu.Lock()
			got = append(got, buf[:n]...)
			if e != nil {
				rerr = e
			}
			mu.Unlock()
			select {
			case prog <- struct{}{}:
			default:
			}
			if e != nil {
				return
			}
		}
	}()
	have := func() int { mu.Lock(); defer mu.Unlock(); return len(got) }
	// waitFor waits (in 10 ms ticks of this process, at most n ticks) until the reader has total bytes
	waitFor := func(total, ticks int) bool {
		for i := 0; i < ticks && have() < total; i++ {
			select {
			case <-prog:
			case <-time.After(10 * time.Millisecond):
			}
		}
		return have() >= total
	}
	sent, lost := 0, -1
	for i, f := range append(frames, []byte("[2nd-sentinel]")) {
		r.setStage(fmt.Sprintf("again-frame%d", i))
		time.Sleep(30 * time.Millisecond) // the link is idle: nothing of this connection is in flight
		if i == len(frames) && lost < 0 {
			break // the sentinel is only needed when the last real frame is missing
		}
		if err := r.sim.Send(agwsim.Frame{Port: uint8(c.Port), Kind: 'D', PID: 0xf0, From: c.Remote, To: c.MyCall, Data: f}, agwsim.Seg{}); err != nil {
			r.apiError("tnc-link-lost", "sending a data frame of the second connection", err)
			return false
		}
		if lost >= 0 {
			// an earlier frame is missing: does this one arrive?
			if waitFor(sent+len(f), 3000) {
				r.v.set("second-connection-frame-lost", "second connection to %q on the same port: data frame %d (%d bytes) sent on an idle link never reached Read although the frame sent after it did (Read has %d bytes: %q)", c.Remote, lost, len(frames[lost]), have(), got)
				return false
			}
			// nothing arrives at all: two frames, each sent alone on an idle link, and 50 s of waiting
			r.v.set("second-connection-dead", "second connection to %q on the same port: neither data frame %d (%d bytes) nor the frame sent 20 s after it reached Read within another 30 s, on an idle link (Read has %d bytes)", c.Remote, lost, len(frames[lost]), have())
			return false
		}
		if waitFor(sent+len(f), 2000) {
			sent += len(f)
			continue
		}
		lost = i
	}
	mu.Lock()
	g, e := append([]byte(nil), got...), rerr
	mu.Unlock()
	if lost < 0 {
		want := bytes.Join(frames, nil)
		if !bytes.Equal(g, want) || e != nil {
			r.v.set("second-connection-stream", "second connection to %q: Read returned %q (err %v), the TNC sent %q", c.Remote, g, e, want)
			return false
		}
	}
	r.setStage("again-close")
	if ps, pm := harness.Catch(func() { conn2.Close() }); ps != "" {
		r.v.set(ps, "Close of the second connection: %s", pm)
		return false
	}
	<-rdone
	return true
}

func (r *crun) cleanup() {
	r.sim.CutLink(false)
	cs := r.cs
	cs.mu.Lock()
	cs.abort = true
	cs.cond.Broadcast()
	cs.mu.Unlock()
	if r.ln != nil {
		harness.Catch(func() { r.ln.Close() })
	}
	if r.accCh != nil && !r.accGot {
		<-r.accCh
	}
	if r.tp != nil && !r.tpDone {
		harness.Catch(func() { r.tp.Close() })
	}
}

// accept announces an inbound connection while Accept is pending. The library refuses a
// connection that arrives when no Accept call is waiting, so the remote simply tries again.
func (r *crun) accept() bool {
	c := r.c
	r.setStage("listen")
	var err error
	if ps, pm := harness.Catch(func() { r.ln, err = r.tp.Listen() }); ps != "" {
		r.v.set(ps, "Listen: %s", pm)
		return false
	}
	if err != nil {
		r.apiError("listen-failed", "Listen", err)
		return false
	}
	r.accCh = make(chan accRes, 1)
	var accepted atomic.Bool
	go func() {
		var a accRes
		a.psig, a.pmsg = harness.Catch(func() { a.conn, a.err = r.ln.Accept() })
		r.accCh <- a
		accepted.Store(true)
		r.sim.Poke()
	}()
	settle := []int{25, 100, 500, 2000, 3000}
	for attempt := 0; ; attempt++ {
		r.setStage(fmt.Sprintf("accept-attempt%d", attempt))
		r.attempts = attempt + 1
		time.Sleep(time.Duration(settle[min(attempt, len(settle)-1)]) * time.Millisecond)
		base := r.sim.Seq()
		if err := r.sim.InboundConnect(uint8(c.Port), c.Remote, c.MyCall, agwsim.Seg{}); err != nil {
			r.apiError("tnc-link-lost", "announcing the inbound connection", err)
			return false
		}
		refusedAndAnswered := func(ev []agwsim.Event) bool {
			for _, e := range ev {
				if e.Seq > base && e.Dir == agwsim.TNCToHost && e.Auto && e.Frame.Kind == 'd' && e.Frame.From == c.Remote && e.Frame.To == c.MyCall {
					return true
				}
			}
			return false
		}
		// An announcement that gets no reaction at all (neither accepted nor refused) is not judged: the
		// library can lose the frame through the known drop (knownDropSig) or because handleInbound has
		// not subscribed yet, both depend on scheduling. The case is skipped after a very generous wait.
		var giveUp atomic.Bool
		tm := time.AfterFunc(10*time.Second, func() { giveUp.Store(true); r.sim.Poke() })
		ok := r.sim.WaitFor(func(ev []agwsim.Event) bool { return accepted.Load() || giveUp.Load() || refusedAndAnswered(ev) })
		tm.Stop()
		if accepted.Load() {
			break
		}
		if ok && giveUp.Load() && !refusedAndAnswered(r.sim.Events()) {
			r.st.label("accept:announcement-got-no-reaction-skipped")
			return false
		}
		if !ok {
			r.apiError("tnc-link-lost", "waiting for Accept", fmt.Errorf("TNC link ended"))
			return false
		}
		if attempt >= 7 {
			r.v.set("accept-refuses-while-pending", "8 inbound connections were refused (d frame) although Accept had been pending for seconds")
			return false
		}
	}
	a := <-r.accCh
	r.accGot = true
	if a.psig != "" {
		r.v.set(a.psig, "Accept: %s", a.pmsg)
		return false
	}
	if a.err != nil || a.conn == nil {
		r.apiError("accept-failed", "Accept", a.err)
		return false
	}
	r.conn = a.conn
	return true
}

func (r *crun) checkDialFrame() bool {
	c := r.c
	var f *agwsim.Frame
	n := 0
	for _, e := range r.sim.Events() {
		if e.Dir == agwsim.HostToTNC && (e.Frame.Kind == 'C' || e.Frame.Kind == 'v' || e.Frame.Kind == 'c') {
			fr := e.Frame
			f = &fr
			n++
		}
	}
	if n != 1 {
		r.v.set("dial-frame-wrong", "DialContext returned after %d connect frames (want exactly one C or v). Host frames: %s", n, hostKinds(r.sim.Events()))
		return false
	}
	if int(f.Port) != c.Port || f.From != c.MyCall || f.To != c.Remote {
		r.v.set("dial-frame-wrong", "connect frame has port=%d from=%q to=%q, want port=%d from=%q to=%q", f.Port, f.From, f.To, c.Port, c.MyCall, c.Remote)
		return false
	}
	if len(c.Digis) == 0 {
		if !(f.Kind == 'C' && len(f.Data) == 0) && !(f.Kind == 'v' && bytes.Equal(f.Data, []byte{0})) {
			r.v.set("dial-frame-wrong", "direct connect sent %s", f)
			return false
		}
		return true
	}
	want := []byte{byte(len(c.Digis))}
	for _, d := range c.Digis {
		var call [10]byte
		copy(call[:], d)
		want = append(want, call[:]...)
	}
	ok := f.Kind == 'v' && len(f.Data) == len(want) && f.Data[0] == want[0]
	if ok {
		for i := range c.Digis { // the bytes behind a call's NUL terminator are not judged
			got := f.Data[1+10*i : 11+10*i]
			if j := bytes.IndexByte(got, 0); j >= 0 {
				got = got[:j]
			}
			if string(got) != c.Digis[i] {
				ok = false
			}
		}
	}
	if !ok {
		r.v.set("dial-frame-wrong", "connect via %v sent kind %q with data %q, want kind 'v' with data %q", c.Digis, string(rune(f.Kind)), f.Data, want)
		return false
	}
	return true
}

// ---- inbound round -----------------------------------------------------------------------------

func (r *crun) inRound(rd Round) {
	cs := r.cs
	c := r.c
	if rd.Knock != nil {
		k := rd.Knock
		r.knockers[k.From] = true
		base := r.sim.Seq()
		if err := r.sim.Send(k.frame(), k.Seg); err != nil {
			r.apiError("tnc-link-lost", "announcing another station's connection", err)
			return
		}
		// let the refusal dialogue (Y, d) finish before data follows; how long we wait only shapes the
		// schedule, it is not judged
		var giveUp atomic.Bool
		tm := time.AfterFunc(3*time.Second, func() { giveUp.Store(true); r.sim.Poke() })
		r.sim.WaitFor(func(ev []agwsim.Event) bool {
			if giveUp.Load() {
				return true
			}
			for _, e := range ev {
				if e.Seq > base && e.Dir == agwsim.TNCToHost && e.Auto && e.Frame.Kind == 'd' && e.Frame.From == k.From {
					return true
				}
			}
			return false
		})
		tm.Stop()
		if giveUp.Load() {
			r.st.label("knock:no-refusal-seen")
		} else {
			r.st.label("knock:refused")
		}
	}
	if len(rd.In) == 0 {
		return
	}
	window := rd.Window
	if window < 1 {
		window = 1
	}
	if window > maxBacklog {
		window = maxBacklog
	}
	cs.mu.Lock()
	cs.sendDone, cs.readerDone = false, false
	cs.mu.Unlock()
	doneCh := make(chan struct{})
	var wg sync.WaitGroup
	wg.Add(2)
	go func() { // wakes the sender regularly so that it can notice a reader that makes no progress
		defer wg.Done()
		tk := time.NewTicker(200 * time.Millisecond)
		defer tk.Stop()
		for {
			select {
			case <-doneCh:
				return
			case <-tk.C:
				cs.mu.Lock()
				cs.cond.Broadcast()
				cs.mu.Unlock()
			}
		}
	}()
	go func() {
		defer wg.Done()
		fail := func() {
			cs.mu.Lock()
			cs.linkLost, cs.sendDone = true, true
			cs.cond.Broadcast()
			cs.mu.Unlock()
		}
		// waitFor blocks until pred holds (true) or the round is aborted (false). If the reader makes no
		// progress for 1.5 s meanwhile, a probe frame is sent: frames are delivered in order, so a probe
		// that arrives proves that what is missing before it will never come. When probes are sent
		// depends on time, what they prove does not.
		nprobes := 0
		waitFor := func(pred func() bool) bool {
			cs.mu.Lock()
			defer cs.mu.Unlock()
			lastGot, since := cs.got, time.Now()
			for {
				if cs.abort || cs.linkLost {
					return false
				}
				if pred() {
					return true
				}
				if cs.got != lastGot {
					lastGot, since = cs.got, time.Now()
				}
				if nprobes >= 8 && time.Since(since) > 20*time.Second {
					// eight probe frames, each sent alone after 1.5 s without any progress of a reader that sits in Read,
					// and another 20 s: nothing this connection is sent reaches Read any more. The known whole-frame
					// loss needs a busy queue; this link was quiet each time. The reader cannot be called back from
					// inside Read, so the case is recorded and the process ends here.
					msg := fmt.Sprintf("the connection's stream is dead: Read has delivered %d of the %d bytes the TNC sent and nothing more for over 30 s, although the TNC then sent 8 further data frames for this connection, one at a time and 1.5 s apart on an otherwise quiet link (stage %s; host frames so far: %s)", cs.got, len(cs.expected), r.stage(), hostKinds(r.sim.Events()))
					cs.mu.Unlock()
					harness.Record("stream-dead", r.c, msg)
					harness.ExitHung()
				}
				if time.Since(since) > 1500*time.Millisecond && nprobes < 8 {
					nprobes++
					p := probePayload(len(cs.probes))
					cs.probes = append(cs.probes, probe{len(cs.expected), p})
					cs.announce(p)
					cs.allD = append(cs.allD, dframe{true, "probe", p})
					cs.cond.Broadcast()
					cs.mu.Unlock()
					err := r.sim.Send(agwsim.Frame{Port: uint8(c.Port), Kind: 'D', PID: 0xf0, From: c.Remote, To: c.MyCall, Data: p}, agwsim.Seg{})
					cs.mu.Lock()
					if err != nil {
						cs.linkLost, cs.sendDone = true, true
						cs.cond.Broadcast()
						return false
					}
					since = time.Now()
					continue
				}
				cs.cond.Wait()
			}
		}
		for _, f := range rd.In {
			if f.Own && !waitFor(func() bool { return cs.unconsumed() < window }) {
				return
			}
			cs.mu.Lock()
			if cs.abort {
				cs.mu.Unlock()
				return
			}
			if f.Own {
				if u := cs.unconsumed() + 1; u > r.maxUnread {
					r.maxUnread = u
				}
				cs.announce(f.Data)
			}
			if f.Kind == "D" {
				cs.allD = append(cs.allD, dframe{f.Own, f.Why, f.Data})
			}
			cs.cond.Broadcast()
			cs.mu.Unlock()
			if err := r.sim.Send(f.frame(), f.Seg); err != nil {
				fail()
				return
			}
		}
		cs.mu.Lock()
		cs.sendDone = true
		cs.cond.Broadcast()
		cs.mu.Unlock()
		waitFor(func() bool { return cs.readerDone })
	}()
	r.reader(rd, doneCh)
	wg.Wait()
	if r.v.sig == "" {
		r.judgeStream()
	}
}

func (r *crun) reader(rd Round, doneCh chan struct{}) {
	cs := r.cs
	defer close(doneCh)
	stop := func() {
		cs.mu.Lock()
		cs.abort = true
		cs.cond.Broadcast()
		cs.mu.Unlock()
	}
	buf := make([]byte, 4096)
	start := len(r.got)
	pi, ri, zero := 0, 0, 0
	diverged := false
	for {
		cs.mu.Lock()
		for {
			if cs.sendDone && len(r.got) >= len(cs.expected) {
				cs.readerDone = true
				cs.cond.Broadcast()
				break
			}
			if len(cs.expected) > len(r.got) {
				break
			}
			cs.cond.Wait()
		}
		done, lost := cs.readerDone, cs.linkLost
		cs.mu.Unlock()
		if done {
			if lost {
				r.apiError("tnc-link-lost", "sending frames to the host", fmt.Errorf("write to the host failed"))
				stop()
			}
			return
		}
		for pi < len(rd.Pauses) && len(r.got)-start >= rd.Pauses[pi].At {
			time.Sleep(time.Duration(rd.Pauses[pi].Ms) * time.Millisecond)
			pi++
		}
		size := 4096
		if len(rd.Reads) > 0 {
			size = rd.Reads[ri%len(rd.Reads)]
			ri++
		}
		size = max(1, min(size, len(buf)))
		var n int
		var err error
		if ps, pm := harness.Catch(func() { n, err = r.conn.Read(buf[:size]) }); ps != "" {
			r.v.set(ps, "Conn.Read with a %d byte buffer after %d bytes of the stream: %s", size, len(r.got), pm)
			stop()
			return
		}
		if n < 0 || n > size {
			r.v.set("read-count", "Read returned n=%d for a %d byte buffer", n, size)
			stop()
			return
		}
		r.got = append(r.got, buf[:n]...)
		if err != nil {
			r.apiError("read-failed-before-end-of-stream", fmt.Sprintf("Conn.Read after %d of %d expected bytes", len(r.got), r.expectedLen()), err)
			stop()
			return
		}
		if n == 0 {
			if zero++; zero > 10000 {
				r.v.set("read-spins", "10000 consecutive Read calls returned (0, nil)")
				stop()
				return
			}
		} else {
			zero = 0
		}
		cs.mu.Lock()
		cs.got = len(r.got)
		cs.cond.Broadcast()
		over := len(r.got) > len(cs.expected)
		evident := false
		if !over && !bytes.Equal(r.got[len(r.got)-n:], cs.expected[len(r.got)-n:len(r.got)]) {
			diverged = true
		}
		if diverged {
			// Only whole-frame loss (the known finding) needs the end-of-round probe to be told apart;
			// anything else is a mismatch right now.
			if ok, _ := explain(r.got, cs.payloads, true); !ok {
				evident = true
			}
		}
		for _, p := range cs.probes {
			if i := bytes.Index(r.got, p.data); i >= 0 && i != p.start {
				evident = true
			}
		}
		cs.mu.Unlock()
		if over || evident {
			stop()
			return
		}
	}
}

func (r *crun) expectedLen() int {
	r.cs.mu.Lock()
	defer r.cs.mu.Unlock()
	return len(r.cs.expected)
}

// explain reports whether got is the concatenation of a subsequence of frames (if partial is set,
// the last frame used may be cut short) and returns the indexes of the frames used.
func explain(got []byte, frames [][]byte, partial bool) (bool, []int) {
	type key struct{ k, pos int }
	dead := map[key]bool{}
	var used []int
	var rec func(k, pos int) bool
	rec = func(k, pos int) bool {
		if pos == len(got) {
			return true
		}
		if k == len(frames) || dead[key{k, pos}] {
			return false
		}
		f := frames[k]
		if len(f) > 0 {
			if bytes.HasPrefix(got[pos:], f) {
				used = append(used, k)
				if rec(k+1, pos+len(f)) {
					return true
				}
				used = used[:len(used)-1]
			} else if partial && bytes.HasPrefix(f, got[pos:]) {
				used = append(used, k)
				return true
			}
		}
		if rec(k+1, pos) {
			return true
		}
		dead[key{k, pos}] = true
		return false
	}
	ok := rec(0, 0)
	return ok, used
}

func missing(used []int, n int) []int {
	in := map[int]bool{}
	for _, i := range used {
		in[i] = true
	}
	var out []int
	for i := 0; i < n; i++ {
		if !in[i] {
			out = append(out, i)
		}
	}
	return out
}

func (r *crun) judgeStream() {
	cs := r.cs
	cs.mu.Lock()
	exp := append([]byte(nil), cs.expected...)
	own := append([][]byte(nil), cs.payloads...)
	all := append([]dframe(nil), cs.allD...)
	nprobes := len(cs.probes)
	cs.mu.Unlock()
	if bytes.Equal(r.got, exp) {
		if nprobes > 0 {
			r.st.label("in:slow-round-probed")
		}
		return
	}
	if ok, used := explain(r.got, own, false); ok {
		skipped := missing(used, len(own))
		r.st.label("known-drop-seen")
		r.v.set(knownDropSig, "Read returned %d of the %d bytes the TNC sent for this connection: data frame(s) number %v of %d are missing as a whole, all other frames arrived in order (unread backlog was at most %d frames)", len(r.got), len(exp), skipped, len(own), r.maxUnread)
		return
	}
	payloads := make([][]byte, len(all))
	for i, d := range all {
		payloads[i] = d.data
	}
	if ok, used := explain(r.got, payloads, true); ok {
		for _, i := range used {
			if d := all[i]; !d.own {
				r.v.set("stream-foreign-frame-delivered", "Read delivered the payload of a frame that does not belong to the connection (%s, D frame number %d on the link, %d bytes)", d.why, i, len(d.data))
				return
			}
		}
	}
	i := 0
	for i < len(r.got) && i < len(exp) && r.got[i] == exp[i] {
		i++
	}
	fr := 0
	cs.mu.Lock()
	for fr < len(cs.ends) && cs.ends[fr] <= i {
		fr++
	}
	cs.mu.Unlock()
	r.v.set("stream-mismatch", "Read returned %d bytes, the TNC sent %d for this connection; first difference at offset %d (inside own frame number %d)", len(r.got), len(exp), i, fr)
}

// ---- event-order helpers -----------------------------------------------------------------------

// lastOwnD is the index of the last D frame of the connection received by the TNC before index end.
func (r *crun) lastOwnD(ev []agwsim.Event, end int) int {
	for i := end - 1; i >= 0; i-- {
		if ev[i].Dir == agwsim.HostToTNC && ev[i].Frame.Kind == 'D' && r.isOurs(ev[i].Frame) {
			return i
		}
	}
	return -1
}

func (r *crun) isOwnYReply(e agwsim.Event) bool {
	return e.Dir == agwsim.TNCToHost && e.Auto && e.Frame.Kind == 'Y' && e.Y >= 0 && r.isOurs(e.Frame)
}

func (r *crun) zeroReplyBetween(ev []agwsim.Event, from, to int) bool {
	for i := from + 1; i < to && i < len(ev); i++ {
		if r.isOwnYReply(ev[i]) && ev[i].Y == 0 {
			return true
		}
	}
	return false
}

func (r *crun) yRepliesAfter(ev []agwsim.Event, from int) []int64 {
	var out []int64
	for i := from + 1; i < len(ev); i++ {
		if r.isOwnYReply(ev[i]) {
			out = append(out, ev[i].Y)
		}
	}
	return out
}

var hostKindsAGWPE = "PXxGgRkmMVKCvcDdYyH"

// judgeHostFrames checks everything the TNC received during the case.
func (r *crun) judgeHostFrames() {
	c := r.c
	ev := r.sim.Events()
	if r.sim.Desync() {
		r.v.set("host-frame-malformed", "the host's byte stream stopped being parseable as AGWPE frames (declared data length > 1 MiB). Host frames: %s", hostKinds(ev))
		return
	}
	var tx []byte
	lastY := int64(-1) // latest Y reply for the connection since the previous own D frame
	for _, e := range ev {
		if r.isOwnYReply(e) {
			lastY = e.Y
			continue
		}
		if e.Dir != agwsim.HostToTNC {
			continue
		}
		f := e.Frame
		if e.Note != "" {
			r.v.set("host-frame-malformed", "the host link ended inside a frame (%s): %s", e.Note, f)
			return
		}
		if !strings.ContainsRune(hostKindsAGWPE, rune(f.Kind)) {
			r.v.set("host-frame-unknown-kind", "the TNC received a frame of a kind AGWPE does not define for the host: %s", f)
			return
		}
		switch f.Kind {
		case 'g', 'C', 'v', 'c', 'D', 'd', 'Y', 'y', 'M', 'V':
			if int(f.Port) != c.Port {
				r.v.set("host-frame-wrong-port", "frame on port %d, the registered port is %d: %s", f.Port, c.Port, f)
				return
			}
		}
		if f.Kind == 'Y' && c.ReverseY && r.knockers[f.From] && f.To == c.MyCall {
			continue // a station that knocked while the connection was up started its (refused) link itself
		}
		if f.Kind == 'Y' && c.ReverseY && c.Accept && !r.knockers[f.From] && !r.knockers[f.To] {
			// the option is set and the remote station started the connection: CallFrom = remote, CallTo = own call
			if f.From != c.Remote || f.To != c.MyCall {
				r.v.set("host-frame-wrong-calls", "AGWPE_REVERSE_TO_FROM is set and the connection was started by %q, but the Y query names the calls as from %q to %q: %s", c.Remote, f.From, f.To, f)
				return
			}
			continue
		}
		switch f.Kind {
		case 'X', 'x', 'C', 'v', 'c', 'D', 'd', 'Y', 'M':
			if f.From != c.MyCall {
				r.v.set("host-frame-wrong-calls", "frame with call from %q, the registered call is %q: %s", f.From, c.MyCall, f)
				return
			}
		}
		switch f.Kind {
		case 'C', 'v', 'c', 'D':
			if f.To != c.Remote {
				r.v.set("host-frame-wrong-calls", "frame with call to %q, the remote station is %q: %s", f.To, c.Remote, f)
				return
			}
		case 'd', 'Y':
			if f.To != c.Remote && !r.knockers[f.To] {
				r.v.set("host-frame-wrong-calls", "frame with call to %q, the remote station is %q: %s", f.To, c.Remote, f)
				return
			}
		}
		if f.Kind == 'D' {
			if f.PID != 0xf0 {
				r.v.set("host-d-frame-wrong-pid", "D frame with PID %#02x, want 0xF0: %s", f.PID, f)
				return
			}
			if lastY < 0 {
				r.v.set("d-sent-without-poll", "D frame (event %d) sent without asking the TNC for the number of outstanding frames since the previous D frame", e.Seq)
				return
			}
			if lastY > int64(c.MaxFrame) {
				r.v.set("d-sent-above-maxframe", "D frame (event %d) sent although the latest Y reply reported %d outstanding frames and MAXFRAME is %d", e.Seq, lastY, c.MaxFrame)
				return
			}
			lastY = -1
			tx = append(tx, f.Data...)
		}
	}
	if !bytes.Equal(tx, r.written) {
		i := 0
		for i < len(tx) && i < len(r.written) && tx[i] == r.written[i] {
			i++
		}
		r.v.set("tx-payload-mismatch", "the D frames the TNC received carry %d bytes, the application wrote %d; first difference at offset %d", len(tx), len(r.written), i)
	}
}

// ---- statistics --------------------------------------------------------------------------------

func (r *crun) finishStats() {
	c, st := r.c, r.st
	if c.Accept {
		st.label("dir:accept")
		if r.attempts > 1 {
			st.label("accept:refused-before-accepted")
		}
	} else {
		st.label("dir:dial")
	}
	st.label(fmt.Sprintf("port:%d", c.Port))
	st.label(fmt.Sprintf("digis:%d", len(c.Digis)))
	st.label(fmt.Sprintf("maxframe:%d", c.MaxFrame))
	st.label("end:" + c.End)
	if strings.Contains(c.MyCall, "-") || strings.Contains(c.Remote, "-") {
		st.label("call:with-ssid")
	}
	if len(c.ReplyCuts) > 0 {
		st.label("replies:segmented")
	}
	nOwn, nForeign, nWrites := 0, 0, 0
	for _, rd := range c.Rounds {
		minRead := 1 << 30
		for _, s := range rd.Reads {
			minRead = min(minRead, max(1, s))
		}
		small := false
		for _, f := range rd.In {
			total := agwsim.HeaderLen + len(f.Data)
			hdr, bnd, dat := false, false, false
			for _, cut := range f.Seg.Cuts {
				switch {
				case cut <= 0 || cut >= total:
				case cut < agwsim.HeaderLen:
					hdr = true
				case cut == agwsim.HeaderLen:
					bnd = true
				default:
					dat = true
				}
			}
			if hdr {
				st.label("split:mid-header")
			}
			if bnd {
				st.label("split:header|data")
			}
			if dat {
				st.label("split:mid-data")
			}
			if hdr || dat {
				st.nonTrivial = true
			}
			if f.Own {
				nOwn++
				if len(f.Data) > minRead {
					small = true
				}
			} else {
				nForeign++
				st.label("foreign:" + f.Why)
			}
		}
		if small {
			st.label("reader:buffer<frame")
			st.nonTrivial = true
		}
		if len(rd.Pauses) > 0 && len(rd.In) > 0 {
			st.label("reader:pauses")
		}
		if rd.Knock != nil {
			st.label("knock")
		}
		nWrites += len(rd.Out)
	}
	if r.maxUnread > 0 {
		st.label(fmt.Sprintf("backlog-max:%d", r.maxUnread))
	}
	ev := r.sim.Events()
	stall, polls, sawOne := false, 0, false
	for _, e := range ev {
		if r.isOwnYReply(e) {
			polls++
			if e.Y > int64(c.MaxFrame) {
				stall = true
			}
			if e.Y == 1 {
				sawOne = true
			}
		}
	}
	if stall {
		st.label("tx:queue-above-maxframe")
	}
	if sawOne {
		st.label("tx:poll-saw-1")
	}
	if nWrites > 0 {
		st.label("tx:writes")
	}
	if r.v.sig == "" {
		st.label("outcome:held")
	} else {
		st.label("outcome:" + r.v.sig)
	}
	st.summary = map[string]any{
		"family": "conforming", "port": c.Port, "mycall": c.MyCall, "remote": c.Remote, "digis": c.Digis, "accept": c.Accept,
		"maxframe": c.MaxFrame, "paclen": c.Paclen, "drain": c.Drain, "own_frames": nOwn, "foreign_frames": nForeign, "writes": nWrites,
		"bytes_read": len(r.got), "bytes_written": len(r.written), "y_polls": polls, "host_frames": hostKinds(ev), "end": c.End, "verdict": r.v.sig,
	}
}
