package c13

import (
	"context"
	"encoding/binary"
	"fmt"
	"net"
	"sync"
	"sync/atomic"
	"time"

	"github.com/la5nta/wl2k-go/transport/ax25/agwpe"

	"verif/internal/harness"
	"verif/internal/ref/agwsim"
)

// The malformed family: the application runs an ordinary open / connect / read / write / flush /
// close program against a TNC whose replies are damaged, that injects arbitrary frames and that
// drops the link. Oracle: no panic in any call, the process survives, every call returns.

type mrun struct {
	c   Case
	m   *Mal
	sim *agwsim.Sim
	st  *stats

	mu      sync.Mutex
	v       verdict
	ln      net.Listener
	stageV  atomic.Value
	step    atomic.Int64
	applied atomic.Int64
	outcome string
}

func (r *mrun) setV(sig, msg string) {
	r.mu.Lock()
	r.v.set(sig, "%s", msg)
	r.mu.Unlock()
}

func (r *mrun) then() string {
	if r.m.Rst {
		return "rst"
	}
	return "cut"
}

func (r *mrun) applyOp(op MalOp, outs []agwsim.Out) []agwsim.Out {
	r.applied.Add(1)
	var res []agwsim.Out
	for _, o := range outs {
		b := append([]byte(nil), o.Bytes...)
		switch op.Mode {
		case "drop":
			continue
		case "data":
			f := o.Frame
			f.Data = op.Data
			o.Frame, b = f, f.Encode()
		case "declen":
			if len(b) >= agwsim.HeaderLen {
				binary.LittleEndian.PutUint32(b[28:32], op.Len)
			}
		case "kind":
			if len(b) >= agwsim.HeaderLen {
				b[4] = byte(op.V)
			}
		case "hdrxor":
			if len(b) >= agwsim.HeaderLen {
				b[((op.I%agwsim.HeaderLen)+agwsim.HeaderLen)%agwsim.HeaderLen] ^= byte(op.V) | 1
			}
		case "trunc":
			b = b[:max(0, min(op.N, len(b)))]
			o.Then = r.then()
		case "dup":
			o.Bytes = b
			res = append(res, o)
		case "random":
			b = op.Data
		case "thencut":
			o.Then = r.then()
		}
		o.Bytes = b
		o.Note = "mal:" + op.Mode
		res = append(res, o)
	}
	return res
}

func (r *mrun) hook() agwsim.Hook {
	counts := map[string]int{}
	return func(ord int, req agwsim.Frame, std []agwsim.Out) []agwsim.Out {
		k := string(rune(req.Kind))
		if k == "v" {
			k = "C"
		}
		nth := counts[k]
		counts[k]++
		outs := std
		for _, op := range r.m.Ops {
			if op.On == k && op.Nth == nth {
				outs = r.applyOp(op, outs)
			}
		}
		if r.m.CutAt >= 0 && ord == r.m.CutAt {
			r.applied.Add(1)
			if len(outs) == 0 {
				outs = []agwsim.Out{{Y: -1, Note: "cut", Then: r.then()}}
			} else {
				outs[len(outs)-1].Then = r.then()
			}
		}
		return outs
	}
}

func (r *mrun) inject(stage string) {
	for _, in := range r.m.Inject {
		if in.Stage != stage {
			continue
		}
		if r.sim.SendRaw(in.Raw, in.Seg, "inject:"+in.What) == nil {
			r.applied.Add(1)
		}
		r.step.Add(1)
		if in.Then != "" {
			r.sim.CutLink(in.Then == "rst")
		}
	}
}

func runMalformed(c Case, st *stats) (string, string) {
	rep := max(1, c.Mal.Repeat)
	for i := 0; i < rep; i++ {
		if sig, msg := malOnce(c, st, i == 0); sig != "" {
			return sig, msg
		}
	}
	return "", ""
}

func malOnce(c Case, st *stats, first bool) (string, string) {
	r := &mrun{c: c, m: c.Mal, st: st}
	sim, err := agwsim.Start(agwsim.Config{MaxFrame: c.MaxFrame, Paclen: c.Paclen, Drain: c.Drain, NulTerm: c.NulTerm, ReplySeg: replySeg(c), Hook: r.hook()})
	if err != nil {
		panic("harness: cannot start the TNC simulator: " + err.Error())
	}
	defer sim.Close()
	r.sim = sim
	ctx, cancel := context.WithCancel(context.Background())
	defer cancel()
	done := make(chan struct{})
	go func() { defer close(done); r.program(ctx) }()

	// Supervisor: when the program makes no progress (a reply was dropped, the byte stream is out of
	// sync, ...) the TNC link is cut, which is just one more hostile input. Only the 180 s limit
	// classifies a hang.
	const patience = 700 * time.Millisecond
	t0 := time.Now()
	last, lastChange, cut := r.step.Load(), time.Now(), false
	tick := time.NewTicker(20 * time.Millisecond)
	defer tick.Stop()
loop:
	for {
		select {
		case <-done:
			break loop
		case <-tick.C:
		}
		if s := r.step.Load(); s != last {
			last, lastChange = s, time.Now()
		}
		if !cut && time.Since(lastChange) > patience {
			cut = true
			sim.CutLink(r.m.Rst)
			cancel()
			r.mu.Lock()
			ln := r.ln
			r.mu.Unlock()
			if ln != nil {
				ln.Close()
			}
			if first {
				st.label("mal:stuck-then-link-cut")
			}
		}
		if time.Since(t0) > hangLimit() {
			stage, _ := r.stageV.Load().(string)
			harness.Record("hang:malformed-"+stage, c, fmt.Sprintf("%s did not return within %v although the TNC link was cut. Host frames: %s", stage, hangLimit(), hostKinds(sim.Events())))
			harness.ExitHung()
		}
	}
	if first {
		r.finishStats()
	}
	return r.v.sig, r.v.msg
}

func (r *mrun) program(ctx context.Context) {
	c, m, sim := r.c, r.m, r.sim
	call := func(name string, f func()) bool {
		r.stageV.Store(name)
		ps, pm := harness.Catch(f)
		r.step.Add(1)
		if ps != "" {
			r.setV(ps, fmt.Sprintf("%s (port %d, malformed TNC): %s", name, c.Port, pm))
			return false
		}
		return true
	}
	var bg sync.WaitGroup
	defer func() {
		sim.CutLink(m.Rst)
		bg.Wait()
	}()
	var tp *agwpe.TNCPort
	var err error
	if !call("OpenPortTCP", func() { tp, err = agwpe.OpenPortTCP(sim.Addr(), c.Port, c.MyCall) }) {
		return
	}
	if err != nil || tp == nil {
		r.outcome = "open-error"
		return
	}
	defer call("TNCPort.Close", func() { tp.Close() })
	if m.Version {
		call("Version", func() { tp.TNC.Version() })
	}
	r.inject("registered")

	var conn net.Conn
	if c.Accept {
		var ln net.Listener
		if !call("Listen", func() { ln, err = tp.Listen() }) {
			return
		}
		if err != nil || ln == nil {
			r.outcome = "listen-error"
			return
		}
		r.mu.Lock()
		r.ln = ln
		r.mu.Unlock()
		accCh := make(chan net.Conn, 1)
		bg.Add(1)
		go func() {
			defer bg.Done()
			var a net.Conn
			if ps, pm := harness.Catch(func() { a, _ = ln.Accept() }); ps != "" {
				r.setV(ps, "Accept (malformed TNC): "+pm)
			}
			r.step.Add(1)
			accCh <- a
		}()
		time.Sleep(5 * time.Millisecond)
		f := agwsim.Frame{Port: uint8(c.Port), Kind: 'C', From: c.Remote, To: c.MyCall, Data: []byte("*** CONNECTED To Station " + c.Remote + "\r")}
		outs := []agwsim.Out{{Frame: f, Bytes: f.Encode(), Y: -1}}
		for _, op := range m.Ops {
			if op.On == "A" {
				outs = r.applyOp(op, outs)
			}
		}
		// the simulator must know the link so that Y polls and d are answered
		sim.MarkConnected(uint8(c.Port), c.Remote, c.MyCall)
		for _, o := range outs {
			sim.SendRaw(o.Bytes, o.Seg, "announce "+o.Note)
			if o.Then != "" {
				sim.CutLink(o.Then == "rst")
			}
		}
		r.stageV.Store("Accept")
		conn = <-accCh
		call("Listener.Close", func() { ln.Close() })
	} else {
		call("DialContext", func() { conn, err = tp.DialContext(ctx, c.Remote, c.Digis...) })
		if err != nil {
			conn = nil
		}
	}
	if r.v.sig != "" {
		return
	}
	if conn == nil {
		r.outcome = "connect-error"
		return
	}
	r.inject("connected")

	bg.Add(1)
	go func() {
		defer bg.Done()
		buf := make([]byte, max(1, min(m.ReadBuf, 1<<16)))
		zero := 0
		for {
			var n int
			var e error
			if ps, pm := harness.Catch(func() { n, e = conn.Read(buf) }); ps != "" {
				r.setV(ps, fmt.Sprintf("Conn.Read with a %d byte buffer (malformed TNC): %s", len(buf), pm))
				return
			}
			if e != nil {
				return
			}
			if n == 0 {
				if zero++; zero > 100000 {
					return
				}
			} else {
				zero = 0
				r.step.Add(1)
			}
		}
	}()
	r.outcome = "connected"
rounds:
	for _, rd := range c.Rounds {
		for _, f := range rd.In {
			if sim.Send(f.frame(), f.Seg) != nil {
				break
			}
			r.step.Add(1)
		}
		r.inject("data")
		for _, w := range rd.Out {
			if !call("Conn.Write", func() { _, err = conn.Write(w) }) {
				return
			}
			if err != nil {
				r.outcome = "write-error"
				break rounds
			}
		}
	}
	if fl, ok := conn.(interface{ Flush() error }); ok && c.Flush {
		if !call("Conn.Flush", func() { fl.Flush() }) {
			return
		}
	}
	r.inject("closing")
	call("Conn.Close", func() { conn.Close() })
}

func (r *mrun) finishStats() {
	st, m := r.st, r.m
	for _, op := range m.Ops {
		st.label("mal:op:" + op.On + ":" + op.Mode)
	}
	for _, in := range m.Inject {
		st.label("mal:inject:" + in.What)
	}
	if m.CutAt >= 0 {
		st.label("mal:cut-at-host-frame")
	}
	if r.c.Accept {
		st.label("mal:dir:accept")
	} else {
		st.label("mal:dir:dial")
	}
	st.label(fmt.Sprintf("mal:port:%d", r.c.Port))
	if r.outcome == "" {
		r.outcome = "none"
	}
	st.label("mal:reached:" + r.outcome)
	if r.applied.Load() > 0 {
		st.nonTrivial = true
	}
	if r.v.sig != "" {
		st.label("outcome:" + r.v.sig)
	}
	st.summary = map[string]any{"family": "malformed", "port": r.c.Port, "accept": r.c.Accept, "ops": m.Ops, "injected": len(m.Inject), "cut_at": m.CutAt,
		"damaged_delivered": r.applied.Load(), "reached": r.outcome, "host_frames": hostKinds(r.sim.Events()), "verdict": r.v.sig}
}
