// C13 — an AGWPE connection is a reliable, ordered byte stream.
//
// The library dials a simulated AGWPE TNC (internal/ref/agwsim) over loopback TCP. A case holds
// every choice: port, callsigns, digipeaters, direction, MAXFRAME, the TNC->host frame script with
// its TCP segmentation, the reader's buffer sizes and pauses, the application's writes and the
// way the simulated TX queue drains. Files: c13_test.go (cases, dispatch), conforming_test.go
// (conforming family and its stream/frames/event-order oracle), malformed_test.go (hostile TNC,
// oracle "does not crash"), gen_test.go (generators), probe_test.go (known-finding probe).
package c13

import (
	"encoding/json"
	"fmt"
	"os"
	"testing"
	"time"

	"pgregory.net/rapid"

	"verif/internal/harness"
	"verif/internal/ref/agwsim"
)

// knownDropSig: whole data frames missing from the stream returned by Read (demux.Enqueue drops
// a frame whenever its one-slot channel is occupied).
const knownDropSig = "agwpe-demux-drop-backlog"

// maxBacklog is the largest number of unread frames the conforming generator lets pile up.
const maxBacklog = 8

func TestMain(m *testing.M) {
	os.Unsetenv("AGWPE_DEBUG")
	os.Unsetenv("AGWPE_REVERSE_TO_FROM")
	harness.Property("C13",
		"conforming family: port 0..3, callsigns with SSID, 0..7 digis, dial or accept, MAXFRAME 1..7, 1..3 rounds of TNC->host frames (own D payloads 1..2048 bytes interleaved with frames for other ports/stations and monitor frames, every frame cut into TCP writes at generated offsets with 1..3 ms gaps) read with generated buffer sizes (1..4096) and pauses under a backlog window of 1..8 frames, and host->TNC writes (1..2048 bytes) against a TX queue that drains in generated steps after Y polls; then Flush, Close or remote disconnect, Port close. Non-trivial = at least one TNC->host frame cut inside its header or data, or a reader buffer smaller than a frame; distinct by hash of the case. malformed family: a small dialogue whose TNC replies are dropped/resized/re-typed/truncated/duplicated, with injected random headers, unknown kinds, lying and huge DataLen, and link cuts; non-trivial = at least one damaged frame or cut was delivered.",
		"the simulated TNC orders events as hardware does: the first Y poll after a D frame reports >= 1 outstanding frame (the TX queue only drains right after a Y reply)",
		"TNC->host frames of the conforming family are paced (>= 1 ms apart, unread backlog <= 8 frames); whole-frame loss is the known finding "+knownDropSig+" and is reported under that signature only",
		"inbound and outbound traffic alternate in rounds (half duplex like a B2F session); full-duplex interleaving of Y replies with data frames is not generated",
		"loopback TCP segmentation is requested with separate writes, TCP_NODELAY and gaps, not guaranteed",
		"ordering/liveness verdicts use the simulator's event sequence numbers; wall-clock limits (180 s per case) only classify a hang, which is inconclusive for this property",
	)
	harness.Main(m)
}

// TFrame is one frame the simulated TNC sends to the host.
type TFrame struct {
	Own  bool       `json:"own,omitempty"` // connected data of the connection under test
	Why  string     `json:"why,omitempty"` // class of a foreign frame
	Port int        `json:"port"`
	Kind string     `json:"kind"`
	PID  int        `json:"pid"`
	From string     `json:"from"`
	To   string     `json:"to"`
	Data []byte     `json:"data"`
	Seg  agwsim.Seg `json:"seg"`
}

func (f TFrame) frame() agwsim.Frame {
	k := byte('?')
	if len(f.Kind) > 0 {
		k = f.Kind[0]
	}
	return agwsim.Frame{Port: uint8(f.Port), Kind: k, PID: uint8(f.PID), From: f.From, To: f.To, Data: f.Data}
}

// Pause makes the reader sleep Ms milliseconds once it has consumed At bytes of the stream.
type Pause struct {
	At int `json:"at"`
	Ms int `json:"ms"`
}

// Round is an inbound phase (In, read under Window/Reads/Pauses) followed by an outbound phase (Out).
type Round struct {
	Knock  *TFrame  `json:"knock,omitempty"` // another station connects while we are busy (the library refuses it)
	In     []TFrame `json:"in,omitempty"`
	Window int      `json:"window"`
	Reads  []int    `json:"reads"`
	Pauses []Pause  `json:"pauses,omitempty"`
	Out    [][]byte `json:"out,omitempty"`
}

// MalOp damages the simulator's reply to the Nth host frame of kind On ("A" = the inbound
// connect announcement of the accept direction).
type MalOp struct {
	On   string `json:"on"`
	Nth  int    `json:"nth"`
	Mode string `json:"mode"` // drop data declen kind hdrxor trunc dup random thencut
	Len  uint32 `json:"len,omitempty"`
	Data []byte `json:"data,omitempty"`
	I    int    `json:"i,omitempty"`
	V    int    `json:"v,omitempty"`
	N    int    `json:"n,omitempty"`
}

// MalInj is a raw byte string injected into the TNC->host stream at a stage of the dialogue.
type MalInj struct {
	Stage string     `json:"stage"` // registered connected data closing
	What  string     `json:"what"`
	Raw   []byte     `json:"raw"`
	Seg   agwsim.Seg `json:"seg"`
	Then  string     `json:"then,omitempty"` // cut rst
}

type Mal struct {
	Ops     []MalOp  `json:"ops,omitempty"`
	Inject  []MalInj `json:"inject,omitempty"`
	CutAt   int      `json:"cut_at"` // cut the link when this many host frames have been received (<0: never)
	Rst     bool     `json:"rst"`
	Version bool     `json:"version"`
	ReadBuf int      `json:"read_buf"`
	Repeat  int      `json:"repeat,omitempty"` // run the scenario this many times (timing dependent crashes)
}

type Case struct {
	Family    string   `json:"family"` // conforming malformed
	Port      int      `json:"port"`
	MyCall    string   `json:"mycall"`
	Remote    string   `json:"remote"`
	Digis     []string `json:"digis,omitempty"`
	Accept    bool     `json:"accept"`
	MaxFrame  int      `json:"maxframe"`
	Paclen    int      `json:"paclen"`
	Drain     []int    `json:"drain"`
	NulTerm   bool     `json:"nulterm"`
	ReplyCuts [][]int  `json:"reply_cuts,omitempty"` // segmentation of the simulator's standard replies, cycled
	Rounds    []Round  `json:"rounds"`
	Flush     bool     `json:"flush"`
	End       string   `json:"end"`                        // close remote
	Excl      int      `json:"excluded_backlog,omitempty"` // rounds whose drawn backlog window was > 8 and was clamped
	Mal       *Mal     `json:"mal,omitempty"`
	// ReverseY: the user's TNC follows the AGWPE document for 'Y' queries (names the calls in the order in which
	// the connection was started) and the library's option for such TNCs, AGWPE_REVERSE_TO_FROM=1, is set.
	ReverseY bool `json:"reverse_y,omitempty"`
	// CtxCancel (dial): the dial context is a cancellable one that the caller cancels (defer cancel()) once
	// DialContext has returned; the connection must live on.
	CtxCancel bool `json:"ctx_cancel,omitempty"`
	// Again (dial, end=close): after the connection was closed the same station is dialled again on the same
	// port and the TNC delivers three data frames, one at a time (the next only after the application has read
	// the previous one, or after a long idle wait): the second connection is a stream of its own.
	Again     bool   `json:"again,omitempty"`
	AgainSeed uint64 `json:"again_seed,omitempty"`
}

// stats is what a run tells account().
type stats struct {
	labels     map[string]int
	nonTrivial bool
	summary    map[string]any
}

func (s *stats) label(l string) {
	if s.labels == nil {
		s.labels = map[string]int{}
	}
	s.labels[l]++
}

type verdict struct{ sig, msg string }

func (v *verdict) set(sig, format string, a ...any) {
	if v.sig == "" {
		v.sig, v.msg = sig, fmt.Sprintf(format, a...)
	}
}

func hangLimit() time.Duration { return 180 * time.Second }

// run executes one case and judges it.
func run(c Case) (sig, msg string, st *stats) {
	st = &stats{}
	if c.Family == "malformed" && c.Mal != nil {
		sig, msg = runMalformed(c, st)
	} else {
		sig, msg = runConforming(c, st)
	}
	return
}

func account(c Case, st *stats) {
	harness.Eval()
	harness.Label("family:" + c.Family)
	for l, n := range st.labels {
		harness.LabelN(l, n)
	}
	for i := 0; i < c.Excl; i++ {
		harness.Excluded("reader backlog window > 8 frames clamped to 8 (known finding " + knownDropSig + ")")
	}
	if st.nonTrivial {
		raw, _ := json.Marshal(c)
		harness.NonTrivial(harness.Hash(raw))
		if harness.WantSample() && st.summary != nil {
			harness.Sample(st.summary)
		}
	}
}

func prop(t *rapid.T) {
	c := genCase(t)
	harness.Begin(c)
	sig, msg, st := run(c)
	harness.End()
	account(c, st)
	if sig != "" {
		harness.Fail(t, sig, c, "%s", msg)
	}
}

func TestProp(t *testing.T) { rapid.Check(t, prop) }

func TestReplay(t *testing.T) {
	for _, f := range harness.ReplayFiles() {
		var c Case
		if _, err := harness.ReplayCase(f, &c); err != nil {
			t.Fatalf("%s: %v", f, err)
		}
		harness.Begin(c)
		sig, msg, _ := run(c)
		harness.End()
		harness.Eval()
		if sig != "" {
			harness.Fail(t, sig, c, "replay %s: %s", f, msg)
		}
	}
}
