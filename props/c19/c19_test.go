// C19 — connect URLs parse to exactly their components and reach the right dialer.
//
// NOTE: this package must not import any transport sub-package (telnet, ax25, ...): their init
// functions register dialers, and the checks below assume they own the whole registry.
package c19

import (
	"context"
	"errors"
	"fmt"
	"net"
	"runtime"
	"strings"
	"sync"
	"sync/atomic"
	"testing"
	"time"

	"github.com/la5nta/wl2k-go/transport"
	"pgregory.net/rapid"

	"verif/internal/harness"
)

func TestMain(m *testing.M) {
	harness.Property("C19",
		"families: component (a tuple of scheme from {ax25, ax25+agwpe, ardop, telnet, serial-tnc, x-y.z1}; optional non-empty user and optional password, both any UTF-8 text, percent-encoded byte by byte outside [A-Za-z0-9._~-]; host empty / name / name:port / [v6]:port over [A-Za-z0-9._-] in mixed case; 0..8 digis and a target over [A-Za-z0-9-]{1,9} in mixed case; 0..3 query parameters with keys [a-z_]{1,8} other than 'host' and arbitrary UTF-8 values percent-encoded the same way; optional non-empty host= parameter at any position) rendered as scheme://[user[:password]@]host/digi.../target[?query], then parsed and - if accepted - dialled with a recording stub registered (or not) for the scheme; in half of the cases the caller first modifies the values returned by earlier ParseURL calls (of a query-less URL of the same scheme and of this very URL: parameters set and appended, digis changed, fields overwritten) and the URL is parsed again; raw (arbitrary strings and byte strings); mutated (1..3 byte edits/truncations of a rendered URL with URL-special and control bytes); dispatch (sequences of 1..14 register/unregister/dial calls on 3 schemes - one lower case, one upper case, one mixed case, each always spelled the same way - against a map model); registry (2..6 goroutines x 1..16 register/unregister/dial calls on 3 schemes with generated yield pacing, binary built with -race); inflight (1..8 register/unregister/dial calls made while a dial of a fourth scheme is in progress, from a second goroutine or from inside that dialer, against the map model; every call must return while the first dial is held). Non-trivial: component cases with >= 1 digi, userinfo or query; raw/mutated strings that net/url accepts (ParseURL's own logic ran); dispatch cases with >= 1 dial; registry cases where two different goroutines dial and write the same scheme; every inflight case. Distinct by hash(raw string, dial mode) / hash(op lists).",
		"the component domain is restricted to characters whose treatment by net/url is documented and unambiguous: schemes lower case (net/url lower-cases schemes), hosts without escapes, zones or empty ports (net/url keeps the host's case), user/password/query values fully percent-encoded (net/url decodes %XX in all three), no fragment, no empty path segment",
		"when a tuple has both a target shorter than 3 characters and digis on ardop/telnet, either refusal is accepted; whether a URL value accompanies ErrDigisUnsupported is not constrained; whether the host= parameter itself stays in Params is not constrained",
		"registry oracle: operations are stamped with a shared atomic counter before the call and after the return; a dial result must be explainable by a registration (or unregistration/initial state) that began before the dial returned and was not certainly overwritten before the dial began - a necessary condition of linearisability that a mutex-protected map always meets; pacing only influences which interleavings are seen, never the verdict",
	)
	harness.Main(m)
}

// ---- case -------------------------------------------------------------------------------------

type Param struct {
	K string `json:"k"`
	V string `json:"v"`
}

// Comp is the component tuple a URL is rendered from.
type Comp struct {
	Scheme    string   `json:"scheme"`
	HasUser   bool     `json:"has_user"`
	User      string   `json:"user"`
	HasPass   bool     `json:"has_pass"`
	Pass      string   `json:"pass"`
	Host      string   `json:"host"`
	Digis     []string `json:"digis"`
	Target    string   `json:"target"`
	Params    []Param  `json:"params"`
	HostParam string   `json:"host_param"` // "" = none
	HostPos   int      `json:"host_pos"`   // index in the query at which host= is placed
	// EncPath: letters of the target and the digis are written percent-encoded in the URL (bit i of the value
	// selects the i-th letter, counted over digis then target): "%6ca5nta" is the target "la5nta"
	EncPath uint32 `json:"enc_path,omitempty"`
	// Dial: 0 do not dial, 1 plain Dialer registered, 2 ContextDialer registered, 3 dialer with
	// both interfaces registered through RegisterDialer, 4 nothing registered for the scheme
	// (a decoy is registered for another scheme).
	Dial int `json:"dial"`
	// Used: results of ParseURL are used the way callers use them - an earlier result (of a URL without a query) and
	// this URL's own first result get parameters set, digis appended and fields overwritten - and the URL is parsed
	// again afterwards; every parse must yield exactly the components of its own string
	Used bool `json:"used,omitempty"`
}

// useResult modifies a parsed URL the way a caller may (it owns the value it was handed).
func useResult(u *transport.URL) {
	if u == nil {
		return
	}
	if u.Params != nil {
		u.Params.Set("host", "set-by-caller")
		u.Params.Add("opt", "1")
		for k := range u.Params {
			if k != "host" && k != "opt" {
				u.Params[k] = append(u.Params[k], "appended-by-caller")
			}
		}
	}
	if len(u.Digis) > 0 {
		u.Digis[0] = "CHANGED"
	}
	u.Digis = append(u.Digis, "ADDED")
	u.Target, u.Host = "CHANGED", "changed-by-caller"
}

const (
	opRegPlain = iota
	opRegCtx
	opRegBoth
	opUnreg
	opDial
	opDialCtx
)

type Op struct {
	Kind   int `json:"kind"`
	Scheme int `json:"scheme"` // index into regSchemes
	Yield  int `json:"yield"`  // runtime.Gosched() calls before the op (registry family)
}

type Case struct {
	Family string `json:"family"` // component | raw | mutated | dispatch | registry
	Raw    []byte `json:"raw,omitempty"`
	Text   string `json:"text,omitempty"` // Raw, quoted, for the reader
	Comp   *Comp  `json:"comp,omitempty"`
	Ops    []Op   `json:"ops,omitempty"`
	Conc   [][]Op `json:"conc,omitempty"`
	// inflight family: Ops run while a dial of another scheme is in progress - from a second goroutine
	// (Reentrant=false: the dialer blocks until the ops are through) or from inside the dialer itself
	// (Reentrant=true: a wrapper/relay scheme whose dialer uses the registry).
	Reentrant bool `json:"reentrant,omitempty"`
}

var (
	schemes    = []string{"ax25", "ax25+agwpe", "ardop", "telnet", "serial-tnc", "x-y.z1"}
	// registry/dispatch families: every scheme is always spelled the same way, so the map model holds for a
	// registry that compares scheme names verbatim as well as for one that folds case consistently
	regSchemes = []string{"ax25", "ARDOP", "Mock-TNC"}
)

func noDigiScheme(s string) bool { return s == "ardop" || s == "telnet" }

// pct percent-encodes every byte outside the RFC 3986 unreserved set.
func pct(s string) string {
	var b strings.Builder
	for i := 0; i < len(s); i++ {
		c := s[i]
		if c >= 'a' && c <= 'z' || c >= 'A' && c <= 'Z' || c >= '0' && c <= '9' || c == '-' || c == '.' || c == '_' || c == '~' {
			b.WriteByte(c)
		} else {
			fmt.Fprintf(&b, "%%%02X", c)
		}
	}
	return b.String()
}

func (c Comp) query() []Param {
	q := append([]Param(nil), c.Params...)
	if c.HostParam != "" {
		p := min(max(c.HostPos, 0), len(q))
		q = append(q[:p:p], append([]Param{{"host", c.HostParam}}, q[p:]...)...)
	}
	return q
}

func (c Comp) render() string {
	var b strings.Builder
	b.WriteString(c.Scheme + "://")
	if c.HasUser {
		b.WriteString(pct(c.User))
		if c.HasPass {
			b.WriteString(":" + pct(c.Pass))
		}
		b.WriteByte('@')
	}
	b.WriteString(c.Host)
	n := uint(0)
	enc := func(seg string) string {
		if c.EncPath == 0 {
			return seg
		}
		var sb strings.Builder
		for i := 0; i < len(seg); i++ {
			ch := seg[i]
			if (ch >= 'a' && ch <= 'z') || (ch >= 'A' && ch <= 'Z') {
				if c.EncPath&(1<<(n%32)) != 0 {
					fmt.Fprintf(&sb, "%%%02x", ch)
					n++
					continue
				}
				n++
			}
			sb.WriteByte(ch)
		}
		return sb.String()
	}
	for _, d := range c.Digis {
		b.WriteString("/" + enc(d))
	}
	b.WriteString("/" + enc(c.Target))
	for i, p := range c.query() {
		if i == 0 {
			b.WriteByte('?')
		} else {
			b.WriteByte('&')
		}
		b.WriteString(pct(p.K) + "=" + pct(p.V))
	}
	return b.String()
}

// upperASCII is the oracle's own upper-casing (the domain of targets/digis is ASCII).
func upperASCII(s string) string {
	b := []byte(s)
	for i, c := range b {
		if c >= 'a' && c <= 'z' {
			b[i] = c - 32
		}
	}
	return string(b)
}

// ---- stub dialers -------------------------------------------------------------------------------

type ctxKey struct{}

type stubConn struct {
	net.Conn
	id int
}

type stubErr struct{ id int }

func (e stubErr) Error() string { return fmt.Sprintf("stub dialer %d", e.id) }

type hit struct {
	id     int
	u      *transport.URL
	viaCtx bool
	token  any
}

type recorder struct {
	mu   sync.Mutex
	hits []hit
}

func (r *recorder) add(h hit) {
	if r == nil {
		return
	}
	r.mu.Lock()
	r.hits = append(r.hits, h)
	r.mu.Unlock()
}

// even ids answer with a connection, odd ids with an error; either must be passed through.
func answer(id int) (net.Conn, error) {
	if id%2 == 0 {
		return &stubConn{id: id}, nil
	}
	return nil, stubErr{id}
}

type plainStub struct {
	id  int
	rec *recorder
}

func (s plainStub) DialURL(u *transport.URL) (net.Conn, error) {
	s.rec.add(hit{id: s.id, u: u})
	return answer(s.id)
}

type ctxStub struct {
	id  int
	rec *recorder
}

func (s ctxStub) DialURLContext(ctx context.Context, u *transport.URL) (net.Conn, error) {
	s.rec.add(hit{id: s.id, u: u, viaCtx: true, token: ctx.Value(ctxKey{})})
	return answer(s.id)
}

type bothStub struct {
	plainStub
	c ctxStub
}

func (s bothStub) DialURLContext(ctx context.Context, u *transport.URL) (net.Conn, error) {
	return s.c.DialURLContext(ctx, u)
}

func register(kind int, scheme string, id int, rec *recorder) {
	switch kind {
	case opRegPlain:
		transport.RegisterDialer(scheme, plainStub{id, rec})
	case opRegCtx:
		transport.RegisterContextDialer(scheme, ctxStub{id, rec})
	default:
		transport.RegisterDialer(scheme, bothStub{plainStub{id, rec}, ctxStub{id, rec}})
	}
}

// resultID maps the outcome of DialURL* to the id of the stub that answered, -1 for
// ErrMissingDialer, -2 for anything else.
func resultID(conn net.Conn, err error) int {
	var se stubErr
	switch {
	case err == nil:
		if sc, ok := conn.(*stubConn); ok {
			return sc.id
		}
	case errors.Is(err, transport.ErrMissingDialer):
		if conn == nil {
			return -1
		}
	case errors.As(err, &se):
		if conn == nil {
			return se.id
		}
	}
	return -2
}

func clearRegistry() {
	for _, s := range schemes {
		transport.UnregisterDialer(s)
	}
	for _, s := range regSchemes {
		transport.UnregisterDialer(s)
	}
	transport.UnregisterDialer("decoy")
}

// ---- component family ---------------------------------------------------------------------------

type outcome struct {
	class       string // ok | invalid-target | digis-unsupported | parse-error
	overlapped  int    // registry: dials whose interval overlapped a write on the same scheme
	parsedByURL bool
}

func sameStrings(a, b []string) bool {
	if len(a) != len(b) {
		return false
	}
	for i := range a {
		if a[i] != b[i] {
			return false
		}
	}
	return true
}

func judgeComponent(c Case, o *outcome) (sig, msg string) {
	k := c.Comp
	if !k.Used {
		return judgeComponentOnce(c, o, k.Dial)
	}
	aux, _ := transport.ParseURL(k.Scheme + ":///EARLIER")
	useResult(aux)
	if sig, msg = judgeComponentOnce(c, o, 0); sig != "" {
		return
	}
	first, _ := transport.ParseURL(string(c.Raw))
	useResult(first)
	if sig, msg = judgeComponentOnce(c, o, k.Dial); sig != "" {
		return "history:" + sig, "after the caller modified the URL values returned by earlier ParseURL calls: " + msg
	}
	return
}

func judgeComponentOnce(c Case, o *outcome, dial int) (sig, msg string) {
	k := c.Comp
	raw := string(c.Raw)
	u, err := transport.ParseURL(raw)
	short := len(k.Target) < 3
	nodigi := len(k.Digis) > 0 && noDigiScheme(k.Scheme)
	if short || nodigi {
		switch {
		case err == nil:
			if short {
				return "short-target-accepted", fmt.Sprintf("ParseURL(%q) accepted the %d character target %q", raw, len(k.Target), k.Target)
			}
			return "digis-accepted", fmt.Sprintf("ParseURL(%q) accepted %d digis for scheme %s", raw, len(k.Digis), k.Scheme)
		case short && errors.Is(err, transport.ErrInvalidTarget):
			o.class = "invalid-target"
		case nodigi && errors.Is(err, transport.ErrDigisUnsupported):
			o.class = "digis-unsupported"
		default:
			return "wrong-refusal", fmt.Sprintf("ParseURL(%q) = %v; want ErrInvalidTarget=%v / ErrDigisUnsupported=%v", raw, err, short, nodigi)
		}
		return "", ""
	}
	if err != nil {
		return "valid-url-refused", fmt.Sprintf("ParseURL(%q) = %v for a well-formed URL", raw, err)
	}
	if u == nil {
		return "nil-url-nil-error", fmt.Sprintf("ParseURL(%q) = nil, nil", raw)
	}
	o.class = "ok"
	if u.Scheme != k.Scheme {
		return "scheme", fmt.Sprintf("ParseURL(%q).Scheme = %q, want %q", raw, u.Scheme, k.Scheme)
	}
	wantHost := k.Host
	if k.HostParam != "" {
		wantHost = k.HostParam
	}
	if u.Host != wantHost {
		if k.HostParam != "" {
			return "host-param", fmt.Sprintf("ParseURL(%q).Host = %q, want the host parameter %q", raw, u.Host, wantHost)
		}
		return "host", fmt.Sprintf("ParseURL(%q).Host = %q, want %q", raw, u.Host, wantHost)
	}
	if want := upperASCII(k.Target); u.Target != want {
		return "target", fmt.Sprintf("ParseURL(%q).Target = %q, want %q", raw, u.Target, want)
	}
	wantDigis := make([]string, len(k.Digis))
	for i, d := range k.Digis {
		wantDigis[i] = upperASCII(d)
	}
	if !sameStrings(u.Digis, wantDigis) {
		return "digis", fmt.Sprintf("ParseURL(%q).Digis = %q, want %q", raw, u.Digis, wantDigis)
	}
	switch {
	case !k.HasUser && u.User != nil:
		return "userinfo", fmt.Sprintf("ParseURL(%q).User = %q, want none", raw, u.User.String())
	case k.HasUser && u.User == nil:
		return "userinfo", fmt.Sprintf("ParseURL(%q).User = nil, want user %q", raw, k.User)
	case k.HasUser:
		p, has := u.User.Password()
		if u.User.Username() != k.User || has != k.HasPass || p != k.Pass {
			return "userinfo", fmt.Sprintf("ParseURL(%q).User = (%q, %q, %v), want (%q, %q, %v)", raw, u.User.Username(), p, has, k.User, k.Pass, k.HasPass)
		}
	}
	wantParams := map[string][]string{}
	for _, p := range k.Params {
		wantParams[p.K] = append(wantParams[p.K], p.V)
	}
	for key, vals := range wantParams {
		if !sameStrings(u.Params[key], vals) {
			return "params", fmt.Sprintf("ParseURL(%q).Params[%q] = %q, want %q", raw, key, u.Params[key], vals)
		}
	}
	for key := range u.Params {
		if _, ok := wantParams[key]; !ok && !(key == "host" && k.HostParam != "") {
			return "params", fmt.Sprintf("ParseURL(%q).Params has the unexpected key %q = %q", raw, key, u.Params[key])
		}
	}
	if dial == 0 {
		return "", ""
	}

	// dispatch of the parsed URL
	clearRegistry()
	defer clearRegistry()
	rec := &recorder{}
	const id = 2
	switch dial {
	case 1:
		register(opRegPlain, k.Scheme, id, rec)
	case 2:
		register(opRegCtx, k.Scheme, id+1, rec) // odd id: the stub's error must be passed through
	case 3:
		register(opRegBoth, k.Scheme, id, rec)
	}
	register(opRegPlain, "decoy", 100, rec)
	token := &struct{ int }{7}
	ctx := context.WithValue(context.Background(), ctxKey{}, token)
	var conn net.Conn
	if dial == 2 || dial == 3 {
		conn, err = transport.DialURLContext(ctx, u)
	} else {
		conn, err = transport.DialURL(u)
	}
	got := resultID(conn, err)
	if dial == 4 {
		if got != -1 || len(rec.hits) != 0 {
			return "dispatch-unregistered", fmt.Sprintf("DialURL(%q) with no dialer for %q = (%v, %v), %d stub calls; want ErrMissingDialer", raw, k.Scheme, conn, err, len(rec.hits))
		}
		return "", ""
	}
	wantID := id
	if dial == 2 {
		wantID = id + 1
	}
	if got != wantID || len(rec.hits) != 1 || rec.hits[0].id != wantID {
		return "dispatch-wrong-dialer", fmt.Sprintf("DialURL(%q): result of stub %d (err %v), stub calls %+v; want exactly one call of stub %d and its result", raw, got, err, rec.hits, wantID)
	}
	if rec.hits[0].u != u {
		return "dispatch-url", fmt.Sprintf("DialURL(%q): the dialer received a different *URL", raw)
	}
	if rec.hits[0].viaCtx && (dial == 2 || dial == 3) && rec.hits[0].token != any(token) {
		return "dispatch-context", fmt.Sprintf("DialURLContext(%q): the ContextDialer did not receive the caller's context", raw)
	}
	return "", ""
}

// ---- raw family ---------------------------------------------------------------------------------

func isASCII(s string) bool {
	for i := 0; i < len(s); i++ {
		if s[i] >= 0x80 {
			return false
		}
	}
	return true
}

func judgeRaw(c Case, o *outcome) (sig, msg string) {
	raw := string(c.Raw)
	u, err := transport.ParseURL(raw)
	switch {
	case err == nil && u == nil:
		return "nil-url-nil-error", fmt.Sprintf("ParseURL(%q) = nil, nil", raw)
	case err == nil:
		o.class, o.parsedByURL = "ok", true
		if isASCII(u.Target) && len(u.Target) < 3 {
			return "short-target-accepted", fmt.Sprintf("ParseURL(%q) accepted the target %q", raw, u.Target)
		}
		if len(u.Digis) > 0 && noDigiScheme(u.Scheme) {
			return "digis-accepted", fmt.Sprintf("ParseURL(%q) accepted digis %q for scheme %s", raw, u.Digis, u.Scheme)
		}
	case errors.Is(err, transport.ErrInvalidTarget):
		o.class, o.parsedByURL = "invalid-target", true
	case errors.Is(err, transport.ErrDigisUnsupported):
		o.class, o.parsedByURL = "digis-unsupported", true
	default:
		o.class = "parse-error"
	}
	return "", ""
}

// ---- dispatch family (sequential, against a map model) -----------------------------------------------

func judgeDispatch(c Case, o *outcome) (sig, msg string) {
	clearRegistry()
	defer clearRegistry()
	return dispatchOps(c)
}

// blockScheme is the scheme whose dial is in progress in the inflight family (not one of regSchemes).
const blockScheme = "serial-tnc"

type inflightStub struct {
	entered chan struct{}
	inside  func() // runs inside the dial
}

func (s inflightStub) DialURLContext(ctx context.Context, u *transport.URL) (net.Conn, error) {
	close(s.entered)
	s.inside()
	return answer(7000)
}

// judgeInflight: a dial lasts (minutes, on a radio link). While it is in progress every other registry call
// - a dial of an unregistered scheme (must report ErrMissingDialer), register, unregister, a dial of another
// scheme - must still be dispatched/answered according to the map model, whether it comes from another
// goroutine or from the dialer itself. A call that does not return while the first dial is held is a
// violation ("dialling dispatches ... or reports that none is registered", over concurrent calls); the
// budget is 30 s of scheduled time for calls that take microseconds.
func judgeInflight(c Case, o *outcome) (sig, msg string) {
	clearRegistry()
	entered, release, done := make(chan struct{}), make(chan struct{}), make(chan int, 1)
	var isig, imsg string
	inside := func() { <-release }
	if c.Reentrant {
		inside = func() { isig, imsg = dispatchOps(c) }
	}
	transport.RegisterContextDialer(blockScheme, inflightStub{entered, inside})
	go func() {
		conn, err := transport.DialURL(&transport.URL{Scheme: blockScheme, Target: "N0CALL"})
		done <- resultID(conn, err)
	}()
	got := -99
	hung, _ := harness.Watch(30*time.Second, func() {
		<-entered
		if !c.Reentrant {
			isig, imsg = dispatchOps(c)
			close(release)
		}
		got = <-done
	})
	if hung {
		who := "a second goroutine"
		if c.Reentrant {
			who = "the dialer itself (wrapper scheme)"
		}
		harness.Record("registry-call-blocked-by-inflight-dial", c, fmt.Sprintf("while a dial of %q was in progress, %s made the registry calls %+v; they did not all return within 30 s of scheduled time (the registry lock is held across the dial?)", blockScheme, who, c.Ops))
		harness.ExitHung() // the registry may be locked for good: no further case can run in this process
	}
	transport.UnregisterDialer(blockScheme)
	clearRegistry()
	if isig != "" {
		return isig, "during an in-flight dial: " + imsg
	}
	if got != 7000 {
		return "dispatch-wrong-dialer", fmt.Sprintf("the in-flight dial of %q returned the result of %d, want its own dialer's (7000)", blockScheme, got)
	}
	return "", ""
}

func dispatchOps(c Case) (sig, msg string) {
	rec := &recorder{}
	model := map[string]int{}
	token := &struct{ int }{9}
	ctx := context.WithValue(context.Background(), ctxKey{}, token)
	for i, op := range c.Ops {
		s := regSchemes[op.Scheme%len(regSchemes)]
		switch op.Kind {
		case opRegPlain, opRegCtx, opRegBoth:
			register(op.Kind, s, i, rec)
			model[s] = i
		case opUnreg:
			transport.UnregisterDialer(s)
			delete(model, s)
		default:
			u := &transport.URL{Scheme: s, Target: "N0CALL"}
			n0 := len(rec.hits)
			var conn net.Conn
			var err error
			if op.Kind == opDialCtx {
				conn, err = transport.DialURLContext(ctx, u)
			} else {
				conn, err = transport.DialURL(u)
			}
			got := resultID(conn, err)
			want, registered := model[s]
			if !registered {
				want = -1
			}
			calls := rec.hits[n0:]
			if got != want || (registered && (len(calls) != 1 || calls[0].id != want || calls[0].u != u)) || (!registered && len(calls) != 0) {
				return "dispatch-wrong-dialer", fmt.Sprintf("op %d: dial %s returned the result of %d (err %v), stub calls %+v; the model says %d (-1 = ErrMissingDialer)", i, s, got, err, calls, want)
			}
			if registered && op.Kind == opDialCtx && calls[0].viaCtx && calls[0].token != any(token) {
				return "dispatch-context", fmt.Sprintf("op %d: DialURLContext did not hand the caller's context to the ContextDialer", i)
			}
		}
	}
	return "", ""
}

// ---- registry family (concurrent) -------------------------------------------------------------------

type cop struct {
	g, i   int
	kind   int
	scheme int
	id     int // registration id (register ops)
	s, e   int64
	got    int // dial ops: resultID
}

func (o cop) isWrite() bool { return o.kind <= opUnreg }
func (o cop) isReg() bool   { return o.kind <= opRegBoth }

func judgeRegistry(c Case, o *outcome) (sig, msg string) {
	clearRegistry()
	defer clearRegistry()
	var clock atomic.Int64
	start := make(chan struct{})
	var wg sync.WaitGroup
	logs := make([][]cop, len(c.Conc))
	panics := make([]string, len(c.Conc))
	for g := range c.Conc {
		wg.Add(1)
		go func(g int) {
			defer wg.Done()
			defer func() {
				if r := recover(); r != nil {
					panics[g] = fmt.Sprint(r)
				}
			}()
			<-start
			for i, op := range c.Conc[g] {
				for y := 0; y < op.Yield; y++ {
					runtime.Gosched()
				}
				s := regSchemes[op.Scheme%len(regSchemes)]
				r := cop{g: g, i: i, kind: op.Kind, scheme: op.Scheme % len(regSchemes), id: g*1000 + i}
				switch op.Kind {
				case opRegPlain, opRegCtx, opRegBoth:
					r.s = clock.Add(1)
					register(op.Kind, s, r.id, nil)
					r.e = clock.Add(1)
				case opUnreg:
					r.s = clock.Add(1)
					transport.UnregisterDialer(s)
					r.e = clock.Add(1)
				default:
					u := &transport.URL{Scheme: s, Target: "N0CALL"}
					var conn net.Conn
					var err error
					r.s = clock.Add(1)
					if op.Kind == opDialCtx {
						conn, err = transport.DialURLContext(context.Background(), u)
					} else {
						conn, err = transport.DialURL(u)
					}
					r.e = clock.Add(1)
					r.got = resultID(conn, err)
				}
				logs[g] = append(logs[g], r)
			}
		}(g)
	}
	close(start)
	wg.Wait()
	for g, p := range panics {
		if p != "" {
			return "registry-panic", fmt.Sprintf("goroutine %d panicked: %s", g, p)
		}
	}
	var all []cop
	for _, l := range logs {
		all = append(all, l...)
	}
	for _, d := range all {
		if d.isWrite() {
			continue
		}
		var writes []cop
		for _, w := range all {
			if w.isWrite() && w.scheme == d.scheme {
				writes = append(writes, w)
				if w.s < d.e && d.s < w.e {
					o.overlapped++
				}
			}
		}
		where := fmt.Sprintf("goroutine %d op %d: dial %s [%d,%d]", d.g, d.i, regSchemes[d.scheme], d.s, d.e)
		switch {
		case d.got >= 0:
			var reg *cop
			for k := range writes {
				if writes[k].isReg() && writes[k].id == d.got {
					reg = &writes[k]
				}
			}
			if reg == nil {
				return "registry-wrong-dialer", fmt.Sprintf("%s was answered by dialer %d, which was never registered for that scheme", where, d.got)
			}
			if reg.s >= d.e {
				return "registry-future-dialer", fmt.Sprintf("%s was answered by dialer %d, registered only at [%d,%d]", where, d.got, reg.s, reg.e)
			}
			for _, w := range writes {
				if (w.g != reg.g || w.i != reg.i) && reg.e < w.s && w.e < d.s {
					return "registry-stale-dialer", fmt.Sprintf("%s was answered by dialer %d (registered [%d,%d]) although goroutine %d op %d replaced/removed it at [%d,%d], before the dial began", where, d.got, reg.s, reg.e, w.g, w.i, w.s, w.e)
				}
			}
		case d.got == -1:
			ok := true
			for _, r := range writes { // initial (empty) state still possible?
				if r.isReg() && r.e < d.s {
					ok = false
				}
			}
			if !ok {
				for _, u := range writes { // some unregister that may be the latest write at the dial
					if u.kind != opUnreg || u.s >= d.e {
						continue
					}
					covered := false
					for _, r := range writes {
						if r.isReg() && u.e < r.s && r.e < d.s {
							covered = true
						}
					}
					if !covered {
						ok = true
						break
					}
				}
			}
			if !ok {
				return "registry-missing-but-registered", fmt.Sprintf("%s returned ErrMissingDialer although a registration completed before it began and no unregistration can explain it", where)
			}
		default:
			return "registry-unexpected-result", fmt.Sprintf("%s returned neither a stub's answer nor ErrMissingDialer", where)
		}
	}
	return "", ""
}

func run(c Case) (sig, msg string, o outcome) {
	psig, pmsg := harness.Catch(func() {
		switch c.Family {
		case "component":
			sig, msg = judgeComponent(c, &o)
		case "raw", "mutated":
			sig, msg = judgeRaw(c, &o)
		case "dispatch":
			sig, msg = judgeDispatch(c, &o)
		case "registry":
			sig, msg = judgeRegistry(c, &o)
		case "inflight":
			sig, msg = judgeInflight(c, &o)
		}
	})
	if psig != "" {
		clearRegistry()
		return psig, pmsg, o
	}
	return
}

// ---- generators ---------------------------------------------------------------------------------

var (
	callChars = []rune("ABCDEFGHIJKLMNOPQRSTUVWXYZabcdefghijklmnopqrstuvwxyz0123456789-")
	hostChars = []rune("abcdefghijklmnopqrstuvwxyzABCDEFGHIJKLMNOPQRSTUVWXYZ0123456789._-")
	freeChars = []rune(" !\"#$%&'()*+,-./:;<=>?@[\\]^_`{|}~ABCxyz0189\t\n\x00\x7fæøåÆØÅé€ñ😀")
	specials  = []byte(":/?#[]@%&=+;! \x00\r\n\t\\\"'<>{}|^`~.-_\x7f\x80\xff")
)

func genCall(t *rapid.T, label string) string {
	if rapid.IntRange(0, 3).Draw(t, label+"_real") == 0 {
		return rapid.StringMatching(`[A-Za-z]{1,2}[0-9][A-Za-z]{1,3}(-1?[0-9])?`).Draw(t, label)
	}
	n := rapid.SampledFrom([]int{1, 2, 3, 3, 4, 5, 6, 6, 7, 8, 9, 9}).Draw(t, label+"_len")
	return rapid.StringOfN(rapid.RuneFrom(callChars), n, n, -1).Draw(t, label)
}

func genFree(t *rapid.T, label string, minLen int) string {
	if rapid.Bool().Draw(t, label+"_any") {
		return rapid.StringN(minLen, 12, -1).Draw(t, label)
	}
	return rapid.StringOfN(rapid.RuneFrom(freeChars), minLen, 12, -1).Draw(t, label)
}

func genHost(t *rapid.T, label string) string {
	name := func() string { return rapid.StringOfN(rapid.RuneFrom(hostChars), 1, 16, -1).Draw(t, label+"_name") }
	switch rapid.IntRange(0, 5).Draw(t, label+"_kind") {
	case 0, 1:
		return ""
	case 2:
		return name()
	case 3:
		return fmt.Sprintf("%s:%d", name(), rapid.IntRange(0, 65535).Draw(t, label+"_port"))
	case 4:
		return rapid.SampledFrom([]string{"axport", "0", "server.winlink.org:8772", "localhost:8515", "192.168.1.10:8000", "WL2K"}).Draw(t, label+"_known")
	default:
		v6 := rapid.SampledFrom([]string{"[::1]", "[fe80::1]", "[2001:db8::8a2e:370:7334]", "[::FFFF:192.0.2.1]"}).Draw(t, label+"_v6")
		if rapid.Bool().Draw(t, label+"_v6port") {
			return fmt.Sprintf("%s:%d", v6, rapid.IntRange(1, 65535).Draw(t, label+"_port"))
		}
		return v6
	}
}

func genComp(t *rapid.T) *Comp {
	k := &Comp{Scheme: rapid.SampledFrom(schemes).Draw(t, "scheme")}
	if rapid.Bool().Draw(t, "has_user") {
		k.HasUser = true
		if rapid.Bool().Draw(t, "user_call") {
			k.User = genCall(t, "user")
		} else {
			k.User = genFree(t, "user", 1)
		}
		if rapid.Bool().Draw(t, "has_pass") {
			k.HasPass = true
			k.Pass = genFree(t, "pass", 0)
		}
	}
	k.Host = genHost(t, "host")
	nd := rapid.SampledFrom([]int{0, 0, 0, 1, 1, 2, 2, 3, 5, 8}).Draw(t, "ndigis")
	if noDigiScheme(k.Scheme) && rapid.IntRange(0, 3).Draw(t, "keep_digis") > 0 {
		nd = 0
	}
	for i := 0; i < nd; i++ {
		k.Digis = append(k.Digis, genCall(t, "digi"))
	}
	k.Target = genCall(t, "target")
	if rapid.IntRange(0, 5).Draw(t, "enc_path") == 0 {
		k.EncPath = rapid.Uint32Range(1, 1<<32-1).Draw(t, "enc_bits")
	}
	if rapid.IntRange(0, 11).Draw(t, "empty_target") == 0 {
		k.Target = "" // the URL ends in "/": a target of zero characters (shorter than three) after the digi path
	}
	for i, n := 0, rapid.SampledFrom([]int{0, 0, 1, 2, 3}).Draw(t, "nparams"); i < n; i++ {
		key := rapid.StringMatching(`[a-z_]{1,8}`).Draw(t, "key")
		if key == "host" {
			key = "hosts"
		}
		val := ""
		switch rapid.IntRange(0, 2).Draw(t, "val_kind") {
		case 0:
			val = rapid.SampledFrom([]string{"", "2m", "9600", "500MAX", "true", "/dev/ttyUSB0", "a b", "a+b", "x=y&z", "100%"}).Draw(t, "val")
		default:
			val = genFree(t, "val", 0)
		}
		k.Params = append(k.Params, Param{key, val})
	}
	if rapid.IntRange(0, 3).Draw(t, "has_host_param") == 0 {
		if rapid.Bool().Draw(t, "host_param_known") {
			k.HostParam = rapid.SampledFrom([]string{"/dev/ttyS0", "ax0", "COM3", "192.168.1.2:8000", "[::1]:8515", "My Port"}).Draw(t, "host_param")
		} else {
			k.HostParam = genFree(t, "host_param", 1)
		}
		k.HostPos = rapid.IntRange(0, len(k.Params)).Draw(t, "host_pos")
	}
	k.Dial = rapid.IntRange(0, 4).Draw(t, "dial")
	k.Used = rapid.Bool().Draw(t, "used")
	return k
}

func genOps(t *rapid.T, label string, maxN int, yields bool) []Op {
	n := rapid.IntRange(1, maxN).Draw(t, label+"_n")
	ops := make([]Op, n)
	for i := range ops {
		ops[i].Kind = rapid.SampledFrom([]int{opRegPlain, opRegCtx, opRegBoth, opUnreg, opUnreg, opDial, opDial, opDial, opDialCtx}).Draw(t, label+"_kind")
		ops[i].Scheme = rapid.SampledFrom([]int{0, 0, 0, 1, 2}).Draw(t, label+"_scheme")
		if yields {
			ops[i].Yield = rapid.SampledFrom([]int{0, 0, 0, 1, 2, 5}).Draw(t, label+"_yield")
		}
	}
	return ops
}

func mutate(t *rapid.T, b []byte) []byte {
	b = append([]byte(nil), b...)
	for i, n := 0, rapid.IntRange(1, 3).Draw(t, "edits"); i < n; i++ {
		pos := rapid.IntRange(0, len(b)).Draw(t, "pos")
		ch := rapid.SampledFrom(specials).Draw(t, "byte")
		switch rapid.IntRange(0, 4).Draw(t, "edit") {
		case 0: // insert
			b = append(b[:pos:pos], append([]byte{ch}, b[pos:]...)...)
		case 1: // replace
			if pos < len(b) {
				b[pos] = ch
			}
		case 2: // delete
			if pos < len(b) {
				b = append(b[:pos:pos], b[pos+1:]...)
			}
		case 3: // truncate
			b = b[:pos]
		default: // duplicate a slice (e.g. a second "://", "@" or "?")
			end := min(len(b), pos+rapid.IntRange(1, 6).Draw(t, "dup"))
			b = append(b[:end:end], append(append([]byte(nil), b[pos:end]...), b[end:]...)...)
		}
	}
	return b
}

func genCase(t *rapid.T) Case {
	var c Case
	switch k := rapid.IntRange(0, 20).Draw(t, "family"); {
	case k == 20:
		c.Family = "inflight"
		c.Ops = genOps(t, "op", 8, false)
		c.Reentrant = rapid.Bool().Draw(t, "reentrant")
	case k < 10:
		c.Family = "component"
		c.Comp = genComp(t)
		c.Raw = []byte(c.Comp.render())
	case k < 13:
		c.Family = "raw"
		switch rapid.IntRange(0, 2).Draw(t, "raw_kind") {
		case 0:
			c.Raw = []byte(rapid.String().Draw(t, "raw"))
		case 1:
			c.Raw = rapid.SliceOfN(rapid.Byte(), 0, 64).Draw(t, "raw")
		default:
			c.Raw = rapid.SliceOfN(rapid.SampledFrom(append([]byte("axtelnrdop25ABZ09"), specials...)), 0, 40).Draw(t, "raw")
		}
	case k < 16:
		c.Family = "mutated"
		c.Raw = mutate(t, []byte(genComp(t).render()))
	case k < 18:
		c.Family = "dispatch"
		c.Ops = genOps(t, "op", 14, false)
	default:
		c.Family = "registry"
		for g, n := 0, rapid.IntRange(2, 6).Draw(t, "goroutines"); g < n; g++ {
			c.Conc = append(c.Conc, genOps(t, fmt.Sprintf("g%d", g), 16, true))
		}
	}
	if c.Raw != nil {
		c.Text = fmt.Sprintf("%q", c.Raw)
	}
	return c
}

// ---- accounting ---------------------------------------------------------------------------------

func account(c Case, o outcome) {
	harness.Eval()
	harness.Label("family:" + c.Family)
	switch c.Family {
	case "component":
		k := c.Comp
		harness.Label("component:" + o.class)
		if k.Used {
			harness.Label("component:earlier-results-modified-by-caller")
		}
		if len(k.Digis) > 0 || k.HasUser || len(k.Params) > 0 || k.HostParam != "" {
			harness.NonTrivial(harness.Hash(c.Raw, k.Dial, k.Used))
			harness.Label("nontrivial")
		}
		switch n := len(k.Digis); {
		case n == 0:
			harness.Label("digis:0")
		case n == 1:
			harness.Label("digis:1")
		default:
			harness.Label("digis:2+")
		}
		if k.HasUser {
			harness.Label("userinfo")
			if pct(k.User) != k.User || pct(k.Pass) != k.Pass {
				harness.Label("userinfo:needs-escaping")
			}
		}
		if len(k.Params) > 0 {
			harness.Label("query")
		}
		if k.HostParam != "" {
			harness.Label("host-param")
		}
		if strings.HasPrefix(k.Host, "[") {
			harness.Label("host:v6")
		} else if k.Host == "" {
			harness.Label("host:empty")
		} else if strings.Contains(k.Host, ":") {
			harness.Label("host:port")
		}
		if o.class == "ok" && k.Dial != 0 {
			harness.Label(fmt.Sprintf("dial-mode:%d", k.Dial))
		}
		if harness.WantSample() && len(k.Digis) > 1 && k.HasUser && o.class == "ok" {
			harness.Sample(map[string]any{"url": string(c.Raw), "components": k})
		}
	case "raw", "mutated":
		harness.Label(c.Family + ":" + o.class)
		if o.parsedByURL {
			harness.NonTrivial(harness.Hash(c.Raw))
			harness.Label("nontrivial")
		}
	case "inflight":
		harness.NonTrivial(harness.Hash("inflight", c.Reentrant, fmt.Sprint(c.Ops)))
		harness.Label("nontrivial")
		if c.Reentrant {
			harness.Label("inflight:calls-from-inside-the-dialer")
		} else {
			harness.Label("inflight:calls-from-a-second-goroutine")
		}
	case "dispatch":
		for _, op := range c.Ops {
			if op.Kind >= opDial {
				harness.NonTrivial(harness.Hash(fmt.Sprint(c.Ops)))
				harness.Label("nontrivial")
				break
			}
		}
	case "registry":
		type gs struct{ g, s int }
		dials, writes := map[gs]bool{}, map[gs]bool{}
		for g, ops := range c.Conc {
			for _, op := range ops {
				if op.Kind >= opDial {
					dials[gs{g, op.Scheme}] = true
				} else {
					writes[gs{g, op.Scheme}] = true
				}
			}
		}
		nt := false
		for d := range dials {
			for w := range writes {
				if d.s == w.s && d.g != w.g {
					nt = true
				}
			}
		}
		if nt {
			harness.NonTrivial(harness.Hash(fmt.Sprint(c.Conc)))
			harness.Label("nontrivial")
		}
		if o.overlapped > 0 {
			harness.Label("registry:a-dial-overlapped-a-write(observed)")
		}
	}
}

func TestProp(t *testing.T) {
	rapid.Check(t, func(t *rapid.T) {
		c := genCase(t)
		sig, msg, o := run(c) // ParseURL/DialURL run in this goroutine; panics are caught in run
		account(c, o)
		if sig != "" {
			harness.Fail(t, sig, c, "%s", msg)
		}
	})
}

func TestReplay(t *testing.T) {
	for _, f := range harness.ReplayFiles() {
		var c Case
		if _, err := harness.ReplayCase(f, &c); err != nil {
			t.Fatalf("%s: %v", f, err)
		}
		sig, msg, _ := run(c)
		harness.Eval()
		if sig != "" {
			harness.Fail(t, sig, c, "replay %s: %s", f, msg)
		}
	}
}
