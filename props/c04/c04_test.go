// C04 — a transfer damaged in transit is never delivered as a good message.
package c04

import (
	"bytes"
	"fmt"
	"strings"
	"sync"
	"testing"

	"pgregory.net/rapid"

	"verif/internal/gen"
	"verif/internal/harness"
	"verif/internal/msggen"
	"verif/internal/ref/b2f"
	"verif/internal/scen"
	"verif/internal/stream"
)

func TestMain(m *testing.M) {
	harness.Property("C04",
		"per generated scenario (one or two messages A->B, LZHUF or gzip proposals, generated read schedules) the clean A->B byte stream is recorded and every SOH..EOT frame located by the reference frame parser; then alterations of the frame bytes are ENUMERATED and applied in transit: every offset x {+1, ^0x80, one seeded value} substitution (inside the frame header also NUL, '0' and '9' at every byte; subjects ending in digits are generated), all 255 substitutions at every structural byte (SOH, header length, NULs, offset digits, STX, block lengths, EOT, checksum), every single-byte deletion, one seeded insertion per offset, and checksum-compensating pairs (+d at i, -d at j; d in {1,2,0x10,0x80}) over all pairs within the last 32 payload bytes plus a seeded sample of all pairs, every value at each of the six payload-header bytes (CRC-16, size) with the block checksum compensated at another byte, and both CRC bytes forced to 0000/ffff/00ff with one compensation. Each worker enumerates one scenario completely and then 10 (thorough: 30) further scenarios with the cheap part of the enumeration only (frame header bytes, EOT and checksum with all values, every 40th other byte, block-level alterations, 20 pairs). An independent judge (reference frame parser + strict LZHUF/gzip decoder + CRC-16 + sizes) classifies each altered frame. Non-trivial = alteration the judge rejects; distinct by hash(scenario, alteration).",
		"alterations the independent judge accepts as a fully valid frame of the same proposal (e.g. a change confined to the title text) only have to be delivered byte-identical or not at all",
	)
	harness.Main(m)
}

type Case struct {
	Sc    scen.Scenario `json:"scenario"`
	Edits []stream.Edit `json:"edits"`
	MID   string        `json:"mid"`
}

type frameInfo struct {
	start, end int
	mid        string
	code       byte
	usize      int
	csize      int
	parsed     b2f.Parsed
}

// locate finds the frames in A's written stream.
func locate(w []byte) ([]frameInfo, error) {
	type prop struct {
		mid          string
		code         byte
		usize, csize int
	}
	var props []prop
	var frames []frameInfo
	i := 0
	for i < len(w) {
		if w[i] == b2f.SOH {
			p, err := b2f.ParseFrame(w[i:])
			if err != nil {
				return nil, fmt.Errorf("clean stream: frame at %d does not parse: %v", i, err)
			}
			frames = append(frames, frameInfo{start: i, end: i + p.Len, parsed: p})
			i += p.Len
			continue
		}
		j := bytes.IndexByte(w[i:], '\r')
		if j < 0 {
			break
		}
		line := string(w[i : i+j])
		var code byte
		var typ, mid string
		var us, cs, z int
		if n, _ := fmt.Sscanf(line, "F%c %s %s %d %d %d", &code, &typ, &mid, &us, &cs, &z); n == 6 && (code == 'C' || code == 'D') {
			props = append(props, prop{mid, code, us, cs})
		}
		i += j + 1
	}
	// frames are sent in proposal order for the accepted proposals; match by compressed size
	pi := 0
	for k := range frames {
		for pi < len(props) && props[pi].csize != len(frames[k].parsed.Data) {
			pi++
		}
		if pi == len(props) {
			return nil, fmt.Errorf("frame %d matches no proposal", k)
		}
		frames[k].mid, frames[k].code, frames[k].usize, frames[k].csize = props[pi].mid, props[pi].code, props[pi].usize, props[pi].csize
		pi++
	}
	return frames, nil
}

func apply(w []byte, edits []stream.Edit) []byte {
	var out []byte
	for off, b := range w {
		drop := false
		for _, e := range edits {
			if int(e.Off) != off {
				continue
			}
			switch e.Kind {
			case "sub":
				b = e.Val
			case "del":
				drop = true
			case "ins":
				out = append(out, e.Val)
			}
		}
		if !drop {
			out = append(out, b)
		}
	}
	return out
}

type result struct {
	judgeRejects  bool
	sumPreserving bool
	collision     bool // judge accepts the altered frame and decodes it to other bytes than the sender's (CRC-16 collision)
	boundaryMoved bool // frame itself still fully valid, but the bytes after it are not the original continuation
}

// runClean returns A's stream and the frames, or an error signature.
func runClean(sc scen.Scenario) (w []byte, frames []frameInfo, sa *scen.Station, sig, msg string) {
	sa, err := scen.NewStation(sc.A)
	if err != nil {
		return nil, nil, nil, "harness-generator", err.Error()
	}
	sb, err := scen.NewStation(sc.B)
	if err != nil {
		return nil, nil, nil, "harness-generator", err.Error()
	}
	out := scen.RunSession(sc, sa, sb, scen.Hooks{})
	if out.Hung || out.A.PSig != "" || out.B.PSig != "" || out.A.Err != nil || out.B.Err != nil {
		return nil, nil, nil, "clean-run-failed", fmt.Sprintf("clean exchange failed: hung=%v A=%v/%s B=%v/%s", out.Hung, out.A.Err, out.A.PSig, out.B.Err, out.B.PSig)
	}
	// also without any alteration the handler must get exactly what the sender compressed
	for mid, copies := range sb.Box.Inbox {
		for _, cp := range copies {
			if !bytes.Equal(cp, sa.Bytes[mid]) {
				return nil, nil, nil, "damaged-message-delivered", fmt.Sprintf("UNALTERED transfer: message %s was handed to the inbound handler with content that differs from what the sender compressed (%d vs %d bytes, first difference at byte %d)", mid, len(cp), len(sa.Bytes[mid]), firstDiff(cp, sa.Bytes[mid]))
			}
		}
	}
	w = out.EndA.Written()
	frames, err = locate(w)
	if err != nil {
		return nil, nil, nil, "harness-locate", err.Error()
	}
	return w, frames, sa, "", ""
}

func run(c Case, clean []byte, frames []frameInfo) (sig, msg string, r result) {
	if clean == nil {
		var s, m string
		clean, frames, _, s, m = runClean(c.Sc)
		if s != "" {
			return s, m, r
		}
	}
	var fi *frameInfo
	for k := range frames {
		if frames[k].mid == c.MID {
			fi = &frames[k]
		}
	}
	if fi == nil {
		return "harness-locate", "no frame for " + c.MID, r
	}
	// ---- independent judge -----------------------------------------------------------------
	altered := apply(clean, c.Edits)
	var judged []byte
	var jerr error
	if fi.start < len(altered) {
		p, err := b2f.ParseFrameLax(altered[fi.start:])
		if err != nil {
			jerr = err
		} else {
			judged, jerr = b2f.JudgeLax(altered[fi.start:fi.start+p.Len], fi.code, fi.usize, fi.csize)
			if jerr == nil && len(judged) != fi.usize {
				jerr = fmt.Errorf("decoded %d bytes, proposal announced %d", len(judged), fi.usize)
			}
			// NOTE: a frame that is still completely valid at its original position is NOT rejected merely
			// because the bytes after it changed (e.g. an inserted byte equal to the checksum byte in front of
			// it, or a deleted checksum byte followed by an equal byte): the property speaks about the frame's own
			// checksum/length/header/CRC/size, all of which hold, so delivering that message is correct. Damage
			// to what follows is judged by the frame it hits (and by the byte-identity rule below).
			if jerr == nil && !bytes.Equal(altered[fi.start+p.Len:], clean[fi.end:]) {
				r.boundaryMoved = true
			}
		}
	} else {
		jerr = fmt.Errorf("frame removed")
	}
	r.judgeRejects = jerr != nil
	// ---- the real thing ------------------------------------------------------------------------
	sa, err := scen.NewStation(c.Sc.A)
	if err != nil {
		return "harness-generator", err.Error(), r
	}
	sb, _ := scen.NewStation(c.Sc.B)
	out := scen.RunSession(c.Sc, sa, sb, scen.Hooks{Link: func(a, b *stream.End) { a.Tamper(c.Edits) }})
	if out.Hung {
		harness.Record("hang:exchange-"+out.HangKind, c, fmt.Sprintf("Exchange did not return after alteration %v", c.Edits))
		harness.ExitHung()
	}
	if out.A.PSig != "" {
		return out.A.PSig, "sender: " + out.A.Panic, r
	}
	if out.B.PSig != "" {
		return out.B.PSig, "receiver: " + out.B.Panic, r
	}
	want := sa.Bytes[c.MID]
	got := sb.Box.Inbox[c.MID]
	// whatever happened: anything delivered must be exactly what the sender compressed
	for mid, copies := range sb.Box.Inbox {
		for _, cp := range copies {
			if mid == c.MID && jerr == nil && bytes.Equal(cp, judged) && !bytes.Equal(cp, sa.Bytes[mid]) {
				// the altered frame is fully valid for the independent reference too and decodes to exactly
				// these bytes (a CRC-16 collision: about 2^-16 of the enumerated CRC-field alterations) - the
				// property excludes "alterations an independent B2F/LZHUF reference also accepts as fully valid"
				r.collision = true
				continue
			}
			if !bytes.Equal(cp, sa.Bytes[mid]) {
				return "damaged-message-delivered", fmt.Sprintf("alteration %v (judge: %v): message %s was handed to the inbound handler with content that differs from what the sender compressed (%d vs %d bytes); receiver err=%v", c.Edits, jerr, mid, len(cp), len(sa.Bytes[mid]), out.B.Err), r
			}
		}
	}
	if !r.judgeRejects {
		// fully valid according to the reference: delivered identical (checked above) or not at all
		_ = want
		return "", "", r
	}
	if len(got) != 0 {
		return "altered-transfer-delivered", fmt.Sprintf("alteration %v invalidates the frame (%v) but the message was delivered", c.Edits, jerr), r
	}
	if out.B.Err == nil {
		return "receiver-did-not-fail", fmt.Sprintf("alteration %v invalidates the frame (%v) but the receiving Exchange returned nil", c.Edits, jerr), r
	}
	if sa.Box.Sent[c.MID] != 0 {
		return "sender-recorded-sent", fmt.Sprintf("alteration %v invalidates the frame (%v) but the sender recorded %s as sent", c.Edits, jerr, c.MID), r
	}
	return "", "", r
}

func firstDiff(a, b []byte) int {
	i := 0
	for i < len(a) && i < len(b) && a[i] == b[i] {
		i++
	}
	return i
}

func genScenario(t *rapid.T) scen.Scenario {
	used := map[string]bool{}
	sc := scen.Scenario{AIsMaster: rapid.Bool().Draw(t, "a_master"), Gzip: rapid.IntRange(0, 3).Draw(t, "gzip") == 0}
	sc.A = scen.Side{Call: "LA5NTA", Sched: gen.Schedule(t, "schedA"), Batched: rapid.Bool().Draw(t, "batchedA")}
	sc.B = scen.Side{Call: "N0CALL", Sched: gen.Schedule(t, "schedB"), Batched: rapid.Bool().Draw(t, "batchedB")}
	n := rapid.IntRange(1, 2).Draw(t, "n")
	big := harness.Scale(300, 1500)
	if rapid.IntRange(0, 3).Draw(t, "fill_boundary") == 0 {
		// one message whose LZHUF stream ends exactly on a 4096-byte boundary of the decoder's input buffer
		// (compressed size 6 + k*4096) or one byte off: surplus bytes after it are invisible to a reader that
		// only checksums what it has pulled in. Judged with the structural and sampled alterations only.
		sc.Gzip = false
		spec := msggen.Gen(t, used, "LA5NTA", "N0CALL", 200)
		spec.Files, spec.Body = nil, ""
		sm := gen.NewSM(rapid.Uint64().Draw(t, "fill_seed"))
		spec.RawBody = make([]byte, 3600+sm.Intn(300))
		for i := range spec.RawBody {
			spec.RawBody[i] = byte(sm.Next())
		}
		spec.Tune(4096, []int{6, 6, 5, 7}[rapid.IntRange(0, 3).Draw(t, "fill_res")])
		sc.A.Queue = append(sc.A.Queue, spec)
		return sc
	}
	for i := 0; i < n; i++ {
		spec := msggen.Gen(t, used, "LA5NTA", "N0CALL", big)
		if len(spec.RawBody) > big {
			spec.RawBody = spec.RawBody[:big]
		}
		if len(spec.Files) > 1 {
			spec.Files = spec.Files[:1]
		}
		for j := range spec.Files {
			if len(spec.Files[j].Data) > 200 {
				spec.Files[j].Data = spec.Files[j].Data[:200]
			}
		}
		sc.A.Queue = append(sc.A.Queue, spec)
	}
	return sc
}

var warm sync.Once

// warmUp: the receiving process has handled traffic before (one clean transfer of a 3 KiB text message), so that
// whatever state the library carries from one decompression to the next is not in its pristine condition.
func warmUp() {
	warm.Do(func() {
		body := strings.Repeat("The quick brown fox jumps over the lazy dog 0123456789.\r\n", 60)
		sc := scen.Scenario{A: scen.Side{Call: "LA5NTA", Sched: []int{4096}, Queue: []msggen.Spec{{MID: "WARMUP000001", From: "LA5NTA", To: []string{"N0CALL"}, Subject: "warm up", Body: body, Minute: 1}}}, B: scen.Side{Call: "N0CALL", Sched: []int{4096}}}
		sa, err := scen.NewStation(sc.A)
		if err != nil {
			return
		}
		sb, _ := scen.NewStation(sc.B)
		scen.RunSession(sc, sa, sb, scen.Hooks{})
	})
}

func TestProp(t *testing.T) {
	rapid.Check(t, func(t *rapid.T) {
		warmUp()
		// one scenario with the complete enumeration, then many scenarios (other titles, sizes, block shapes, second
		// messages) with the cheap part of it only: frame header, structural bytes and block-level alterations
		sc := genScenario(t)
		sm := gen.NewSM(rapid.Uint64().Draw(t, "seed"))
		if !explore(t, sc, sm, false) {
			return
		}
		for i, n := 0, harness.Scale(10, 30); i < n; i++ {
			if !explore(t, genScenario(t), sm, true) {
				return
			}
		}
	})
}

// explore enumerates the alterations of every frame of one scenario; light = header, structural and block-level
// alterations only. It reports false after a violation.
func explore(t *rapid.T, sc scen.Scenario, sm *gen.SM, light bool) bool {
	{
		clean, frames, _, sig, msg := runClean(sc)
		harness.Eval()
		if sig != "" {
			harness.Fail(t, sig, Case{Sc: sc}, "%s", msg)
			return false
		}
		if light {
			harness.Label("scenario:light(header, structural bytes, block-level alterations)")
		} else {
			harness.Label("scenario:full-enumeration")
		}
		key := harness.Hash(fmt.Sprintf("%+v", sc))
		for _, f := range frames {
			var alts [][]stream.Edit
			structural := map[int]bool{}
			for _, o := range f.parsed.StructOffsets {
				structural[f.start+o] = true
			}
			bigFrame := f.end-f.start > 2000
			if tl := f.parsed.Title; len(tl) > 1 && tl[len(tl)-1] == '0' {
				harness.Label("frame:title-ends-in-0(reads as an offset when the title is cut)")
			}
			nBytes := 0
			for off := f.start; off < f.end; off++ {
				if bigFrame && !structural[off] && sm.Intn(12) != 0 {
					continue // big frames: structural bytes completely, every 12th other byte (seeded)
				}
				inHeader := off < f.start+2+int(f.parsed.LenByte)
				if light && !inHeader && !(structural[off] && off >= f.end-2) && sm.Intn(40) != 0 {
					continue // light: the frame header, EOT and checksum, and every 40th other byte (seeded)
				}
				nBytes++
				orig := clean[off]
				vals := []byte{orig + 1, orig ^ 0x80, byte(sm.Next())}
				if off >= f.start+2 && off < f.start+2+int(f.parsed.LenByte) {
					// inside the frame header (title NUL offset NUL): the field separator and a digit at every byte, so
					// that a title cut in two, or a title whose tail reads as an offset, is among the alterations
					vals = append(vals, 0x00, '0', '9')
				}
				// all 255 values at structural bytes; in big frames only at the frame header, the first two and the
				// last two blocks' STX/length bytes, EOT and checksum (the other block headers get the three values)
				if structural[off] && (!light || off >= f.end-2) && (!bigFrame || off < f.start+2+int(f.parsed.LenByte)+2*(2+125) || off >= f.end-2-2*(2+125)) {
					vals = vals[:0]
					for v := 0; v < 256; v++ {
						vals = append(vals, byte(v))
					}
				}
				seen := map[byte]bool{orig: true}
				for _, v := range vals {
					if !seen[v] {
						seen[v] = true
						alts = append(alts, []stream.Edit{{Off: int64(off), Kind: "sub", Val: v}})
					}
				}
				alts = append(alts, []stream.Edit{{Off: int64(off), Kind: "del"}})
				alts = append(alts, []stream.Edit{{Off: int64(off), Kind: "ins", Val: byte(sm.Next())}})
			}
			// checksum-compensating pairs inside the data blocks
			var dataOffs []int
			var hdrOffs []int // offset of the STX byte of every block
			pos := f.start + 2 + int(f.parsed.LenByte)
			for _, n := range f.parsed.Chunks {
				hdrOffs = append(hdrOffs, pos)
				for k := 0; k < n; k++ {
					dataOffs = append(dataOffs, pos+2+k)
				}
				pos += 2 + n
			}
			eot := pos // offset of the EOT byte
			// structural, checksum-neutral alterations of the block sequence (the 8-bit block checksum cannot see
			// them; the declared compressed length, and for content changes the CRC-16, must)
			nStruct := len(alts)
			zeroSum := [][]byte{{0}, {0x5A, 0xA6}, {1, 2, 0xFD}}
			insBlock := func(at int, data []byte) {
				ed := []stream.Edit{{Off: int64(at), Kind: "ins", Val: b2f.STX}, {Off: int64(at), Kind: "ins", Val: byte(len(data))}}
				for _, b := range data {
					ed = append(ed, stream.Edit{Off: int64(at), Kind: "ins", Val: b})
				}
				alts = append(alts, ed)
			}
			if len(hdrOffs) > 0 {
				for _, z := range zeroSum {
					insBlock(eot, z)        // an extra block in front of EOT
					insBlock(hdrOffs[0], z) // an extra block in front of the first block
					// the last / first block made longer by len(z) bytes that sum to zero
					for _, h := range []int{hdrOffs[len(hdrOffs)-1], hdrOffs[0]} {
						n := int(clean[h+1])
						if n == 0 || n+len(z) > 255 {
							continue
						}
						end := h + 2 + n // first byte after the block's data
						ed := []stream.Edit{{Off: int64(h + 1), Kind: "sub", Val: byte(n + len(z))}}
						for _, b := range z {
							ed = append(ed, stream.Edit{Off: int64(end), Kind: "ins", Val: b})
						}
						alts = append(alts, ed)
					}
				}
				// the last block shortened by its final byte, the sum repaired in the byte before
				if h := hdrOffs[len(hdrOffs)-1]; int(clean[h+1]) > 2 {
					n := int(clean[h+1])
					last := h + 2 + n - 1
					alts = append(alts, []stream.Edit{{Off: int64(h + 1), Kind: "sub", Val: byte(n - 1)}, {Off: int64(last), Kind: "del"}, {Off: int64(last - 1), Kind: "sub", Val: clean[last-1] + clean[last]}})
				}
				// two neighbouring blocks of equal length exchanged (sum unchanged, content changed)
				if len(hdrOffs) > 2 && clean[hdrOffs[0]+1] == clean[hdrOffs[1]+1] {
					n := int(clean[hdrOffs[0]+1])
					var ed []stream.Edit
					for k := 0; k < n; k++ {
						a, b := hdrOffs[0]+2+k, hdrOffs[1]+2+k
						if clean[a] != clean[b] {
							ed = append(ed, stream.Edit{Off: int64(a), Kind: "sub", Val: clean[b]}, stream.Edit{Off: int64(b), Kind: "sub", Val: clean[a]})
						}
					}
					if len(ed) > 0 {
						alts = append(alts, ed)
					}
				}
			}
			structuralAlts := map[int]bool{}
			for i := nStruct; i < len(alts); i++ {
				structuralAlts[i] = true
			}
			pair := func(i, j int, d byte) {
				alts = append(alts, []stream.Edit{{Off: int64(i), Kind: "sub", Val: clean[i] + d}, {Off: int64(j), Kind: "sub", Val: clean[j] - d}})
			}
			tail := dataOffs
			if len(tail) > 32 {
				tail = tail[len(tail)-32:]
			}
			if light {
				tail = nil
				if len(dataOffs) > 8 {
					for k := 0; k < 20; k++ { // a few sum-preserving pairs only
						a, b := sm.Intn(len(dataOffs)), sm.Intn(len(dataOffs))
						if a != b {
							pair(dataOffs[a], dataOffs[b], []byte{1, 2, 0x10, 0x80}[sm.Intn(4)])
						}
					}
				}
			}
			for a := 0; a < len(tail); a++ {
				for b := a + 1; b < len(tail); b++ {
					for _, d := range []byte{1, 2, 0x10, 0x80} {
						pair(tail[a], tail[b], d)
					}
				}
			}
			for k := 0; !light && k < harness.Scale(300, 3000) && len(dataOffs) > 1; k++ {
				a, b := sm.Intn(len(dataOffs)), sm.Intn(len(dataOffs))
				if a != b {
					pair(dataOffs[a], dataOffs[b], []byte{1, 2, 0x10, 0x80}[sm.Intn(4)])
				}
			}
			// payload header (CRC-16, size): every value at each of its six bytes, with the block checksum
			// compensated at another data byte; and both CRC bytes forced to a constant with one compensation
			if !light && len(dataOffs) > 8 {
				for h := 0; h < 6; h++ {
					for v := 0; v < 256; v++ {
						i := dataOffs[h]
						if byte(v) == clean[i] {
							continue
						}
						d := byte(v) - clean[i]
						for _, j := range []int{dataOffs[len(dataOffs)-1], dataOffs[6+sm.Intn(len(dataOffs)-6)]} {
							alts = append(alts, []stream.Edit{{Off: int64(i), Kind: "sub", Val: byte(v)}, {Off: int64(j), Kind: "sub", Val: clean[j] - d}})
						}
					}
				}
				for _, cv := range [][2]byte{{0, 0}, {0xff, 0xff}, {0, 0xff}} {
					i0, i1 := dataOffs[0], dataOffs[1]
					d := (cv[0] - clean[i0]) + (cv[1] - clean[i1])
					for k := 0; k < 8; k++ {
						j := dataOffs[6+sm.Intn(len(dataOffs)-6)]
						alts = append(alts, []stream.Edit{{Off: int64(i0), Kind: "sub", Val: cv[0]}, {Off: int64(i1), Kind: "sub", Val: cv[1]}, {Off: int64(j), Kind: "sub", Val: clean[j] - d}})
					}
				}
			}
			nsamp := 0
			for ai, edits := range alts {
				c := Case{Sc: sc, Edits: edits, MID: f.mid}
				harness.Begin(c)
				sig, msg, r := run(c, clean, frames)
				harness.End()
				harness.Eval()
				kind := edits[0].Kind
				if structuralAlts[ai] {
					kind = "structural(block inserted/lengthened/shortened/exchanged, sum preserved)"
				} else if len(edits) == 2 {
					kind = "sum-preserving-pair"
				} else if len(edits) == 3 {
					kind = "sum-preserving-triple(crc-field)"
				}
				if bigFrame {
					harness.Label("frame>2000-bytes(sampled byte alterations)")
				}
				if f.csize%4096 == 6 {
					harness.Label("compressed-size==6+k*4096")
				}
				harness.Label("alteration:" + kind)
				if r.judgeRejects {
					harness.NonTrivial(harness.Hash(key, fmt.Sprint(edits)))
					harness.Label("judge:rejects")
					if len(edits) >= 2 {
						harness.Label("sum_preserving(judge rejects)")
					}
				} else {
					harness.Label("judge:accepts-as-valid")
					if r.collision {
						harness.Label("judge:accepts-crc16-collision(delivered==reference decoding)")
					}
					if r.boundaryMoved {
						harness.Label("judge:accepts-frame-valid-continuation-damaged")
					}
				}
				if sig != "" {
					harness.Fail(t, sig, c, "%s", msg)
					return false
				}
				if harness.WantSample() && r.judgeRejects && nsamp < 2 && sm.Intn(500) == 0 {
					nsamp++
					harness.Sample(map[string]any{"mid": f.mid, "frame_bytes": f.end - f.start, "code": string(rune(f.code)), "alteration": edits, "frame_offset_in_stream": f.start, "alterations_enumerated_for_this_frame": len(alts)})
				}
			}
		}
	}
	return true
}

func TestReplay(t *testing.T) {
	for _, f := range harness.ReplayFiles() {
		var c Case
		if _, err := harness.ReplayCase(f, &c); err != nil {
			t.Fatalf("%s: %v", f, err)
		}
		harness.Begin(c)
		sig, msg, _ := run(c, nil, nil)
		harness.End()
		harness.Eval()
		if sig != "" {
			harness.Fail(t, sig, c, "replay %s: %s", f, msg)
		}
	}
}
