// C10 — the directory mailbox behaves like a simple mailbox model over any history.
package c10

import (
	"bytes"
	"fmt"
	"os"
	"path/filepath"
	"sort"
	"strings"
	"testing"

	"github.com/la5nta/wl2k-go/fbb"
	"github.com/la5nta/wl2k-go/mailbox"
	"pgregory.net/rapid"

	"verif/internal/harness"
	"verif/internal/mboxrun"
	ref "verif/internal/ref/mbox"
)

func TestMain(m *testing.M) {
	harness.Property("C10",
		"generated: histories from a rapid state machine (t.Repeat, ~30 steps) over 6 MIDs, 4 recipient identities in 3..4 spellings each, 4 forwarder lists (none=CMS, one call, two calls, other case / @winlink.org / raw lower-case Address), P2P-only flag, attachments, normal and send-only handlers; actions AddOut, Prepare, GetOutbound(fws), SetSent, SetDeferred, ProcessInbound, GetInboundAnswer, SetUnread(true|false) on a freshly listed message of any folder, explicit listing, restart (new DirHandler on the same directory + Prepare, possibly in the other mode); after EVERY step all four folders (membership, bytes modulo private headers, unread flags) and the four counts are compared with the reference model. Exhaustive: every valid action sequence of length L over 2 MIDs, 3 outbound message shapes and 2 forwarder lists (19 actions), with GetOutbound for both lists and the answers for both MIDs observed after every step. Non-trivial = history with a GetOutbound after at least one of {SetSent, SetDeferred followed by Prepare, restart}; distinct by hash of the step list.",
		"handler calls follow the documented order and what every caller does: Prepare first, SetDeferred/SetSent only for a MID in the outbox (SetSent otherwise ends the process with log.Fatalf), a new outbound message has a MID that is neither in outbox nor sent, ProcessInbound only for a MID not in the inbox and not in send-only mode (the session never accepts such a proposal)",
		"SetUnread is applied to a message object listed immediately before (not to a stale one)",
		"reference model = internal/ref/mbox (four maps + deferred set + mode), written from the property statement",
	)
	harness.Main(m)
}

// ---- case -----------------------------------------------------------------------------------------

type Step struct {
	Op       string   `json:"op"` // add_out prepare get_outbound set_sent set_deferred process_inbound get_inbound_answer set_unread list restart
	MID      string   `json:"mid,omitempty"`
	Msg      *ref.Msg `json:"msg,omitempty"`
	Fws      []string `json:"fws,omitempty"`    // forwarders as announced ("raw:x" = fbb.Address{Addr: x} instead of AddressFromString)
	Folder   string   `json:"folder,omitempty"` // set_unread
	Unread   bool     `json:"unread,omitempty"`
	SendOnly bool     `json:"send_only,omitempty"` // restart
	Rejected bool     `json:"rejected,omitempty"`  // set_sent
}

type Case struct {
	SendOnly bool   `json:"send_only"`
	Steps    []Step `json:"steps"`
	FullObs  bool   `json:"full_obs,omitempty"` // observe GetOutbound/answers for the small universe after every step
	Origin   string `json:"origin,omitempty"`
}

func (s Step) String() string {
	switch s.Op {
	case "add_out", "process_inbound":
		p := ""
		if s.Msg.P2POnly {
			p = ",p2p-only"
		}
		return fmt.Sprintf("%s(%s to=%v cc=%v%s)", s.Op, s.Msg.MID, s.Msg.To, s.Msg.Cc, p)
	case "get_outbound":
		return fmt.Sprintf("get_outbound(%v)", s.Fws)
	case "set_unread":
		return fmt.Sprintf("set_unread(%s/%s,%v)", s.Folder, s.MID, s.Unread)
	case "restart":
		return fmt.Sprintf("restart(send_only=%v)", s.SendOnly)
	case "prepare", "list":
		return s.Op
	}
	return fmt.Sprintf("%s(%s)", s.Op, s.MID)
}

func render(c Case, upto int) string {
	var parts []string
	for i, s := range c.Steps {
		if i > upto {
			break
		}
		parts = append(parts, s.String())
	}
	return fmt.Sprintf("[send_only=%v] %s", c.SendOnly, strings.Join(parts, " ; "))
}

// valid reports whether the step respects the call order real callers keep (see assumptions).
func valid(m *ref.Model, s Step) bool {
	switch s.Op {
	case "add_out":
		// a MID may be posted again (an edited draft replaces the outbox copy; a message that was sent once is
		// queued again): the new copy is the outbox message, an older copy in sent stays until SetSent replaces it
		return s.Msg != nil
	case "process_inbound":
		return s.Msg != nil && !m.SendOnly
	case "set_sent", "set_deferred":
		return m.Out[s.MID] != nil
	case "set_unread":
		return m.Folder(s.Folder)[s.MID] != nil
	}
	return true
}

func apply(m *ref.Model, s Step) {
	switch s.Op {
	case "add_out":
		m.AddOut(*s.Msg)
	case "process_inbound":
		m.ProcessInbound(*s.Msg)
	case "prepare":
		m.Prepare()
	case "set_sent":
		m.SetSent(s.MID)
	case "set_deferred":
		m.SetDeferred(s.MID)
	case "set_unread":
		m.Folder(s.Folder)[s.MID].Unread = s.Unread
	case "restart":
		m.Restart(s.SendOnly)
	}
}

// ---- execution against the library ----------------------------------------------------------------

func parseMsg(m ref.Msg) (*fbb.Message, error) {
	msg := new(fbb.Message)
	return msg, msg.ReadFrom(bytes.NewReader(m.Bytes()))
}

func addresses(fws []string) (out []fbb.Address, plain []string) {
	for _, f := range fws {
		if r, ok := strings.CutPrefix(f, "raw:"); ok {
			out, plain = append(out, fbb.Address{Addr: r}), append(plain, r)
		} else {
			out, plain = append(out, fbb.AddressFromString(f)), append(plain, f)
		}
	}
	return
}

var folders = []string{"in", "out", "sent", "archive"}

func list(h *mailbox.DirHandler, folder string) ([]*fbb.Message, error, int) {
	switch folder {
	case "in":
		l, err := h.Inbox()
		return l, err, h.InboxCount()
	case "out":
		l, err := h.Outbox()
		return l, err, h.OutboxCount()
	case "sent":
		l, err := h.Sent()
		return l, err, h.SentCount()
	}
	l, err := h.Archive()
	return l, err, h.ArchiveCount()
}

func sortedKeys(m map[string]*ref.Stored) []string {
	k := make([]string, 0, len(m))
	for s := range m {
		k = append(k, s)
	}
	sort.Strings(k)
	return k
}

// observe compares every folder and count with the model.
func observe(h *mailbox.DirHandler, m *ref.Model) (sig, msg string) {
	for _, f := range folders {
		want := m.Folder(f)
		got, err, count := list(h, f)
		if err != nil {
			return "listing-error:" + f, fmt.Sprintf("listing folder %q failed: %v", f, err)
		}
		var mids []string
		for _, g := range got {
			mids = append(mids, g.MID())
		}
		sort.Strings(mids)
		if fmt.Sprint(mids) != fmt.Sprint(sortedKeys(want)) {
			return "folder-membership:" + f, fmt.Sprintf("folder %q holds %v, the model holds %v", f, mids, sortedKeys(want))
		}
		if count != len(want) {
			return "folder-count:" + f, fmt.Sprintf("count of folder %q is %d, the model holds %d messages", f, count, len(want))
		}
		for _, g := range got {
			w := want[g.MID()]
			raw, err := g.Bytes()
			if err != nil {
				return "message-unserialisable:" + f, fmt.Sprintf("message %s listed in %q cannot be serialised: %v", g.MID(), f, err)
			}
			if !bytes.Equal(ref.Public(raw), w.Public) {
				return "message-bytes:" + f, fmt.Sprintf("message %s in %q differs from what was stored (modulo private headers):\n got %q\nwant %q", g.MID(), f, ref.Public(raw), w.Public)
			}
			if mailbox.IsUnread(g) != w.Unread {
				return "unread-flag:" + f, fmt.Sprintf("message %s in %q: IsUnread=%v, the model says %v", g.MID(), f, mailbox.IsUnread(g), w.Unread)
			}
		}
	}
	return "", ""
}

func checkOutbound(h *mailbox.DirHandler, m *ref.Model, fws []string) (sig, msg string, n int) {
	addrs, plain := addresses(fws)
	got := h.GetOutbound(addrs...)
	want := m.Eligible(plain)
	kind := "cms"
	if len(fws) > 0 {
		kind = "p2p"
	}
	var mids []string
	for _, g := range got {
		mids = append(mids, g.MID())
	}
	sort.Strings(mids)
	if fmt.Sprint(mids) != fmt.Sprint(want) {
		return "outbound-set:" + kind, fmt.Sprintf("GetOutbound(%v) returned %v, eligible are %v (deferred: %v)", fws, mids, want, keys(m.Deferred)), len(got)
	}
	for _, g := range got {
		raw, err := g.Bytes()
		if err != nil {
			return "outbound-unserialisable", fmt.Sprintf("GetOutbound(%v): message %s cannot be serialised: %v", fws, g.MID(), err), len(got)
		}
		if p := ref.PrivateIn(raw); len(p) > 0 {
			return "outbound-private-header:" + kind, fmt.Sprintf("GetOutbound(%v): message %s carries mailbox-private header(s) %q", fws, g.MID(), p), len(got)
		}
		if !bytes.Equal(raw, m.Out[g.MID()].Public) {
			return "outbound-bytes:" + kind, fmt.Sprintf("GetOutbound(%v): message %s differs from what was posted:\n got %q\nwant %q", fws, g.MID(), raw, m.Out[g.MID()].Public), len(got)
		}
	}
	return "", "", len(got)
}

func keys(m map[string]bool) []string {
	var k []string
	for s, v := range m {
		if v {
			k = append(k, s)
		}
	}
	sort.Strings(k)
	return k
}

func checkAnswer(h *mailbox.DirHandler, m *ref.Model, mid string) (sig, msg string) {
	p := fbb.NewProposal(mid, "title", fbb.Wl2kProposal, []byte("data"))
	got := byte(h.GetInboundAnswer(*p))
	if want := m.Answer(mid); got != want && !(refusable(mid) && want == '+' && got == '=') {
		return "inbound-answer", fmt.Sprintf("GetInboundAnswer(%s) = %q, the model says %q (send-only=%v, in inbox=%v)", mid, got, want, m.SendOnly, m.In[mid] != nil)
	}
	return "", ""
}

type stats struct {
	executed, skipped   int
	refused             int // operations on a refusable MID that the mailbox refused with an error
	nontrivial          bool
	p2pNonEmpty         bool
	cmsQueries, p2pQ    int
	afterSent           bool
	afterDeferPrepare   bool
	afterRestart        bool
	unreadOnOut         bool
	sendOnlySeen        bool
	failedAt            int
	rejectSeen, p2ponly bool
}

var exhMIDs = []string{"EXHAUSTIVE01", "EXH.b2f.IV02"}
var exhFws = [][]string{nil, {"LA1B"}}

func run(c Case) (sig, msg string, st stats) {
	base, err := mboxrun.TempBase("verif-c10-")
	if err != nil {
		panic("harness: " + err.Error())
	}
	defer os.RemoveAll(base)
	dir := filepath.Join(base, "mbox")
	h := mailbox.NewDirHandler(dir, c.SendOnly)
	m := ref.NewModel()
	m.SendOnly = c.SendOnly
	st.sendOnlySeen = c.SendOnly
	st.failedAt = -1
	if err := h.Prepare(); err != nil {
		return "prepare-error", fmt.Sprintf("Prepare on a new directory failed: %v", err), st
	}
	var sentSeen, restartSeen, deferPending, deferPrepared bool
	fail := func(i int, s, ms string) (string, string, stats) {
		st.failedAt = i
		return s, fmt.Sprintf("after step %d of %s:\n%s", i+1, render(c, i), ms), st
	}
	for i, s := range c.Steps {
		if !valid(m, s) {
			st.skipped++
			continue
		}
		st.executed++
		switch s.Op {
		case "add_out", "process_inbound":
			msg, err := parseMsg(*s.Msg)
			if err != nil {
				panic(fmt.Sprintf("harness: generated message does not parse: %v\n%q", err, s.Msg.Bytes()))
			}
			if s.Op == "add_out" {
				err = h.AddOut(msg)
				st.p2ponly = st.p2ponly || s.Msg.P2POnly
			} else {
				err = h.ProcessInbound(msg)
			}
			if err != nil && refusable(s.Msg.MID) {
				st.refused++
				if sg, ms := observe(h, m); sg != "" { // a refused operation changes nothing
					return fail(i, sg, ms)
				}
				continue
			}
			if err != nil {
				return fail(i, "op-error:"+s.Op, fmt.Sprintf("%s returned %v", s.Op, err))
			}
		case "prepare":
			if err := h.Prepare(); err != nil {
				return fail(i, "op-error:prepare", fmt.Sprintf("Prepare returned %v", err))
			}
			if deferPending {
				deferPrepared = true
			}
		case "restart":
			h = mailbox.NewDirHandler(dir, s.SendOnly)
			if err := h.Prepare(); err != nil {
				return fail(i, "op-error:prepare", fmt.Sprintf("Prepare after restart returned %v", err))
			}
			restartSeen = true
			st.sendOnlySeen = st.sendOnlySeen || s.SendOnly
		case "set_sent":
			h.SetSent(s.MID, s.Rejected)
			sentSeen = true
		case "set_deferred":
			h.SetDeferred(s.MID)
			deferPending = true
		case "set_unread":
			l, err, _ := list(h, s.Folder)
			if err != nil {
				return fail(i, "listing-error:"+s.Folder, fmt.Sprintf("listing folder %q failed: %v", s.Folder, err))
			}
			var target *fbb.Message
			for _, g := range l {
				if g.MID() == s.MID {
					target = g
				}
			}
			if target == nil {
				return fail(i, "folder-membership:"+s.Folder, fmt.Sprintf("message %s is not listed in %q", s.MID, s.Folder))
			}
			if err := mailbox.SetUnread(target, s.Unread); err != nil {
				return fail(i, "op-error:set_unread", fmt.Sprintf("SetUnread(%s/%s, %v) returned %v", s.Folder, s.MID, s.Unread, err))
			}
			st.unreadOnOut = st.unreadOnOut || s.Folder == "out"
		}
		apply(m, s)
		switch s.Op {
		case "get_outbound":
			sg, ms, n := checkOutbound(h, m, s.Fws)
			if len(s.Fws) > 0 {
				st.p2pQ++
				st.p2pNonEmpty = st.p2pNonEmpty || n > 0
			} else {
				st.cmsQueries++
			}
			if sentSeen || deferPrepared || restartSeen {
				st.nontrivial = true
				st.afterSent = st.afterSent || sentSeen
				st.afterDeferPrepare = st.afterDeferPrepare || deferPrepared
				st.afterRestart = st.afterRestart || restartSeen
			}
			if sg != "" {
				return fail(i, sg, ms)
			}
		case "get_inbound_answer":
			st.rejectSeen = st.rejectSeen || m.Answer(s.MID) == '-'
			if sg, ms := checkAnswer(h, m, s.MID); sg != "" {
				return fail(i, sg, ms)
			}
		}
		if sg, ms := observe(h, m); sg != "" {
			return fail(i, sg, ms)
		}
		if c.FullObs {
			for _, fw := range exhFws {
				sg, ms, n := checkOutbound(h, m, fw)
				if len(fw) > 0 && n > 0 {
					st.p2pNonEmpty = true
				}
				if sg != "" {
					return fail(i, sg, ms)
				}
			}
			if sentSeen || deferPrepared || restartSeen {
				st.nontrivial = true
			}
			for _, mid := range exhMIDs {
				if sg, ms := checkAnswer(h, m, mid); sg != "" {
					return fail(i, sg, ms)
				}
			}
		}
	}
	return "", "", st
}

// ---- generator -------------------------------------------------------------------------------------

// the MID universe: plain identifiers and the shapes a file-name based store could trip over (dots inside, the
// store's own extension inside, a trailing dot, punctuation, a single character); all are accepted by the
// mailbox's MID check (no separator, no leading dot, no NUL, not empty)
var mids = []string{"C10MID000001", "AB.CD0000002", "NOTE.b2f", "X-Y_Z+=@3", "A", "C10MID00006.", ".HID0000007"}

// refusable: identifiers a file-name based mailbox may refuse to store (a leading dot would make a hidden file).
// The mailbox may refuse the operation with an error (the model then does not change, and a proposal may be
// answered with a deferral); if it accepts the operation, everything else applies: a message that was added is
// listed, is eligible, a received one is flagged unread and rejected when proposed again.
func refusable(mid string) bool { return strings.HasPrefix(mid, ".") }

// four recipient identities, each in several spellings
var identities = [][]string{
	{"LA1B", "la1b", "LA1B@winlink.org", "la1b@WINLINK.ORG"},
	{"LA2C", "la2c", "La2c@Winlink.org"},
	{"SM5XYZ-7", "sm5xyz-7", "SM5XYZ-7@winlink.org"},
	{"SMTP:ola@example.com", "ola@example.com", "OLA@example.com"},
}

var fwLists = [][]string{
	nil,
	{"LA1B"},
	{"LA2C", "SM5XYZ-7"},
	{"la1b@winlink.org"},
	{"raw:la1b"},
	{"Sm5xyz-7@WINLINK.ORG", "la2c"},
}

var dates = []string{"2024/05/06 07:08", "2019/12/31 23:59", "2026/01/01 00:00"}

func genMsg(t *rapid.T, mid string, outbound bool) *ref.Msg {
	m := &ref.Msg{MID: mid, Date: rapid.SampledFrom(dates).Draw(t, "date"), From: rapid.SampledFrom([]string{"N0CALL", "LA9XX", "SMTP:someone@example.org"}).Draw(t, "from")}
	addr := func(label string) string {
		id := rapid.SampledFrom(identities).Draw(t, label+"_id")
		return rapid.SampledFrom(id).Draw(t, label+"_form")
	}
	switch rapid.IntRange(0, 9).Draw(t, "rcpts") {
	case 0, 1, 2, 3, 4, 5:
		m.To = []string{addr("to")}
	case 6:
		m.To = []string{addr("to"), addr("to2")}
	case 7:
		m.To = []string{addr("to")}
		m.Cc = []string{addr("cc")}
	case 8:
		m.Cc = []string{addr("cc")} // sole recipient on the Cc line
	default:
		m.To = []string{addr("to"), addr("to2")}
		m.Cc = []string{addr("cc")}
	}
	m.Subject = rapid.SampledFrom([]string{"Hello", "Re: position", "//WL2K P/ priority traffic", "x"}).Draw(t, "subject")
	lines := rapid.SliceOfN(rapid.SampledFrom([]string{"hello", "", "73 de LA1B", "X-P2POnly: true", "Mid: FAKE", "a longer line of ordinary text that stays well below the limits"}), 1, 5).Draw(t, "body")
	m.Body = []byte(strings.Join(lines, "\r\n") + "\r\n")
	if rapid.IntRange(0, 3).Draw(t, "nfiles") == 0 {
		m.Files = []ref.File{{Name: rapid.SampledFrom([]string{"a.txt", "position.bin"}).Draw(t, "fname"), Data: rapid.SliceOfN(rapid.Byte(), 0, 40).Draw(t, "fdata")}}
	}
	if outbound {
		m.P2POnly = rapid.IntRange(0, 2).Draw(t, "p2ponly") == 0
	}
	return m
}

func filter(all []string, keep func(string) bool) (out []string) {
	for _, s := range all {
		if keep(s) {
			out = append(out, s)
		}
	}
	return
}

func genCase(t *rapid.T) Case {
	c := Case{SendOnly: rapid.IntRange(0, 4).Draw(t, "send_only") == 0, Origin: "rapid"}
	m := ref.NewModel()
	m.SendOnly = c.SendOnly
	reused := false
	defer func() {
		if reused {
			harness.Label("history:MID-posted-again(while in outbox or sent)")
		}
	}()
	add := func(s Step) {
		if !valid(m, s) {
			panic("generator produced an invalid step")
		}
		c.Steps = append(c.Steps, s)
		apply(m, s)
	}
	pick := func(t *rapid.T, from []string, label string) string {
		if len(from) == 0 {
			t.Skip("no candidate")
		}
		return rapid.SampledFrom(from).Draw(t, label)
	}
	inFolder := func(f map[string]*ref.Stored) []string { return sortedKeys(f) }
	t.Repeat(map[string]func(*rapid.T){
		"add_out": func(t *rapid.T) {
			mid := pick(t, filter(mids, m.CanAddOut), "mid")
			add(Step{Op: "add_out", Msg: genMsg(t, mid, true)})
		},
		"add_out2": func(t *rapid.T) {
			// every fourth time any MID: also one that is in the outbox (replaced) or in sent (queued again)
			from := filter(mids, m.CanAddOut)
			if rapid.IntRange(0, 3).Draw(t, "reuse") == 0 {
				from = mids
			}
			mid := pick(t, from, "mid")
			if !m.CanAddOut(mid) {
				reused = true
			}
			add(Step{Op: "add_out", Msg: genMsg(t, mid, true)})
		},
		"process_inbound": func(t *rapid.T) {
			if m.SendOnly {
				t.Skip("send-only")
			}
			from := filter(mids, func(s string) bool { return m.In[s] == nil })
			if rapid.IntRange(0, 5).Draw(t, "again") == 0 {
				from = mids // received again although it is in the inbox (the handler stores what it is handed)
			}
			mid := pick(t, from, "mid")
			add(Step{Op: "process_inbound", Msg: genMsg(t, mid, false)})
		},
		"prepare": func(t *rapid.T) { add(Step{Op: "prepare"}) },
		"get_outbound": func(t *rapid.T) {
			add(Step{Op: "get_outbound", Fws: rapid.SampledFrom(fwLists).Draw(t, "fws")})
		},
		"get_outbound2": func(t *rapid.T) {
			add(Step{Op: "get_outbound", Fws: rapid.SampledFrom(fwLists).Draw(t, "fws")})
		},
		"set_sent": func(t *rapid.T) {
			add(Step{Op: "set_sent", MID: pick(t, inFolder(m.Out), "mid"), Rejected: rapid.Bool().Draw(t, "rejected")})
		},
		"set_deferred": func(t *rapid.T) {
			add(Step{Op: "set_deferred", MID: pick(t, inFolder(m.Out), "mid")})
		},
		"get_inbound_answer": func(t *rapid.T) {
			add(Step{Op: "get_inbound_answer", MID: rapid.SampledFrom(mids).Draw(t, "mid")})
		},
		"set_unread": func(t *rapid.T) {
			f := rapid.SampledFrom([]string{"in", "in", "out", "sent"}).Draw(t, "folder")
			add(Step{Op: "set_unread", Folder: f, MID: pick(t, inFolder(m.Folder(f)), "mid"), Unread: rapid.Bool().Draw(t, "unread")})
		},
		"list": func(t *rapid.T) { add(Step{Op: "list"}) },
		"restart": func(t *rapid.T) {
			so := m.SendOnly
			if rapid.IntRange(0, 3).Draw(t, "switch_mode") == 0 {
				so = !so
			}
			add(Step{Op: "restart", SendOnly: so})
		},
	})
	return c
}

func account(c Case, st stats) {
	harness.Eval()
	if st.nontrivial {
		harness.NonTrivial(harness.Hash(fmt.Sprintf("%v|%+v", c.SendOnly, c.Steps)))
		harness.Label("nontrivial")
	}
	lab := func(b bool, name string) {
		if b {
			harness.Label(name)
		}
	}
	lab(st.p2pNonEmpty, "p2p_query_nonempty")
	lab(st.p2pQ > 0, "has:p2p_query")
	lab(st.cmsQueries > 0, "has:cms_query")
	lab(st.afterSent, "query_after:set_sent")
	lab(st.afterDeferPrepare, "query_after:deferred+prepare")
	lab(st.afterRestart, "query_after:restart")
	lab(st.unreadOnOut, "has:set_unread_on_outbox")
	lab(st.sendOnlySeen, "has:send_only")
	lab(st.rejectSeen, "has:answer_reject")
	lab(st.p2ponly, "has:p2p_only_message")
	if c.Origin == "rapid" {
		for _, s := range c.Steps {
			harness.Label("op:" + s.Op)
		}
		harness.LabelN("steps_executed", st.executed)
		harness.LabelN("ops-on-a-leading-dot-MID-refused-by-the-mailbox", st.refused)
		harness.LabelN("steps_skipped", st.skipped)
		switch n := len(c.Steps); {
		case n < 10:
			harness.Label("len:<10")
		case n < 30:
			harness.Label("len:10-29")
		default:
			harness.Label("len:>=30")
		}
	}
	if harness.WantSample() && st.nontrivial && st.p2pNonEmpty && c.Origin == "rapid" {
		harness.Sample(render(c, len(c.Steps)))
	}
}

func execute(t harness.TB, c Case) {
	harness.Begin(c)
	var st stats
	var sig, msg string
	psig, pmsg := harness.Catch(func() { sig, msg, st = run(c) })
	harness.End()
	if psig != "" {
		if strings.Contains(pmsg, "harness: ") {
			t.Fatalf("harness problem: %s", pmsg)
		}
		account(c, st)
		harness.Fail(t, psig, c, "%s\nhistory: %s", pmsg, render(c, len(c.Steps)))
		return
	}
	account(c, st)
	if sig != "" {
		harness.Fail(t, sig, c, "%s", msg)
	}
}

func TestProp(t *testing.T) {
	rapid.Check(t, func(t *rapid.T) { execute(t, genCase(t)) })
}

// ---- exhaustive enumeration ------------------------------------------------------------------------

func exhMsg(mid string, shape int) *ref.Msg {
	m := &ref.Msg{MID: mid, Date: dates[0], From: "N0CALL", Subject: "s", Body: []byte("hello\r\n")}
	switch shape {
	case 0:
		m.To = []string{"la1b@winlink.org"} // sole recipient = the P2P peer
	case 1:
		m.To = []string{"LA1B"}
		m.P2POnly = true
	default:
		m.To = []string{"LA1B", "LA2C"} // the peer is not the only recipient
	}
	return m
}

func alphabet() []Step {
	var a []Step
	for _, mid := range exhMIDs {
		for shape := 0; shape < 3; shape++ {
			a = append(a, Step{Op: "add_out", Msg: exhMsg(mid, shape)})
		}
		a = append(a, Step{Op: "process_inbound", Msg: exhMsg(mid, 2)})
		a = append(a, Step{Op: "set_sent", MID: mid})
		a = append(a, Step{Op: "set_deferred", MID: mid})
	}
	for _, f := range []string{"in", "out"} {
		for _, u := range []bool{true, false} {
			a = append(a, Step{Op: "set_unread", Folder: f, MID: exhMIDs[0], Unread: u})
		}
	}
	a = append(a, Step{Op: "prepare"}, Step{Op: "restart"}, Step{Op: "restart", SendOnly: true})
	return a
}

// TestExhaustive runs every valid action sequence of length L over the small universe.
func TestExhaustive(t *testing.T) {
	L := harness.Scale(3, 4)
	alpha := alphabet()
	idx, mine := 0, 0
	var rec func(m0 *ref.Model, steps []Step)
	clone := func(m *ref.Model) *ref.Model {
		n := ref.NewModel()
		n.SendOnly = m.SendOnly
		for _, f := range folders {
			for k, v := range m.Folder(f) {
				cp := *v
				n.Folder(f)[k] = &cp
			}
		}
		for k, v := range m.Deferred {
			n.Deferred[k] = v
		}
		return n
	}
	rec = func(m0 *ref.Model, steps []Step) {
		if len(steps) == L {
			idx++
			if !harness.Mine(idx) {
				return
			}
			mine++
			execute(t, Case{Steps: append([]Step(nil), steps...), FullObs: true, Origin: "exhaustive"})
			return
		}
		for _, s := range alpha {
			if !valid(m0, s) {
				continue
			}
			m1 := clone(m0)
			apply(m1, s)
			rec(m1, append(steps, s))
		}
	}
	rec(ref.NewModel(), nil)
	if i, _ := harness.Shard(); i == 0 {
		harness.ExhaustiveSpace(fmt.Sprintf("all %d valid action sequences of length %d over %d actions (2 MIDs, 3 outbound shapes, forwarder lists {CMS, LA1B}), GetOutbound and answers observed after every step", idx, L, len(alpha)))
	}
}

func TestReplay(t *testing.T) {
	for _, f := range harness.ReplayFiles() {
		var c Case
		if _, err := harness.ReplayCase(f, &c); err != nil {
			t.Fatalf("%s: %v", f, err)
		}
		execute(t, c)
	}
}
